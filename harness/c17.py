"""
C17 — advantage estimation follows its definition and respects episode boundaries; every estimate,
old log-probability and old value is applied to the observation/action it was computed for.

Correspondence: the real `PPO.learn` / `IPPO.learn` are run (with the guarded recorder of
`agilerl/utils/verif_hooks.py`, AGILERL_VERIF=1) on rollouts whose observations, actions, old
log-probs and values encode (agent, step, env); the recorded advantages/returns are diffed against
`Model/GAE.lean` (`gae run …`, exact on dyadic inputs, toleranced on real-critic float inputs) and the
provenance of every flattened training row against the model's flatten maps (`gae ppoflat`,
`gae ippoobs`, `gae ippoadv`).

Oracle (independent of the Lean model): the recursion recomputed with Fractions; no-leak by
perturbing everything after an episode boundary (and every other column) and re-running the real
learn; alignment by provenance decoding of all six flattened tensors; the bootstrap value by calling
the critic on the final next observation (for PPO also: equal to the value the rollout path
`get_action` gives, D18).

Source translation (`pre_gate`, before the Lean gate): `py2lean_gae.py` translates the source text of the
advantage-estimation loop of `PPO.learn` (agilerl/algorithms/ppo.py) and `IPPO._learn_individual`
(agilerl/algorithms/ippo.py) of the tree under test into `lean/Gen/GAEGen.lean`; `Proofs/GAEGenEq.lean`
proves the generated loop body / range equal to `loopBody` / `gaeLoop` / `returnsOf` and `Props/C17.lean`
restates the advantage / return theorems over the generated definitions (`C17_source_translation_*`).
If the translator rejects the source or those proofs stop checking, that is a gate problem naming the
broken equality; the gae+rows suites below (recorded advantages/returns vs the model and vs the recursion
recomputed with Fractions, no-leak perturbation) then supply the failing rollout if there is one.
`py2lean_flatten.py` executes the tensor RE-LAYOUT code symbolically (stack_experiences, is_vectorized_experiences,
flatten_experiences, get_experiences_samples, vectorize_experiences_by_agent, concatenate_experiences_into_batches and
the statements of PPO.learn / IPPO.assemble_shared_inputs / IPPO._learn_individual up to the minibatch indexing) into
row index maps `lean/Gen/FlattenGen.lean`; `Proofs/FlattenGenEq.lean` proves them equal to `ppoUnflat` / `ippoUnflat`
(the inverses of the model's flatten maps) and `Props/C17.lean` restates alignment / bijection / minibatch theorems over
them (`C17_source_translation_flatten_*`).  Failing inputs for a re-layout change come from the rows suites, from the
minibatches of the real learn() (spy on `get_experiences_samples`: every one of the six gathered tensors must be
rows idx of the recorded flattened tensor, an epoch uses every row once; provenance diffed with `gae ppobatch /
ippobatch`) and from the `relayout-helpers` suite (the helpers driven directly with Dict / Tuple observations and index
vectors with repeats).

Dict KEY ORDER is a generator dimension everywhere a dict enters learn() (round 5): each of the eight rollout dicts of
IPPO lists the agents in an order of its own (`korder`: "interleave" = the policy groups, which share an observation
shape, met / interleaved differently in every dict; "free" = every dict an independent permutation, also within a
group; and the single-dict form: only next_obs, exactly as env.step returned it, out of order, real critic, non-terminal
last step); the per-step observation dicts of a Dict space (PPO and IPPO, `oorder`) are built with a key insertion order
of their own per step and agent, with an observation kind `dict2` that has two members of IDENTICAL shape and dtype and
different contents (pos = [step, env, code], vel = [-(code+1), env, step]; each member is decoded by NAME).  Oracle: the
existing provenance oracle (all six tensors of a row and every observation member belong to one (agent, step, env); the
GAE loop sees each agent's own rewards / values / flags; the bootstrap value of a column is its own critic at its own final
next observation).  Loop suite: the scripted parallel env returns every dict in an agent key order drawn per call, and the
recorded bootstrap values are held against critic(next_obs[agent]) looked up BY KEY before learn().  `probe_key_order` is the
regression probe of the repaired defect C17-ippo-dict-key-order.
"""
from __future__ import annotations

import copy
import inspect
import json
import random
import sys
import textwrap
from fractions import Fraction as Fr

import numpy as np
import torch

from common import ROOT, Check, InfraError, ddmin, frac

TOL = 5e-5          # relative-to-max(1,|x|) tolerance where float32 rounding is unavoidable
FINDING_SINGLE_STEP = "C17-ippo-single-step"


# ----------------------------------------------------------------------------- hook access
def hooks():
    """the guarded recorder of the tree under test; its absence is an infrastructure problem"""
    try:
        from agilerl.utils import verif_hooks
    except ImportError as e:
        raise InfraError("the C17 recorder hook agilerl/utils/verif_hooks.py is absent from the tree under test "
                         f"({e}); apply fixes/C17-hook-recorder.diff") from None
    if not getattr(verif_hooks, "ENABLED", False):
        raise InfraError("agilerl.utils.verif_hooks.ENABLED is false: AGILERL_VERIF=1 was not set before agilerl "
                         "was imported")
    return verif_hooks


# ----------------------------------------------------------------------------- provenance codes
def code(ai: int, t: int, e: int) -> int:
    return (ai * 8 + t) * 4 + e


def uncode(c: int):
    return (c // 32, (c // 4) % 8, c % 4)


def is_f32(x: Fr) -> bool:
    """x is exactly representable as a (normal) float32"""
    if x == 0:
        return True
    d = x.denominator
    if d & (d - 1):
        return False
    n = abs(x.numerator)
    n >>= (n & -n).bit_length() - 1
    return n.bit_length() <= 24 and d.bit_length() <= 100 and abs(x) < 2 ** 100


# ----------------------------------------------------------------------------- the oracle recursion
def gae_column(gamma: Fr, lam: Fr, r, v, d, nv: Fr, nd: int):
    """A_t, returns and 'every intermediate is a float32' for one column, by the definition:
    delta_t = r_t + g V_{t+1} (1-d_{t+1}) - V_t ;  A_t = delta_t + g l (1-d_{t+1}) A_{t+1}"""
    T = len(r)
    A = [Fr(0)] * (T + 1)
    exact = True
    for t in range(T - 1, -1, -1):
        d1 = nd if t + 1 == T else d[t + 1]
        v1 = nv if t + 1 == T else v[t + 1]
        nnt = 1 - d1
        delta = r[t] + gamma * v1 * nnt - v[t]
        A[t] = delta + gamma * lam * nnt * A[t + 1]
        for z in (gamma * v1, gamma * v1 * nnt, r[t] + gamma * v1 * nnt, delta, gamma * lam * nnt * A[t + 1],
                  A[t], A[t] + v[t]):
            exact = exact and is_f32(z)
    return A[:T], [A[t] + v[t] for t in range(T)], exact


# ----------------------------------------------------------------------------- cases
GL_EXACT = [("1/2", "3/4"), ("3/4", "1/2"), ("1/2", "1/2"), ("1", "1"), ("1/2", "1"), ("1", "1/2"), ("1", "3/4"),
            ("3/4", "1"), ("0", "3/4"), ("3/4", "0"), ("1/4", "1/2"), ("3/4", "3/4"), ("1", "0"), ("0", "0")]
ID_SETS = [["agent_0"], ["agent_0", "agent_1"], ["agent_0", "agent_1", "agent_2"], ["agent_0", "other_0"],
           ["agent_0", "agent_1", "other_0"], ["agent_0", "other_0", "agent_1"], ["other_0", "agent_0", "agent_1"]]
# listing order of a homogeneous group that is NOT the lexicographic order of the ids: any helper that
# re-orders agents (sorted(), set(), ...) in only some of the tensors then pairs one agent's estimates with
# another agent's observations.  ELEVEN: 'agent_10' sorts before 'agent_2'.
UNSORTED_ID_SETS = [["agent_1", "agent_0"], ["agent_2", "agent_0", "agent_1"], ["agent_1", "other_0", "agent_0"],
                    ["other_1", "agent_1", "other_0", "agent_0"], ["agent_0", "agent_2", "agent_1"]]
ELEVEN = [f"agent_{i}" for i in range(11)]
PATTERNS = ["none", "first", "last", "next", "d0", "random", "all", "mid"]


def done_column(rng: random.Random, T: int, pat: str):
    """(dones[0..T-1], next_done) of one column; dones[t] = 'an episode ended just before step t'"""
    d, nd = [0] * T, 0
    if pat == "first" and T > 1:
        d[1] = 1
    elif pat == "last" and T > 1:
        d[T - 1] = 1
    elif pat == "next":
        nd = 1
    elif pat == "d0":
        d[0] = 1
    elif pat == "random":
        d = [int(rng.random() < 0.35) for _ in range(T)]
        nd = int(rng.random() < 0.35)
    elif pat == "all":
        d, nd = [1] * T, 1
    elif pat == "mid" and T > 2:
        d[rng.randint(1, T - 1)] = 1
        nd = int(rng.random() < 0.5)
    return d, nd


def gen_case(rng: random.Random, algo: str, T: int, E: int, ids, exact: bool, vec: bool = True):
    ids = list(ids) if algo == "IPPO" else ["_"]
    n = len(ids) * T * E
    if exact:
        g, l = rng.choice(GL_EXACT)
        m = max(40, n)
        pool = rng.sample(range(-m, m + 1), n)                    # distinct values, multiples of 1/8
        vals = [Fr(k, 8) for k in pool]
        rew = lambda: Fr(rng.randint(-8, 8), 4)
        nvb = frac(Fr(rng.randint(-16, 16), 4))
    else:
        g, l = rng.choice([("99/100", "19/20"), ("9/10", "4/5"), ("99/100", "1")])
        vals, seen = [], set()
        while len(vals) < n:
            x = Fr(float(np.float32(rng.uniform(-2, 2))))
            if x not in seen:
                seen.add(x)
                vals.append(x)
        rew = lambda: Fr(float(np.float32(rng.uniform(-1, 1)))) if rng.random() < 0.5 else Fr(rng.uniform(-1, 1))
        nvb = None
    case = {"algo": algo, "ids": ids, "T": T, "E": E, "vec": bool(vec or E > 1), "gamma": g, "lam": l,
            "akind": rng.choice(["box", "box", "discrete"]), "share": bool(rng.random() < 0.5), "exact": exact,
            # how the agent comes by gamma / lambda (constructor, or changed after construction)
            "hp_route": rng.choice(["ctor"] * 6 + HP_ROUTES),
            # PPO: flat Box, or Dict / Tuple with a Box member and a Discrete (scalar) member
            "okind": (rng.choice(["vector", "vector", "dict", "tuple", "dict2"]) if algo == "PPO" else
                      rng.choice(["vector"] * 8 + ["dict", "tuple", "image", "dict2"])) if vec else "vector",
            "norm": bool(rng.random() < 0.5),              # normalize_images of the agent (image observations)
            "rmix": rng.choice(["none", "none", "int-first"]),
            "nvb": nvb, "rdtype": rng.choice(["f64", "f64", "f32"]), "seed": rng.randrange(1 << 30),
            "r": {}, "v": {}, "d": {}, "nd": {}}
    if algo == "IPPO" and T * E == 1 and any(len(m) == 1 for _, m in groups_of(case)):
        # a policy group whose whole rollout is ONE sample: the minibatch loop skips batches of one, nothing is
        # learned, and with a Discrete action space `reshape_from_space` raises on the 0-d action tensor;
        # outside the property (nothing is applied to anything) -- keep the shape, avoid the unrelated crash
        case["akind"] = "box"
        case["okind"] = "vector"                            # same corner for a Discrete observation member
    it = iter(vals)
    pat_case = rng.choice(PATTERNS + ["per-column"] * 4)
    for a in ids:
        cols = [done_column(rng, T, rng.choice(PATTERNS) if pat_case == "per-column" else pat_case) for _ in range(E)]
        case["d"][a] = [[cols[e][0][t] for e in range(E)] for t in range(T)]
        case["nd"][a] = [cols[e][1] for e in range(E)]
        case["r"][a] = [[frac(rew()) for _ in range(E)] for _ in range(T)]
        if case["rmix"] == "int-first":
            case["r"][a][0] = [str(rng.randint(-2, 2)) for _ in range(E)]
        case["v"][a] = [[frac(next(it)) for _ in range(E)] for _ in range(T)]
    return case


def restrict(case, steps, envs, ids):
    """sub-rollout: keep the listed step indices / env indices / agent ids (for shrinking)"""
    c = {k: v for k, v in case.items() if k not in ("r", "v", "d", "nd")}
    c["ids"], c["T"], c["E"] = list(ids), len(steps), len(envs)
    c["vec"] = case["vec"] or len(envs) > 1
    for k in ("r", "v", "d"):
        c[k] = {a: [[case[k][a][t][e] for e in envs] for t in steps] for a in ids}
    c["nd"] = {a: [case["nd"][a][e] for e in envs] for a in ids}
    if case.get("korder"):
        c["korder"] = {"kind": case["korder"]["kind"], "orders": [[a for a in o if a in ids] for o in case["korder"]["orders"]]}
    if case.get("oorder"):
        c["oorder"] = {a: [case["oorder"][a][t] for t in steps] + [case["oorder"][a][case["T"]]] for a in ids}
    return c


def groups_of(case):
    """[(group id, [agent ids in dict order])] as IPPO forms them (agent_id.rsplit('_', 1)[0]); PPO: one"""
    if case["algo"] == "PPO":
        return [("_", ["_"])]
    g: dict[str, list] = {}
    for a in case["ids"]:
        g.setdefault(a.rsplit("_", 1)[0], []).append(a)
    return list(g.items())


def has_boundary(case) -> bool:
    T = case["T"]
    return any(case["nd"][a][e] or any(case["d"][a][t][e] for t in range(1, T))
               for a in case["ids"] for e in range(case["E"]))


# ----------------------------------------------------------------------------- real agents and rollouts
HP_ROUTES = ["setattr", "clone", "checkpoint", "mutation"]
HP_DECOY = (0.875, 0.625)           # gamma, lambda the agent is constructed with when they are changed afterwards


def _construct(case, g: float, l: float, hp_config=None):
    import agents
    okind = case.get("okind", "vector")
    fam = "image" if okind == "image" else "dict"
    if case["algo"] == "PPO" and okind != "vector":
        from agilerl.algorithms import PPO
        agents.seed_all(case["seed"])
        return PPO(multi_obs_space(okind), agents.act_space(case["akind"]), index=0, hp_config=hp_config,
                   net_config=copy.deepcopy(agents.default_net_config("PPO", fam)), batch_size=16, device="cpu",
                   accelerator=None, learn_step=8, update_epochs=1, share_encoders=case["share"], gamma=g, gae_lambda=l,
                   normalize_images=bool(case.get("norm", True)))
    if case["algo"] == "PPO":
        return agents.build("PPO", "vector", seed=case["seed"], share_encoders=case["share"], hp_config=hp_config,
                            action_kind=case["akind"], gamma=g, gae_lambda=l, batch_size=16, update_epochs=1)
    from agilerl.algorithms import IPPO
    ids = case["ids"]
    obs = [agents.obs_space("vector") if okind == "vector" else multi_obs_space(okind) for _ in ids]
    act = [agents.act_space(case["akind"], 1 if a.startswith("other") else 0) for a in ids]
    agents.seed_all(case["seed"])
    return IPPO(observation_spaces=obs, action_spaces=act, agent_ids=list(ids), hp_config=hp_config,
                net_config=copy.deepcopy(agents.default_net_config("IPPO", "vector" if okind == "vector" else fam)),
                batch_size=16, device="cpu", accelerator=None, learn_step=8, update_epochs=1, gamma=g, gae_lambda=l,
                normalize_images=bool(case.get("norm", True)))


def build_agent(case):
    """the agent that will learn.  `hp_route` says how it came by its gamma / lambda: given to the constructor
    ("ctor"), or constructed with other values and then changed by plain assignment ("setattr"), assignment +
    clone(), assignment + save_checkpoint/load_checkpoint into a new agent, or an RL-hyper-parameter mutation of
    gae_lambda.  What counts for the estimates is the agent's CURRENT gamma / gae_lambda (read by the caller)."""
    g, l = float(Fr(case["gamma"])), float(Fr(case["lam"]))
    route = case.get("hp_route", "ctor")
    if route == "ctor":
        ag = _construct(case, g, l)
    elif route == "mutation":
        from agilerl.algorithms.core.registry import HyperparameterConfig, RLParameter
        from agilerl.hpo.mutation import Mutations
        ag = _construct(case, g, l, HyperparameterConfig(gae_lambda=RLParameter(min=0.05, max=1.0)))
        try:
            mut = Mutations(no_mutation=0, architecture=0, new_layer_prob=0.5, parameters=0, activation=0, rl_hp=1,
                            mutation_sd=0.1, rand_seed=case["seed"] % (2 ** 31), device="cpu")
            ag = mut.mutation([ag])[0]
        except Exception:                                   # noqa: BLE001 - mutation machinery is C06's subject
            ag.gae_lambda = min(1.0, l * 0.75 + 0.125)
    else:
        ag = _construct(case, *HP_DECOY)
        ag.gamma, ag.gae_lambda = g, l
        try:
            if route == "clone":
                ag = ag.clone()
            elif route == "checkpoint":
                import os
                import tempfile
                fd, path = tempfile.mkstemp(suffix=".pt", prefix="c17_")
                os.close(fd)
                try:
                    ag.save_checkpoint(path)
                    fresh = _construct(case, *HP_DECOY)
                    fresh.load_checkpoint(path)
                    ag = fresh
                finally:
                    os.unlink(path)
        except Exception:                                   # noqa: BLE001 - clone / checkpoint are C01 / C07's subject
            pass
    critics = [ag.critic] if case["algo"] == "PPO" else list(ag.critics)
    if not case["exact"] and case.get("okind", "vector") != "vector":
        # spread the bootstrap values of different (agent, env) next observations well apart
        for cr in critics:
            lin = [m for _, m in cr.named_modules() if isinstance(m, torch.nn.Linear)][-1]
            with torch.no_grad():
                lin.weight.mul_(8.0)
    if case["exact"]:
        b = float(Fr(case["nvb"]))
        for cr in critics:
            lin = [m for _, m in cr.named_modules() if isinstance(m, torch.nn.Linear)][-1]
            with torch.no_grad():
                lin.weight.zero_()
                lin.bias.fill_(b)
    return ag


N_CODE = 512        # size of the Discrete member: every provenance code (also of eleven agents) fits


def multi_obs_space(okind: str):
    """Dict / Tuple observation with a Box(3,) member [step, env, code] and a Discrete member = code;
    "image": raw uint8 pixels 0..255, (3, 8, 8): pixel (0,0,0..1) = code, plane 1 = step, plane 2 = env"""
    from gymnasium import spaces
    if okind == "image":
        return spaces.Box(0, 255, (3, 8, 8), np.uint8)
    vec, k = spaces.Box(-1.0, 1.0, (3,), np.float32), spaces.Discrete(N_CODE)
    if okind == "dict2":
        # two members of IDENTICAL shape and dtype with different contents: pos = [step, env, code],
        # vel = [-(code+1), env, step]; a component stored under the other key is a different observation
        return spaces.Dict({"pos": vec, "vel": spaces.Box(-1.0, 1.0, (3,), np.float32), "k": k})
    return spaces.Dict({"vec": vec, "k": k}) if okind == "dict" else spaces.Tuple((vec, k))


def pack_obs(okind: str, s4: np.ndarray):
    """[agent, step, env, code] rows -> the observation of the case's kind"""
    if okind == "vector":
        return s4
    if okind == "image":
        flat = s4.reshape(-1, 4)
        img = np.zeros((flat.shape[0], 3, 8, 8), dtype=np.uint8)
        for i, (_, t, e, c) in enumerate(flat):
            c = int(c)
            img[i, 0] = (c * 7 + 3) % 256
            img[i, 0, 0, 0], img[i, 0, 0, 1] = c % 256, c // 256
            img[i, 1], img[i, 2] = int(t) % 256, int(e) % 256
        return img.reshape(*s4.shape[:-1], 3, 8, 8)
    vec = np.ascontiguousarray(s4[..., 1:4]).astype(np.float32)
    k = np.clip(s4[..., 3], 0, N_CODE - 1).astype(np.int64)
    if okind == "dict2":
        vel = np.stack([-(s4[..., 3] + 1), s4[..., 2], s4[..., 1]], axis=-1).astype(np.float32)
        return {"pos": vec, "vel": vel, "k": k}
    return {"vec": vec, "k": k} if okind == "dict" else (vec, k)


def key_ordered(case, a, t, obs):
    """the observation dict of agent a at step t (t = T: the final next observation) with ITS key insertion order
    (`oorder`): environments build their observation dicts as they please, e.g. reset() {pos, vel}, step() {vel, pos}"""
    oo = case.get("oorder")
    if not oo or not isinstance(obs, dict):
        return obs
    return {k: obs[k] for k in oo[a][t]}


# ---- dict KEY ORDER as a dimension: everywhere a dict enters learn(), what it holds is addressed by key
ROLLOUT_DICTS = ("states", "actions", "log_probs", "rewards", "dones", "values", "next_states", "next_dones")
FINDING_KEY_ORDER = "C17-ippo-dict-key-order"


def with_agent_key_orders(rng: random.Random, case, kind: str):
    """each of the eight rollout dicts of an IPPO case gets its own agent key order.
    "interleave": the policy groups are interleaved / met in a different order in every dict, the members of a group
    keep their listing order; "free": every dict is an independent permutation of the agents (at least two dicts
    differ in the order of the members of some group)"""
    ids = list(case["ids"])
    grp = groups_of(case)
    if case["algo"] != "IPPO" or len(ids) < 2:
        return case
    orders = []
    for _ in ROLLOUT_DICTS:
        if kind == "free":
            orders.append(rng.sample(ids, len(ids)))
        else:
            pools = [list(m) for _, m in grp]
            o = []
            while any(pools):
                o.append(rng.choice([p for p in pools if p]).pop(0))
            orders.append(o)
    if all(o == ids for o in orders):                   # make sure something IS permuted: the final next observation
        orders[6] = ids[::-1] if kind == "free" else [a for _, m in grp[::-1] for a in m]
    case["korder"] = {"kind": kind, "orders": orders}
    return case


def within_group_order_differs(case) -> bool:
    """two of the eight dicts list the members of some policy group in different orders"""
    ko = (case.get("korder") or {}).get("orders")
    if not ko:
        return False
    for _, m in groups_of(case):
        if len({tuple(a for a in o if a in m) for o in ko}) > 1:
            return True
    return False


def with_obs_key_orders(rng: random.Random, case, same_shape_only=None):
    """Dict observations: every step's observation dict (and the final next observation) of every agent is built
    with its own key insertion order; `same_shape_only`: only the members of identical shape and dtype change places
    (what a positional transpose of the per-step dicts cannot notice by shape)"""
    okind = case.get("okind", "vector")
    if okind not in ("dict", "dict2"):
        return case
    keys = ["vec", "k"] if okind == "dict" else ["pos", "vel", "k"]
    T = case["T"]
    if same_shape_only is None:
        same_shape_only = rng.random() < 0.5
    if okind == "dict2" and same_shape_only:
        oo = {a: [rng.choice([["pos", "vel", "k"], ["vel", "pos", "k"]]) for _ in range(T + 1)] for a in case["ids"]}
    else:
        oo = {a: [rng.sample(keys, len(keys)) for _ in range(T + 1)] for a in case["ids"]}
    for a in case["ids"]:
        if T >= 1 and all(o == oo[a][0] for o in oo[a][:T]) and T > 1:
            o0 = oo[a][0]                                # reset() builds it one way, step() the other way round
            oo[a][T - 1] = o0[::-1] if okind == "dict" else \
                [{"pos": "vel", "vel": "pos"}.get(k, k) for k in o0]
    case["oorder"] = oo
    return case


def act_dim(case, a) -> int:
    return 3 if a.startswith("other") else 2


def n_discrete(case, a) -> int:
    return 2 if a.startswith("other") else 3


def make_rollout(case, next_shift: float = 0.0):
    """the 8-tuple `learn` takes, shaped as train_on_policy / train_multi_agent_on_policy collect it;
    obs = [agent, step, env, code], box action = ±code/64, log-prob = -(code+1)/64"""
    T, E, vec, ids = case["T"], case["E"], case["vec"], case["ids"]
    ippo = case["algo"] == "IPPO"
    rdt = np.float64 if case["rdtype"] == "f64" else np.float32
    S, A, L, R, D, V, NS, ND = ({a: [] for a in ids} for _ in range(8))
    for ai, a in enumerate(ids):
        for t in range(T):
            cs = [code(ai, t, e) for e in range(E)]
            s = np.array([[ai, t, e, c] for e, c in enumerate(cs)], dtype=np.float32)
            if case["akind"] == "box":
                k = act_dim(case, a) if ippo else 2
                ac = np.array([[c / 64 * (-1) ** j for j in range(k)] for c in cs], dtype=np.float32)
            else:
                ac = np.array([[c % (n_discrete(case, a) if ippo else 3)] for c in cs], dtype=np.int64)
                if not ippo:
                    ac = ac[:, 0]
            lp = np.array([[-(c + 1) / 64] for c in cs], dtype=np.float32)
            r = np.array([float(Fr(x)) for x in case["r"][a][t]], dtype=rdt)
            if case.get("rmix") == "int-first":
                # as real environments do: integer-typed rewards on some steps, fractional floats on others
                if all(Fr(x).denominator == 1 for x in case["r"][a][t]) and t % 3 == 0:
                    r = np.array([int(Fr(x)) for x in case["r"][a][t]], dtype=np.int64)
                else:
                    r = r.astype(np.float32 if t % 2 else np.float64)
            d = np.array(case["d"][a][t], dtype=np.float64)
            v = np.array([[float(Fr(x))] for x in case["v"][a][t]], dtype=np.float32)
            if not ippo:
                lp, v = lp[:, 0], v[:, 0]
            if not vec:                                 # no environment dimension at all
                s, ac, lp, v = s[0], ac[0], lp[0], v[0]
                r = int(r[0]) if r.dtype.kind == "i" and t == 0 else (r[0] if case.get("rmix") == "int-first" else float(r[0]))
                d = d if ippo else d[0]
            s = key_ordered(case, a, t, pack_obs(case.get("okind", "vector"), s))
            S[a].append(s), A[a].append(ac), L[a].append(lp), R[a].append(r), D[a].append(d), V[a].append(v)
        ns = np.array([[ai, 9 + next_shift, e, 0.5 if case.get("okind", "vector") == "vector" else 400 + ai * 4 + e]
                       for e in range(E)], dtype=np.float32)
        nd = np.array(case["nd"][a], dtype=np.int8)
        if not vec:
            ns = ns[0]
            nd = nd if ippo else nd[0]
        NS[a], ND[a] = key_ordered(case, a, T, pack_obs(case.get("okind", "vector"), ns)), nd
    if ippo:
        ko = (case.get("korder") or {}).get("orders")
        if ko:                                          # every one of the eight dicts in its OWN key order
            return tuple({a: x[a] for a in order} for x, order in zip((S, A, L, R, D, V, NS, ND), ko))
        return (S, A, L, R, D, V, NS, ND)
    return tuple(x["_"] for x in (S, A, L, R, D, V, NS, ND))


def critic_values(agent, case, rollout):
    """{agent id: [value of next_state per env]} by calling the critic directly, plus for PPO the value
    the rollout path (get_action) gives for the same observation"""
    out, roll_path = {}, {}
    with torch.no_grad():
        if case["algo"] == "PPO":
            ns = rollout[6]
            x = agent.preprocess_observation(ns)
            out["_"] = [float(z) for z in agent.critic(x).reshape(-1).tolist()]
            st = torch.get_rng_state()
            roll_path["_"] = [float(z) for z in np.asarray(agent.get_action(ns)[3]).reshape(-1).tolist()]
            torch.set_rng_state(st)
        else:
            from agilerl.utils.algo_utils import preprocess_observation
            for gid, members in groups_of(case):
                cr = agent.critics[agent.shared_agent_ids.index(gid)]
                cr.eval()
                for a in members:
                    x = preprocess_observation(rollout[6][a], agent.observation_space[a], agent.device,
                                               agent.normalize_images)
                    out[a] = [float(z) for z in cr(x).reshape(-1).tolist()]
    return out, roll_path


class ImplRaised(Exception):
    pass


LAST_MINIBATCHES: list = []      # filled by run_learn: the minibatches the real learn() gathered (see minibatch_check)
ROW_NAMES = ("states", "actions", "log_probs", "advantages", "returns", "values")


def _members(x):
    if isinstance(x, dict):
        return [(str(k), v) for k, v in x.items()]
    if isinstance(x, (tuple, list)):
        return [(str(k), v) for k, v in enumerate(x)]
    return [("", x)]


def minibatch_check(case, recs, log):
    """oracle + model lines for the minibatches the real learn() gathered (`get_experiences_samples`, spied on):
    row j of EVERY one of the six minibatch tensors (every Dict / Tuple member) is row idx[j] of the flattened
    tensor the recorder saw, and the index vectors of an epoch use every row exactly once; the provenance of the
    minibatch's old log-probs is diffed with `gae ppobatch / ippobatch` (Model: `gather`)."""
    problems, impl, ops = [], [], []
    grp = groups_of(case)
    T, E, ippo = case["T"], case["E"], case["algo"] == "IPPO"
    seen: dict[int, list] = {}
    for gi, idx, out in log:
        if not 0 <= gi < len(grp):
            continue
        gid, members = grp[gi]
        rows = recs[gid][1]
        A = len(members)
        N = A * T * E
        bad = None
        if len(out) != 6:
            bad = f"the minibatch indexing returns {len(out)} tensors"
        idx_l = [int(i) for i in np.asarray(idx).reshape(-1).tolist()]
        for name, got in zip(ROW_NAMES, out):
            if bad:
                break
            for (k, g), (_, r) in zip(_members(got), _members(rows[name])):
                g_, r_ = torch.as_tensor(g), torch.as_tensor(r)
                want = r_[torch.as_tensor(idx_l, dtype=torch.long)]
                if tuple(g_.shape) != tuple(want.shape) or not torch.equal(g_.to(want.dtype), want):
                    j = next((j for j in range(min(len(g_), len(want))) if not torch.equal(g_[j].to(want.dtype), want[j])), 0) \
                        if g_.dim() and want.dim() else 0
                    bad = (f"row {j} of the minibatch's {name}{'[' + k + ']' if k else ''} is not row idx[{j}] = "
                           f"{idx_l[j] if j < len(idx_l) else '?'} of the flattened {name} (index vector {idx_l[:12]}…, "
                           f"shapes {tuple(g_.shape)} vs {tuple(want.shape)}): the six tensors of a minibatch do not take the same rows")
                    break
        if bad:
            problems.append(f"[minibatch] group {gid}: {bad}")
            continue
        seen.setdefault(gi, []).extend(idx_l)
        if len([1 for g2, _, _ in log if g2 == gi]) and len(impl) < 8 and all(0 <= i < N for i in idx_l):
            lp = torch.as_tensor(out[2]).reshape(len(idx_l), -1)[:, 0].tolist()
            gl = {a: i for i, a in enumerate(case["ids"])}
            inv = {gl[a]: k for k, a in enumerate(members)}
            tags_ = []
            for x in lp:
                c = round(-x * 64 - 1)
                q = uncode(int(c)) if abs(-x * 64 - 1 - c) < 1e-9 and c >= 0 else None
                tags_.append("?" if q is None or q[0] not in inv else tag(inv[q[0]], q[1], q[2], ippo))
            impl.append(" ".join(tags_))
            ops.append((f"gae ippobatch {A} {T} {E} " if ippo else f"gae ppobatch {T} {E} ") + " ".join(map(str, idx_l)))
    for gi, used in seen.items():
        gid, members = grp[gi]
        N = len(members) * T * E
        if len(used) % N != 0 or any(sorted(used[k:k + N]) != list(range(N)) for k in range(0, len(used), N)):
            problems.append(f"[minibatch] group {gid}: the minibatches of an epoch do not use every one of the {N} training "
                            f"rows exactly once (index vectors {used[:24]}…)")
    return problems, impl, ops


def run_learn(case, *, next_shift: float = 0.0):
    """build a fresh agent, run the real learn, return (records by group, critic values, rollout-path values)"""
    vh = hooks()
    agent = build_agent(case)
    roll = make_rollout(case, next_shift)
    boot, roll_path = critic_values(agent, case, roll)
    boot["__hp__"] = (Fr(float(agent.gamma)), Fr(float(agent.gae_lambda)))     # the agent's CURRENT values
    vh.clear()
    random.seed(case["seed"]), np.random.seed(case["seed"] % (2 ** 32)), torch.manual_seed(case["seed"])
    # spy on the minibatch indexing of the real learn(): (group index, index vector, the six gathered tensors)
    mod = sys.modules.get(type(agent).__module__)
    orig = getattr(mod, "get_experiences_samples", None)
    del LAST_MINIBATCHES[:]
    if callable(orig):
        def spy(idx, *exps):
            out = orig(idx, *exps)
            pre_ = "ppo.rows" if case["algo"] == "PPO" else "ippo.rows"
            LAST_MINIBATCHES.append((sum(1 for t, _ in vh.RECORDS if t == pre_) - 1, np.array(idx).copy(),
                                     vh._copy(tuple(out)) if hasattr(vh, "_copy") else copy.deepcopy(tuple(out))))
            return out
        mod.get_experiences_samples = spy
    try:
        agent.learn(roll)
    except Exception as e:                                  # noqa: BLE001 - the implementation raised
        vh.clear()
        raise ImplRaised(f"{type(e).__name__}: {str(e)[:200]}") from None
    finally:
        if callable(orig):
            mod.get_experiences_samples = orig
    recs = list(vh.RECORDS)
    vh.clear()
    pre = "ppo" if case["algo"] == "PPO" else "ippo"
    gae = [r for t, r in recs if t == pre + ".gae"]
    rows = [r for t, r in recs if t == pre + ".rows"]
    grp = groups_of(case)
    if len(gae) != len(grp) or len(rows) != len(grp):
        raise InfraError(f"recorder produced {len(gae)} '{pre}.gae' and {len(rows)} '{pre}.rows' records for "
                         f"{len(grp)} policy group(s): the call sites of fixes/C17-hook-recorder.diff are missing "
                         f"from {case['algo']}.learn in the tree under test")
    return {gid: (gae[i], rows[i]) for i, (gid, _) in enumerate(grp)}, boot, roll_path


# ----------------------------------------------------------------------------- canonicalisation
def fr_of(x) -> Fr:
    return Fr(float(x))


def close(x: Fr, y: Fr) -> bool:
    return abs(x - y) <= Fr(TOL) * max(1, abs(y))


def tag(a, t, e, ippo) -> str:
    return f"{a}.{t}.{e}" if ippo else f"{t}.{e}"


def analyse_group(case, gid, members, gae, rows, boot, roll_path):
    """returns (impl lines, model op lines, numeric?, oracle problems, stats)"""
    T, E, ippo = case["T"], case["E"], case["algo"] == "IPPO"
    A = len(members)
    C, N = A * E, A * T * E
    gamma, lam = boot.get("__hp__", (Fr(case["gamma"]), Fr(case["lam"])))
    problems: list[str] = []
    gl = {a: case["ids"].index(a) for a in members}        # global agent index (in the provenance codes)

    # ---- inputs as fed, in the (T, C) layout of the loop
    r = [[Fr(case["r"][members[c // E]][t][c % E]) for c in range(C)] for t in range(T)]
    v = [[Fr(case["v"][members[c // E]][t][c % E]) for c in range(C)] for t in range(T)]
    d = [[int(case["d"][members[c // E]][t][c % E]) for c in range(C)] for t in range(T)]
    nd = [int(case["nd"][members[c // E]][c % E]) for c in range(C)]
    if case["exact"]:
        nv = [Fr(case["nvb"])] * C
    else:
        nv = [fr_of(boot[members[c // E]][c % E]) for c in range(C)]

    def mat(x, what):
        m = np.asarray(x.to(torch.float64) if isinstance(x, torch.Tensor) else x, dtype=np.float64)
        if m.size != T * C:
            raise InfraError(f"recorded {what} has {m.size} entries, expected {T}x{C}")
        return m.reshape(T, C)

    def vec_(x, what):
        m = np.asarray(x.to(torch.float64) if isinstance(x, torch.Tensor) else x, dtype=np.float64).reshape(-1)
        if m.size == 1 and C > 1:
            m = np.repeat(m, C)
        if m.size != C:
            raise InfraError(f"recorded {what} has {m.size} entries, expected {C}")
        return m

    try:
        R_, V_, D_ = mat(gae["rewards"], "rewards"), mat(gae["values"], "values"), mat(gae["dones"], "dones")
        ADV, RET = mat(gae["advantages"], "advantages"), mat(gae["returns"], "returns")
        NV_, ND_ = vec_(gae["next_value"], "next_value"), vec_(gae["next_done"], "next_done")
    except KeyError as e:
        raise InfraError(f"recorder record lacks {e}") from None

    # ---- oracle 0: the loop ran on the inputs of the right agent/environment, and bootstraps from the critic
    same_in = (lambda x, y: x == y) if case["exact"] else close
    for nm, got, want in (("rewards", R_, r), ("values", V_, v), ("dones", D_, d)):
        bad = [(t, c) for t in range(T) for c in range(C) if not same_in(fr_of(got[t][c]), Fr(want[t][c]))]
        if bad:
            t, c = bad[0]
            problems.append(f"[inputs] group {gid}: the GAE loop sees {nm}[t={t}] of agent {members[c // E]} env {c % E} = "
                            f"{got[t][c]}, the rollout has {float(want[t][c])} ({len(bad)} entries differ)")
    badnd = [c for c in range(C) if int(ND_[c]) != nd[c]]
    if badnd:
        c = badnd[0]
        problems.append(f"[inputs] group {gid}: next_done used for agent {members[c // E]} env {c % E} is {int(ND_[c])}, the "
                        f"rollout has {nd[c]} (columns {badnd} differ; loop columns are agent*E+env)")
    for c in range(C):
        want = boot[members[c // E]][c % E]
        if abs(NV_[c] - want) > 1e-5 * max(1.0, abs(want)):
            problems.append(f"[bootstrap] group {gid}: bootstrap value for agent {members[c // E]} env {c % E} is {NV_[c]}, "
                            f"critic(next_state) is {want}")
            break
    if roll_path:
        for e_ in range(E):
            if abs(roll_path["_"][e_] - boot["_"][e_]) > 1e-5 * max(1.0, abs(boot["_"][e_])):
                problems.append(f"[bootstrap] PPO (share_encoders={case['share']}): critic(next_state)={boot['_'][e_]} but the "
                                f"rollout path get_action(next_state) gives value {roll_path['_'][e_]} (D18)")
                break

    # ---- oracle 1: the recursion, per column, with Fractions
    exact_cmp = bool(case["exact"])
    Aor = [[None] * C for _ in range(T)]
    Ror = [[None] * C for _ in range(T)]
    for c in range(C):
        a_, r_, ex = gae_column(gamma, lam, [r[t][c] for t in range(T)], [v[t][c] for t in range(T)],
                                [d[t][c] for t in range(T)], nv[c], nd[c])
        exact_cmp = exact_cmp and ex
        for t in range(T):
            Aor[t][c], Ror[t][c] = a_[t], r_[t]
    same = (lambda x, y: x == y) if exact_cmp else close
    for nm, got, want in (("advantage", ADV, Aor), ("return", RET, Ror)):
        bad = [(t, c) for t in range(T) for c in range(C) if not same(fr_of(got[t][c]), want[t][c])]
        if bad:
            t, c = bad[0]
            problems.append(f"[recursion] group {gid}: {nm} of agent {members[c // E]} step {t} env {c % E} is {got[t][c]}, the "
                            f"recursion gives {float(want[t][c])}"
                            + (f" = {want[t][c]}" if want[t][c].denominator < 10 ** 6 else "") + f" ({len(bad)} of {T * C} differ; "
                            f"agent.gamma={float(gamma):g} agent.gae_lambda={float(lam):g}, set by "
                            f"{case.get('hp_route', 'ctor')})")

    # ---- model ops and the implementation's lines
    fl = lambda m: " ".join(frac(x) for row in m for x in row)
    ops = [f"gae run {frac(gamma)} {frac(lam)} {T} {C} {fl(r)} {fl(d)} {fl(v)} " + " ".join(frac(x) for x in nv) + " "
           + " ".join(str(x) for x in nd)]
    impl = [" ".join(frac(fr_of(x)) for x in ADV.reshape(-1)) + " | " + " ".join(frac(fr_of(x)) for x in RET.reshape(-1))]
    numeric = [not exact_cmp]
    stats0 = {"cmp": "cmp-exact" if exact_cmp else "cmp-toleranced"}

    # ---- rows: provenance of every flattened training row
    def rowsof(x, width=None):
        if isinstance(x, dict):
            x = list(x.values())[0]
        if isinstance(x, tuple):
            x = x[0]
        x = x.to(torch.float64).reshape(N, -1) if x.numel() % N == 0 and x.numel() else None
        return None if x is None else x.numpy()

    def members_of(x):
        """every member of the flattened observations: [(name, (N, w) array)]"""
        if isinstance(x, dict):
            items = list(x.items())
        elif isinstance(x, (tuple, list)):
            items = list(enumerate(x))
        else:
            items = [("obs", x)]
        return [(str(k), rowsof(val)) for k, val in items]

    try:
        st_members = members_of(rows["states"])
        st = st_members[0][1]
        ac = rowsof(rows["actions"])
        lp, va = rowsof(rows["log_probs"]), rowsof(rows["values"])
        ad, re = rowsof(rows["advantages"]), rowsof(rows["returns"])
    except KeyError as e:
        raise InfraError(f"recorder record lacks {e}") from None
    if any(x is None for x in [m for _, m in st_members] + [ac, lp, va, ad, re]) or \
            any(m.shape[1] not in (1, 3, 4, 192) for _, m in st_members) or any(x.shape[1] != 1 for x in (lp, va, ad, re)):
        problems.append(f"[rows] group {gid}: the training rows do not have {N} = agents*steps*envs rows "
                        f"(shapes {[tuple(rows[k].shape) if hasattr(rows[k], 'shape') else '?' for k in rows]})")
        return impl, ops, numeric, problems, stats0
    inv = {ai: k for k, ai in enumerate(gl.values())}     # global index -> index within the group

    def from_code(c):
        if c != int(c) or c < 0:
            return None
        ai, t, e = uncode(int(c))
        if ai not in inv or t >= T or e >= E:
            return None
        return (inv[ai], t, e)

    t_states, t_actions, t_logp, t_vals, t_adv, t_ret = [], [], [], [], [], []
    vlook = {v[t][c]: (c // E, t, c % E) for t in range(T) for c in range(C)}
    def member_tag(m, i, name=""):
        """the sample an observation member of row i belongs to (every member carries the code)"""
        s = m[i]
        if name == "vel":                                 # [-(code+1), env, step]: same shape / dtype as 'pos'
            q = from_code(-s[0] - 1)
            return q if q is not None and (s[2], s[1]) == (q[1], q[2]) else None
        if len(s) == 4:                                   # [agent, step, env, code]
            q = from_code(s[3])
            return q if q is not None and (s[0], s[1], s[2]) == (gl[members[q[0]]], q[1], q[2]) else None
        if len(s) == 3:                                   # [step, env, code]
            q = from_code(s[2])
            return q if q is not None and (s[0], s[1]) == (q[1], q[2]) else None
        if len(s) == 192:                                 # raw image: pixels (0,0,0..1) = code, planes 1, 2 = step, env
            q = from_code(s[0] + 256 * s[1])
            return q if q is not None and (s[64], s[128]) == (q[1], q[2]) and s[191] == q[2] else None
        return from_code(s[0])                            # Discrete member: the code itself

    split_obs = None
    for i in range(N):
        tags_i = [member_tag(m, i, nm) for nm, m in st_members]
        p = tags_i[0] if all(x == tags_i[0] for x in tags_i) else None
        if p is None and split_obs is None and len(tags_i) > 1:
            split_obs = (i, [(nm, x) for (nm, _), x in zip(st_members, tags_i)])
        t_states.append(p)
        # actions
        if case["akind"] == "box":
            k = ac.shape[1]
            q = from_code(round(ac[i][0] * 64))
            if q is not None and any(ac[i][j] != ac[i][0] * (-1) ** j for j in range(k)):
                q = None
        else:
            q = p if p is not None and int(ac[i][0]) == code(gl[members[p[0]]], p[1], p[2]) % \
                (n_discrete(case, members[p[0]]) if ippo else 3) else None
            if q is None:        # which sample could this action belong to?  (weak provenance: code mod n)
                q = ("?",)
        t_actions.append(q)
        t_logp.append(from_code(round(-lp[i][0] * 64 - 1)) if abs(-lp[i][0] * 64 - 1 - round(-lp[i][0] * 64 - 1)) < 1e-9 else None)
        t_vals.append(vlook.get(fr_of(va[i][0])))
        # advantages / returns carry no code: the row must hold the estimate of *some* sample; prefer the
        # sample of the row's observation when it matches
        for lst, rowval, M in ((t_adv, ad[i][0], ADV), (t_ret, re[i][0], RET)):
            cands = [(c // E, t, c % E) for t in range(T) for c in range(C) if M[t][c] == rowval]
            lst.append(p if p in cands else (cands[0] if cands else None))

    def line(tags_):
        return " ".join("?" if x is None or x == ("?",) else tag(x[0], x[1], x[2], ippo) for x in tags_)

    if ippo:
        ops += [f"gae ippoobs {A} {T} {E}"] * 2 + [f"gae ippoadv {A} {T} {E}"] * 4
    else:
        ops += [f"gae ppoflat {T} {E}"] * 6
    impl += [line(x) for x in (t_states, t_actions, t_logp, t_vals, t_adv, t_ret)]
    numeric += [False] * 6

    # ---- oracle 2: every row belongs to one sample; every sample has exactly one row
    names = ["action", "old log-prob", "old value", "advantage", "return"]
    mis = 0
    first = None
    for i in range(N):
        p = t_states[i]
        for nm, lst in zip(names, (t_actions, t_logp, t_vals, t_adv, t_ret)):
            if p is None or lst[i] != p:
                mis += 1
                if first is None:
                    who = lambda x: "an unknown sample" if x is None or x == ("?",) else \
                        f"(agent {members[x[0]]}, step {x[1]}, env {x[2]})"
                    first = f"row {i} holds the observation of {who(p)} but the {nm} of {who(lst[i])}"
                break
    if split_obs is not None:
        i, parts = split_obs
        problems.append(f"[rows] group {gid}: the members of the observation in training row {i} belong to different "
                        "samples: " + ", ".join(f"{nm!r} -> " + ("?" if x is None else f"(step {x[1]}, env {x[2]})")
                                                for nm, x in parts)
                        + f" (observation kind {case.get('okind')}, steps {T}, envs {E}"
                        + ("; the per-step observation dicts are built in different key insertion orders: a component is "
                           "stored under another component's key" if case.get("oorder") else "") + ")")
    if mis:
        problems.append(f"[rows] group {gid}: {first}; {mis} of {N} training rows mix samples "
                        f"(agents sharing the policy: {A}, steps {T}, envs {E})")
    want_all = sorted((a_, t, e) for a_ in range(A) for t in range(T) for e in range(E))
    if sorted(x for x in t_states if x is not None) != want_all:
        problems.append(f"[rows] group {gid}: the flattened observations are not a permutation of the {N} samples "
                        f"(lost or duplicated rows)")
    stats = {"distinct_adv": len({x for x in ad.reshape(-1).tolist()}), "rows": N, **stats0}
    return impl, ops, numeric, problems, stats


def compare_lines(impl, model, numeric):
    """index of the first disagreement (numeric lines: toleranced) or None"""
    for i, (a, b, num) in enumerate(zip(impl, model, numeric)):
        if a == b:
            continue
        if not num:
            return i
        xa, xb = a.replace("|", " ").split(), b.replace("|", " ").split()
        if len(xa) != len(xb) or any(not close(Fr(p), Fr(q)) for p, q in zip(xa, xb)):
            return i
    return None if len(impl) == len(model) else min(len(impl), len(model))


# ----------------------------------------------------------------------------- no-leak oracle
def perturbed(case, rng: random.Random):
    """(case', claims): everything from the first boundary of a column on is replaced, columns without
    a boundary are replaced entirely; claims = [(agent, env, k)]: estimates at t < k must not change"""
    c2 = copy.deepcopy(case)
    T, E = case["T"], case["E"]
    claims = []
    bump = lambda s, lo=1: frac(Fr(s) + Fr(rng.choice([-3, -2, -1, 1, 2, 3, 5]), 2))
    for a in case["ids"]:
        for e in range(E):
            ks = [t for t in range(1, T) if case["d"][a][t][e]]
            k = ks[0] if ks else (T if case["nd"][a][e] else None)
            start = 0 if k is None else k
            for t in range(start, T):
                c2["r"][a][t][e] = bump(case["r"][a][t][e])
                c2["v"][a][t][e] = bump(case["v"][a][t][e])
                if k is None or t > k:
                    c2["d"][a][t][e] = int(rng.random() < 0.5)
            if k is None or k < T:
                c2["nd"][a][e] = int(rng.random() < 0.5)
            if k is not None and k >= 1:
                claims.append((a, e, k))
    if case["exact"]:
        c2["nvb"] = frac(Fr(case["nvb"]) + Fr(7, 4))
    return c2, claims


def no_leak_problems(case, base, rng):
    c2, claims = perturbed(case, rng)
    if not claims:
        return [], 0
    try:
        other, _, _ = run_learn(c2, next_shift=3.0)
    except ImplRaised as e:
        return [f"[raised] implementation raised on the perturbed rollout: {e}"], 0
    problems = []
    T, E = case["T"], case["E"]
    for gid, members in groups_of(case):
        C = len(members) * E
        m0 = {k: np.asarray(base[gid][0][k], dtype=np.float64).reshape(T, C) for k in ("advantages", "returns")}
        m1 = {k: np.asarray(other[gid][0][k], dtype=np.float64).reshape(T, C) for k in ("advantages", "returns")}
        for a, e, k in claims:
            if a not in members:
                continue
            c = members.index(a) * E + e
            for t in range(k):
                for nm in ("advantages", "returns"):
                    if m0[nm][t][c] != m1[nm][t][c]:
                        problems.append(
                            f"[leak] leak across an episode boundary: agent {a} env {e} has a new episode starting at step "
                            f"{k}{' (next_done)' if k == T else ''}; changing only rewards/values/flags from step {k} "
                            f"on (and other environments/agents) changed its {nm[:-1]} at step {t}: "
                            f"{m0[nm][t][c]} -> {m1[nm][t][c]}")
                        return problems, len(claims)
    return problems, len(claims)


# ----------------------------------------------------------------------------- one case
def one_case(chk: Check, case, rng_leak: random.Random | None = None):
    """returns dict(diff, problems, impl, model, raised, tags, claims)"""
    out = {"diff": None, "problems": [], "impl": [], "model": [], "raised": None, "tags": [], "claims": 0, "stats": {}}
    try:
        recs, boot, roll_path = run_learn(case)
    except ImplRaised as e:
        out["raised"] = str(e)
        out["problems"] = [f"[raised] {case['algo']}.learn raised on a legal rollout (T={case['T']}, envs={case['E']}, "
                           f"agents={case['ids']}): {e}"]
        return out
    impl, ops, numeric = [], [], []
    for gid, members in groups_of(case):
        i, o, n, p, s = analyse_group(case, gid, members, recs[gid][0], recs[gid][1], boot, roll_path)
        impl += i
        ops += o
        numeric += n
        out["problems"] += p
        out["stats"] = s or out["stats"]
        if s.get("cmp"):
            out["tags"].append(s["cmp"])
    mb_log = list(LAST_MINIBATCHES)
    p, i2, o2 = minibatch_check(case, recs, mb_log)
    out["problems"] += p
    impl += i2
    ops += o2
    numeric += [False] * len(i2)
    out["tags"].append("minibatches-spied" if mb_log else "minibatch-spy-absent")
    model = chk.driver.run(["reset"] + ops)[1:]
    chk.corr["model_lines"] += len(ops)
    out["impl"], out["model"] = impl, model
    out["diff"] = compare_lines(impl, model, numeric)
    if rng_leak is not None and not out["problems"]:
        p, n = no_leak_problems(case, recs, rng_leak)
        out["problems"] += p
        out["claims"] = n
    return out


def case_tags(case):
    A = max(len(m) for _, m in groups_of(case))
    t = [f"algo-{case['algo']}", f"T-{case['T']}", f"E-{case['E']}", f"shared-{A}", f"act-{case['akind']}",
         "exact" if case["exact"] else "float", "vec" if case["vec"] else "unvec", f"obs-{case.get('okind', 'vector')}",
         f"hp-{case.get('hp_route', 'ctor')}", f"rewards-{case.get('rmix', 'none')}",
         f"gl-{case['gamma']},{case['lam']}"]
    if any(m != sorted(m) for _, m in groups_of(case)):
        t.append("group-order-not-lexicographic")
    if case.get("korder"):
        t.append(f"agent-key-order-{case['korder']['kind']}")
        t += [f"agent-key-order-permuted-{nm}" for nm, o in zip(ROLLOUT_DICTS, case["korder"]["orders"]) if o != case["ids"]]
        if within_group_order_differs(case):
            t.append("agent-key-order-differs-within-a-group")
    if case.get("oorder"):
        t.append("obs-key-order-per-step")
    T = case["T"]
    for a in case["ids"]:
        for e in range(case["E"]):
            if T > 1 and case["d"][a][1][e]:
                t.append("boundary-first")
            if T > 1 and case["d"][a][T - 1][e]:
                t.append("boundary-last")
            if case["nd"][a][e]:
                t.append("boundary-next_done")
            if case["d"][a][0][e]:
                t.append("flag-d0")
    return sorted(set(t))


def kind_of(problem: str) -> str:
    return problem.split("]")[0]


def shrink(chk, case, by_problem: bool, kind: str = ""):
    exc = None
    if by_problem and kind == "[raised":                  # the same failure = the same exception type
        o0 = one_case(chk, case, random.Random(case["seed"]))
        exc = (o0["raised"] or "").split(":")[0] or None

    def fails(c):
        o = one_case(chk, c, random.Random(c["seed"]))
        if exc is not None:
            return (o["raised"] or "").split(":")[0] == exc
        return any(kind_of(p) == kind for p in o["problems"]) if by_problem else \
            (o["diff"] is not None and not o["problems"])
    steps, envs, ids = list(range(case["T"])), list(range(case["E"])), list(case["ids"])
    for _ in range(2):
        ids = ddmin(ids, lambda x: fails(restrict(case, steps, envs, x)))
        envs = ddmin(envs, lambda x: fails(restrict(case, steps, x, ids)))
        steps = ddmin(steps, lambda x: fails(restrict(case, x, envs, ids)))
    return restrict(case, steps, envs, ids)


def probe_key_order(chk: Check) -> None:
    """regression probe for the repaired defect C17-ippo-dict-key-order, on exactly the analysed input: two agents
    sharing one policy, the final next observation dict alone lists them the other way round (as env.step returned
    it), non-terminal last step, real critic.  IPPO.assemble_shared_inputs used to fill each group in the key order
    of EACH input dict, so agent_0's estimates were bootstrapped from agent_1's final next observation."""
    c = gen_case(random.Random(17), "IPPO", 3, 2, ["agent_0", "agent_1"], exact=False)
    c.update(okind="vector", hp_route="ctor", akind="discrete", rmix="none", seed=1717)
    for a in c["ids"]:
        c["nd"][a] = [0, 0]
    c["korder"] = {"kind": "free", "orders": [["agent_0", "agent_1"]] * 6 + [["agent_1", "agent_0"], ["agent_0", "agent_1"]]}
    o = one_case(chk, c)
    chk.case(["probe-key-order", c["korder"]], nontrivial=True, tags=["probe-ippo-dict-key-order"] + case_tags(c))
    chk.suite("probe-ippo-dict-key-order", 1, int(o["diff"] is not None))
    if o["problems"] or o["diff"] is not None:
        chk.finding(FINDING_KEY_ORDER, (o["problems"] or ["implementation and model disagree on the rows / estimates"])[0],
                    {"case": c, "oracle_problems": o["problems"], "diff_at": o["diff"], "impl": o["impl"], "model": o["model"]})


def report(chk: Check, case, out):
    """shrink and file a violation for a failing case"""
    by_problem = bool(out["problems"])
    small = case
    try:
        small = shrink(chk, case, by_problem, kind_of(out["problems"][0]) if by_problem else "")
    except InfraError:
        raise
    except Exception:                                     # noqa: BLE001 - shrinking is best effort
        small = case
    o2 = one_case(chk, small, random.Random(small["seed"]))
    if not (o2["problems"] if by_problem else o2["diff"] is not None):
        small, o2 = case, out
    replay = {"case": small, "impl": o2["impl"], "model": o2["model"], "diff_at": o2["diff"],
              "oracle_problems": o2["problems"], "correspondence": "harness/c17.py vs Model/GAE.lean",
              "theorems": chk.gate["theorems"],
              "how": "bin/check C17 --replay <this file>  (runs the real learn on case['r','v','d','nd'])"}
    if by_problem:
        chk.violation(o2["problems"][0], replay)
    else:
        i = o2["diff"]
        chk.violation(f"implementation and GAE model disagree at line {i}: impl={o2['impl'][i][:120]!r} "
                      f"model={o2['model'][i][:120]!r}; the property oracle holds on this case and its shrinks",
                      replay, no_input=True)


# ----------------------------------------------------------------------------- bootstrap probe (D18)
def probe_bootstrap(chk: Check, rng: random.Random, n_learn: int, report: bool = True):
    """PPO: critic(next_state) (the bootstrap) equals the value of the rollout path for the same observation,
    fresh / after learn steps / after mutations, share_encoders True and False.  Returns the problems found."""
    import agents
    from agilerl.hpo.mutation import Mutations
    cases, found = 0, []
    for share in (True, False):
        seed = rng.randrange(1 << 30)
        ag = agents.build("PPO", "vector", seed=seed, share_encoders=share, action_kind="box")

        def check(stage, agent):
            nonlocal cases
            cases += 1
            obs = agents.sample_obs(agent, "PPO", "vector", n=4, seed=seed + cases)
            with torch.no_grad():
                direct = agent.critic(agent.preprocess_observation(obs)).reshape(-1).tolist()
                st = torch.get_rng_state()
                path = np.asarray(agent.get_action(obs)[3]).reshape(-1).tolist()
                torch.set_rng_state(st)
            if report:
                chk.case(["bootstrap", share, stage], nontrivial=True, tags=["bootstrap-probe", f"boot-{stage}"])
            worst = max(abs(a - b) for a, b in zip(direct, path))
            if worst > 1e-5:
                what = (f"[bootstrap] PPO(share_encoders={share}) {stage}: the bootstrap value critic(next_state)="
                        f"{direct} differs from the rollout-path value {path} for the same observations (D18)")
                found.append(what)
                if report and len(found) <= 2:
                    chk.violation(what, {"probe": "bootstrap", "share": share, "stage": stage, "seed": seed,
                                         "direct": direct, "rollout_path": path})

        check("fresh", ag)
        for i in range(n_learn):
            agents.learn_once(ag, "PPO", "vector", seed=seed + i, n=8)
            check("after-learn", ag)
        for kind, kw in (("param", dict(parameters=1, architecture=0)), ("arch", dict(parameters=0, architecture=1))):
            try:
                mut = Mutations(no_mutation=0, new_layer_prob=0.5, activation=0, rl_hp=0, mutation_sd=0.1,
                                rand_seed=seed % (2 ** 31), device="cpu", **kw)
                ag = mut.mutation([ag])[0]
            except Exception as e:                        # noqa: BLE001 - mutation machinery is C02/C03's subject
                if report:
                    chk.notes.append(f"bootstrap probe: {kind} mutation raised {type(e).__name__}; stage skipped")
                continue
            check(f"after-{kind}-mutation", ag)
            try:
                agents.learn_once(ag, "PPO", "vector", seed=seed + 99, n=8)
            except Exception as e:                        # noqa: BLE001 - learning a mutated net is C02/C03's subject
                if report:
                    chk.notes.append(f"bootstrap probe: learn after {kind} mutation raised {type(e).__name__}; skipped")
                continue
            check(f"after-{kind}-mutation+learn", ag)
    if report:
        chk.suite("ppo-bootstrap", cases, len(found))
    return found


# ----------------------------------------------------------------------------- loop-level suite
# The rollouts learn() receives are built by the training loops: run the REAL train_on_policy /
# train_multi_agent_on_policy on scripted environments that keep their own log of everything they emitted
# and received, and hold the experiences handed to learn() (the loop's own tuple, seen by wrapping
# agent.learn, and the recorder's records) against that log.
END_KINDS = ["term", "trunc", "both"]
LOOP_GUARD_S = 90
BOX_CLIP = (-0.125, 0.125)          # narrow bounds: nearly every sampled component is clipped
BOX_SQUASH = (-2.0, 3.0)            # squash_output with bounds other than [-1, 1]


class _Script:
    """episode schedule of one sub-environment: a cyclic list of [length, kind of ending(, per-agent head
    starts)]: agent i of the sub-environment is done `offs[i]` steps before the episode ends (reported as
    terminated from then on, like a killed agent), the sub-environment is over when its episode ends"""

    def __init__(self, sched, n_agents: int = 1):
        self.sched = []
        for ent in sched:
            n, kind = max(1, int(ent[0])), str(ent[1])
            offs = [int(x) for x in (ent[2] if len(ent) > 2 else [])]
            offs = (offs + [0] * n_agents)[:n_agents]
            self.sched.append((n, kind, [min(max(0, o), n - 1) for o in offs]))
        self.i = 0          # schedule entry of the running episode
        self.k = 0          # steps taken in the running episode
        self.ep = 0         # episodes started

    def begin(self):
        """env.reset(): abandon a running episode, start the next one"""
        if self.k > 0:
            self.i += 1
            self.k = 0
        self.ep += 1

    def advance(self):
        """one step; returns (episode ended, [terminated per agent], [truncated per agent])"""
        self.k += 1
        n, kind, offs = self.sched[self.i % len(self.sched)]
        if self.k < n:
            dead = [self.k >= n - o for o in offs]
            return False, dead, [False] * len(offs)
        self.i += 1
        self.k = 0
        return True, [kind in ("term", "both")] * len(offs), [kind in ("trunc", "both")] * len(offs)


def _loop_reward(g: int, e: int, ai: int) -> float:
    return ((g * 7 + e * 3 + ai * 5) % 17 - 8) / 4.0


def _loop_act_space(akind: str, other: bool = False):
    from gymnasium import spaces
    if akind == "discrete":
        return spaces.Discrete(2 if other else 3)
    lo, hi = BOX_SQUASH if akind == "box-squash" else BOX_CLIP
    return spaces.Box(lo, hi, (3 if other else 2,), np.float32)


class ScriptVecEnv:
    """vectorised single-agent env (auto-reset inside, as gymnasium vector envs: the observation returned
    with an episode end is already the first one of the next episode); obs = [env, episode, step, clock]"""

    def __init__(self, schedules, akind: str = "discrete"):
        from gymnasium import spaces
        self.scripts = [_Script(s) for s in schedules]
        self.num_envs = len(self.scripts)
        self.single_observation_space = spaces.Box(-1.0, 1.0, (4,), np.float32)
        self.single_action_space = _loop_act_space(akind)
        self.observation_space, self.action_space = self.single_observation_space, self.single_action_space
        self.possible_agents = ["_"]
        self.g = 0
        self.log: list[dict] = []
        self._last = None

    def _obs(self):
        self._last = np.array([[e, s.ep % 50, s.k, self.g % 50] for e, s in enumerate(self.scripts)],
                              dtype=np.float32) / 8
        return self._last.copy()

    def reset(self, seed=None, options=None):
        for s in self.scripts:
            s.begin()
        return self._obs(), {}

    def step(self, action):
        self.g += 1
        pre = self._last.copy()
        res = [s.advance() for s in self.scripts]
        for s, (ended, _, _) in zip(self.scripts, res):
            if ended:
                s.ep += 1
        term = [bool(r[1][0]) for r in res]
        trunc = [bool(r[2][0]) for r in res]
        rew = np.array([_loop_reward(self.g, e, 0) for e in range(self.num_envs)], dtype=np.float64)
        self.log.append({"over": [r[0] for r in res], "term": {"_": term}, "trunc": {"_": trunc},
                         "done": {"_": [int(a or b) for a, b in zip(term, trunc)]},
                         "reward": {"_": rew.tolist()}, "obs": {"_": pre},
                         "recv": {"_": np.array(action, copy=True)}})
        return self._obs(), rew, np.array(term), np.array(trunc), {}

    def close(self):
        pass


class ScriptParallelEnv:
    """PettingZoo-style parallel env.  vectorised=True: has `num_envs`, arrays with a leading env dimension and
    auto-reset inside; vectorised=False: a plain env (no `num_envs`), scalars, the training loop has to reset it
    once every agent is done.  Agents may be done before their team-mates (see _Script); a finished agent keeps
    being reported (terminated=True) until the sub-environment's episode is over."""

    metadata = {"name": "c17_script_parallel"}

    def __init__(self, ids, schedules, vectorised: bool, akind: str = "discrete", key_order=None, seed: int = 0):
        from gymnasium import spaces
        self.possible_agents = list(ids)
        self.agents = list(ids)
        # key_order: every dict the env returns (observations, rewards, terminations, truncations, infos) lists the
        # agents in an order of its own, drawn per call: "interleave" = the policy groups interleaved differently,
        # members of a group in listing order; "free" = any permutation
        self.key_order = key_order
        self._krng = random.Random(seed ^ 0xC17)
        self.scripts = [_Script(s, len(ids)) for s in schedules]
        self.vectorised = bool(vectorised)
        self.akind = akind
        if vectorised:
            self.num_envs = len(self.scripts)
        self._obs_space = spaces.Box(-1.0, 1.0, (4,), np.float32)
        self.g = 0
        self.log: list[dict] = []
        self.stepped_after_end = 0
        self._over = False
        self._last = None

    def observation_space(self, agent):
        return self._obs_space

    def action_space(self, agent):
        return _loop_act_space(self.akind, agent.startswith("other"))

    def _ordered(self, d: dict) -> dict:
        if not self.key_order:
            return d
        ids = list(d)
        if self.key_order == "free":
            order = self._krng.sample(ids, len(ids))
        else:
            pools: dict[str, list] = {}
            for a in ids:
                pools.setdefault(a.rsplit("_", 1)[0], []).append(a)
            pools_, order = list(pools.values()), []
            while any(pools_):
                order.append(self._krng.choice([p for p in pools_ if p]).pop(0))
        return {a: d[a] for a in order}

    def _obs(self):
        self._last = {}
        for ai, a in enumerate(self.possible_agents):
            self._last[a] = np.array([[e + 4 * ai, s.ep % 50, s.k, self.g % 50] for e, s in enumerate(self.scripts)],
                                     dtype=np.float32) / 8
        return self._ordered({a: (o.copy() if self.vectorised else o[0].copy()) for a, o in self._last.items()})

    def reset(self, seed=None, options=None):
        for s in self.scripts:
            s.begin()
        self._over = False
        self.agents = list(self.possible_agents)
        return self._obs(), self._ordered({a: {} for a in self.possible_agents})

    def step(self, actions):
        if self._over:                   # a plain env stepped again without reset: count it, carry on
            self.stepped_after_end += 1
            for s in self.scripts:
                s.ep += 1
        self.g += 1
        pre = {a: o.copy() for a, o in self._last.items()}
        res = [s.advance() for s in self.scripts]
        n = len(self.scripts)
        ids = self.possible_agents
        term = {a: [bool(res[e][1][ai]) for e in range(n)] for ai, a in enumerate(ids)}
        trunc = {a: [bool(res[e][2][ai]) for e in range(n)] for ai, a in enumerate(ids)}
        rew = {a: [_loop_reward(self.g, e, ai) for e in range(n)] for ai, a in enumerate(ids)}
        self.log.append({"over": [r[0] for r in res], "term": term, "trunc": trunc,
                         "done": {a: [int(x or y) for x, y in zip(term[a], trunc[a])] for a in ids},
                         "reward": rew, "obs": pre,
                         "recv": {a: np.array(actions[a], copy=True) for a in ids if a in actions}})
        if self.vectorised:
            for s, r in zip(self.scripts, res):
                if r[0]:
                    s.ep += 1
            r_ = {a: np.array(v, dtype=np.float64) for a, v in rew.items()}
            te = {a: np.array(term[a]) for a in ids}
            tr = {a: np.array(trunc[a]) for a in ids}
        else:
            self._over = bool(res[0][0])
            r_ = {a: float(v[0]) for a, v in rew.items()}
            te = {a: bool(term[a][0]) for a in ids}
            tr = {a: bool(trunc[a][0]) for a in ids}
        return self._obs(), self._ordered(r_), self._ordered(te), self._ordered(tr), self._ordered({a: {} for a in ids})

    def close(self):
        pass


def gen_loop_case(rng: random.Random, algo: str, vec: bool, T: int, E: int, R: int, ids=None,
                  akind: str = "discrete", stagger: bool = False, key_order=None):
    """schedules are built so that episodes end by termination, by truncation only and by both, strictly inside
    rollouts and exactly on their last step; with `stagger` the agents of a sub-environment are done at
    different steps"""
    E = E if vec else 1
    n_agents = len(ids) if algo == "IPPO" else 1
    sched = []
    for e in range(E):
        body = [[rng.randint(1, max(1, T - 1)), rng.choice(END_KINDS)] for _ in range(3 * R + 4)]
        if e == 0 and T >= 3:
            head = [[2, "trunc"], [T - 2, rng.choice(["term", "both"])], [1, "both"], [T - 1, "trunc"]]
        elif e == 1:
            head = [[T, "trunc"], [max(1, T - 2), "term"]]
        else:
            head = [[rng.randint(1, T), rng.choice(END_KINDS)]]
        if stagger and n_agents > 1:
            head = [[T - 1, "term"], [3, "trunc"]] + head if e == 0 and T >= 3 else head
            for ent in head + body:
                offs = [rng.randint(0, ent[0] - 1) for _ in range(n_agents)]
                last = rng.randrange(n_agents)
                offs[last] = 0                              # the episode lasts until its last agent is done
                if ent[0] >= 2 and not any(offs):
                    offs[(last + 1) % n_agents] = rng.randint(1, ent[0] - 1)
                ent.append(offs)
        sched.append(head + body)
    g, l = rng.choice([("9/10", "4/5"), ("99/100", "19/20"), ("1/2", "3/4"), ("1", "1")])
    return {"suite": "loop", "algo": algo, "vec": bool(vec), "T": T, "E": E, "R": R,
            "ids": list(ids) if algo == "IPPO" else ["_"], "schedules": sched, "gamma": g, "lam": l,
            "akind": akind, "stagger": bool(stagger and n_agents > 1),
            "key_order": key_order if algo == "IPPO" and n_agents > 1 else None,
            "share": bool(rng.random() < 0.5), "seed": rng.randrange(1 << 30)}


class _Guard:
    """wall-clock guard around a training loop (main thread only)"""

    def __init__(self, seconds: int):
        self.seconds = seconds

    def __enter__(self):
        import signal

        def boom(signum, frame):
            raise InfraError(f"C17 loop suite: a training loop exceeded the wall-clock guard of {self.seconds}s")
        try:
            self.old = signal.signal(signal.SIGALRM, boom)
            signal.alarm(self.seconds)
            self.armed = True
        except ValueError:                                # not in the main thread
            self.armed = False
        return self

    def __exit__(self, *exc):
        import signal
        if self.armed:
            signal.alarm(0)
            signal.signal(signal.SIGALRM, self.old)
        return False


def _loop_groups(lc):
    return groups_of({"algo": lc["algo"], "ids": lc["ids"]})


def _truth(env, start, T, a, e):
    """(k, done flags) of agent a in sub-environment e over the T steps from log position `start`, as the
    environment emitted them (terminated | truncated for that agent); k = first step index that no longer
    belongs to the episode running at the start (T when it ends on the last step, None without an end)"""
    flags = [int(env.log[start + t]["done"][a][e]) for t in range(T)]
    ks = [t + 1 for t in range(T) if flags[t]]
    return (ks[0] if ks else None), flags


def _perturb_loop_experiences(lc, experiences, env, start, T):
    """copy of the experiences with rewards/values (and next_state) replaced from the TRUE boundary of every
    (agent, env) column on; flags are left exactly as the loop produced them"""
    ex = copy.deepcopy(experiences)
    E = lc["E"]
    keys = [None] if lc["algo"] == "PPO" else lc["ids"]
    claims = []
    for a in keys:
        for e in range(E):
            k, _ = _truth(env, start, T, "_" if a is None else a, e)
            if k is None:
                continue
            claims.append(("_" if a is None else a, e, k))
            rew = ex[3] if a is None else ex[3][a]
            val = ex[5] if a is None else ex[5][a]
            for t in range(k, T):
                if np.ndim(rew[t]) == 0:
                    rew[t] = float(rew[t]) + 1.5
                else:
                    rew[t] = np.array(rew[t], copy=True)
                    rew[t][e] += 1.5
                val[t] = np.array(val[t], copy=True)
                val[t][e] += 2.25
            ns = np.array(ex[6] if a is None else ex[6][a], copy=True)
            if ns.ndim == 1:
                ns += 3.0
            else:
                ns[e] += 3.0
            if a is None:
                ex = ex[:6] + (ns,) + ex[7:]
            else:
                ex[6][a] = ns
    return ex, claims


def _reevaluate(lc, agent, experiences, env, start, T):
    """before any update: (a) every stored old log-prob is the log-prob, under the policy that collected the
    rollout, of the STORED action at the STORED observation; (c) stored observations are the ones the
    environment emitted for that agent/env/step and the stored values are the critic's values of them.
    Returns (problems, stats)."""
    problems, stats = [], {"clipped": 0, "samples": 0, "boot": {}}
    ppo = lc["algo"] == "PPO"
    E = lc["E"]
    S, A_, L_, _, _, V_ = experiences[:6]
    grp = _loop_groups(lc)
    # the value every (agent, env) column has to bootstrap from: its OWN critic at its OWN final next observation,
    # looked up BY KEY in the dict the loop hands over
    with torch.no_grad():
        if ppo:
            stats["boot"]["_"] = agent.critic(agent.preprocess_observation(experiences[6])).reshape(-1).tolist()
        else:
            from agilerl.utils.algo_utils import preprocess_observation as _pre
            for gi, (gid, members) in enumerate(grp):
                agent.critics[gi].eval()
                for a in members:
                    o = _pre(np.asarray(experiences[6][a], dtype=np.float32).reshape(E, -1), agent.observation_space[a],
                             agent.device, agent.normalize_images)
                    stats["boot"][a] = agent.critics[gi](o).reshape(-1).tolist()

    def first(kind, text):
        if not any(p.startswith(kind) for p in problems):
            problems.append(f"{kind} {text}")

    with torch.no_grad():
        for gi, (gid, members) in enumerate(grp):
            for a in members:
                sa, aa, la, va = (S, A_, L_, V_) if ppo else (S[a], A_[a], L_[a], V_[a])
                for t in range(T):
                    emitted = env.log[start + t]["obs"][a]
                    obs = np.asarray(sa[t], dtype=np.float32)
                    if not np.array_equal(obs.reshape(E, -1), emitted.reshape(E, -1)):
                        first("[loop-inputs]", f"the observation stored for agent {a} at step {t} of the rollout is "
                              f"{obs.reshape(E, -1).tolist()}, the environment emitted {emitted.reshape(E, -1).tolist()}")
                        continue
                    act = np.asarray(aa[t])
                    recv = np.asarray(env.log[start + t]["recv"].get(a))
                    stats["samples"] += E
                    if lc["akind"] != "discrete" and recv.shape == act.shape:
                        stats["clipped"] += int((np.abs(recv - act).reshape(E, -1).max(axis=1) > 1e-7).sum())
                    if ppo:
                        lp, _, v = agent.evaluate_actions(obs, torch.as_tensor(act))
                    else:
                        from agilerl.utils.algo_utils import preprocess_observation
                        actor, critic = agent.actors[gi], agent.critics[gi]
                        actor.eval(), critic.eval()
                        o = preprocess_observation(obs, agent.observation_space[a], agent.device, agent.normalize_images)
                        actor(o)
                        at = torch.as_tensor(act).reshape(E, -1)
                        if lc["akind"] == "discrete":
                            at = at[:, 0]
                        lp, v = actor.action_log_prob(at), critic(o)
                    lp = np.asarray(lp, dtype=np.float64).reshape(-1)
                    v = np.asarray(v, dtype=np.float64).reshape(-1)
                    old = np.asarray(la[t], dtype=np.float64).reshape(-1)
                    oldv = np.asarray(va[t], dtype=np.float64).reshape(-1)
                    if lp.shape != old.shape or np.abs(lp - old).max() > 1e-4 * max(1.0, np.abs(old).max()):
                        e = int(np.argmax(np.abs(lp - old))) if lp.shape == old.shape else 0
                        first("[loop-logprob]",
                              f"agent {a} step {t} env {e}: the stored old log-prob is {old[e] if old.size > e else old}, "
                              f"but the policy that collected the rollout gives the STORED action "
                              f"{act.reshape(E, -1)[e].tolist()} at the stored observation log-prob "
                              f"{lp[e] if lp.size > e else lp} (the environment received "
                              f"{np.asarray(recv).reshape(E, -1)[e].tolist()}; action space {lc['akind']})")
                    if v.shape != oldv.shape or np.abs(v - oldv).max() > 1e-4 * max(1.0, np.abs(oldv).max()):
                        first("[loop-inputs]", f"agent {a} step {t}: the stored values {oldv.tolist()} are not the critic's "
                              f"values {v.tolist()} of the stored observations")
    return problems, stats


def _build_loop_agent(lc, env):
    import agents
    T, E, ids = lc["T"], lc["E"], lc["ids"]
    g, l = float(Fr(lc["gamma"])), float(Fr(lc["lam"]))
    akind = lc.get("akind", "discrete")
    agents.seed_all(lc["seed"])
    if lc["algo"] == "PPO":
        from agilerl.algorithms import PPO
        nc = copy.deepcopy(agents.default_net_config("PPO", "vector"))
        if akind == "box-squash":
            nc["squash_output"] = True
        return PPO(env.single_observation_space, env.single_action_space, index=0, net_config=nc, batch_size=16,
                   device="cpu", accelerator=None, learn_step=T * E, update_epochs=1, share_encoders=lc["share"],
                   gamma=g, gae_lambda=l)
    from agilerl.algorithms import IPPO
    return IPPO(observation_spaces=[env.observation_space(a) for a in ids],
                action_spaces=[env.action_space(a) for a in ids], agent_ids=list(ids),
                net_config=agents.default_net_config("IPPO", "vector"), batch_size=16, device="cpu",
                accelerator=None, learn_step=T * E, update_epochs=1, gamma=g, gae_lambda=l)


def run_loop_case(chk: Check, lc):
    """returns dict(problems, diff, impl, model, tags, rollouts)"""
    import contextlib
    import io
    vh = hooks()
    lc = {"akind": "discrete", "stagger": False, **lc}     # cases written before these fields existed
    out = {"problems": [], "diff": None, "impl": [], "model": [], "tags": [], "rollouts": 0, "raised": None,
           "claims": 0, "skipped": None}
    T, E, R, ids = lc["T"], lc["E"], lc["R"], lc["ids"]
    akind = lc.get("akind", "discrete")
    grp = _loop_groups(lc)
    if lc["algo"] == "PPO":
        from agilerl.training.train_on_policy import train_on_policy as train
        env = ScriptVecEnv(lc["schedules"], akind)
    else:
        from agilerl.training.train_multi_agent_on_policy import train_multi_agent_on_policy as train
        env = ScriptParallelEnv(ids, lc["schedules"], lc["vec"], akind, lc.get("key_order"), lc["seed"])
    agent = _build_loop_agent(lc, env)
    if akind == "box-squash":
        # the loops hand the numpy action of get_action to actor.scale_action; a tree in which that raises
        # cannot train a squashed policy at all (a defect of its own, fixes/C17-scale-action-numpy.diff)
        try:
            agent.actor.scale_action(np.zeros((1, 2), dtype=np.float32))
        except TypeError as e:
            out["skipped"] = f"StochasticActor.scale_action rejects the numpy action the training loop passes ({e})"
            out["tags"] = ["loop-squash-unavailable"]
            return out
    calls: list[dict] = []
    orig_learn = agent.learn
    pre = "ppo" if lc["algo"] == "PPO" else "ippo"

    def spy(experiences):
        call = {"end": len(env.log), "twin": None, "claims": [], "pre": [], "stats": {},
                "next_keys": list(experiences[6]) if isinstance(experiences[6], dict) else None}
        calls.append(call)
        n_steps = len(experiences[3]) if lc["algo"] == "PPO" else len(next(iter(experiences[3].values())))
        start = call["end"] - n_steps
        if start >= 0:
            # everything here leaves the RNG streams and the agent as they were, so that training is not disturbed
            rs = (random.getstate(), np.random.get_state(), torch.get_rng_state())
            mark = len(vh.RECORDS)
            try:
                call["pre"], call["stats"] = _reevaluate(lc, agent, experiences, env, start, n_steps)
                # no-leak: an identical twin learns from the same rollout with everything after the TRUE
                # boundaries of every (agent, env) column replaced
                pert, claims = _perturb_loop_experiences(lc, experiences, env, start, n_steps)
                if claims:
                    twin = agent.clone(wrap=False)
                    type(twin).learn(twin, pert)
                    call["twin"] = [r for t_, r in vh.RECORDS[mark:] if t_ == pre + ".gae"]
                    del vh.RECORDS[mark:]
                    call["claims"] = claims
            except InfraError:
                raise
            except Exception as e:                        # noqa: BLE001 - the side computations are best effort
                call["twin_error"] = f"{type(e).__name__}: {str(e)[:160]}"
                del vh.RECORDS[mark:]
            finally:
                random.setstate(rs[0]), np.random.set_state(rs[1]), torch.set_rng_state(rs[2])
                agent.set_training_mode(True)
        call["mark"] = len(vh.RECORDS)
        res = orig_learn(experiences)
        call["gae"] = [r for t_, r in vh.RECORDS[call["mark"]:] if t_ == pre + ".gae"]
        return res

    agent.learn = spy
    vh.clear()
    sink = io.StringIO()
    try:
        with _Guard(LOOP_GUARD_S), contextlib.redirect_stdout(sink), contextlib.redirect_stderr(sink):
            train(env, "c17-script-env", lc["algo"], [agent], max_steps=R * T * E, evo_steps=R * T * E,
                  eval_steps=2, eval_loop=1, wb=False, verbose=False, tournament=None, mutation=None)
    except InfraError:
        raise
    except Exception as e:                                # noqa: BLE001 - the training loop raised
        out["raised"] = f"{type(e).__name__}: {str(e)[:200]}"
        out["problems"].append(f"[raised] {train.__name__} raised on a scripted {'vectorised' if lc['vec'] else 'plain'} "
                               f"env ({lc['algo']}, T={T}, envs={E}, actions {akind}): {out['raised']}")
        return out
    finally:
        vh.clear()
        try:
            del agent.learn
        except AttributeError:
            pass
    if not calls:
        out["problems"].append(f"[raised] {train.__name__} never called learn() in {R} rollouts")
        return out
    out["rollouts"] = len(calls)
    gamma, lam = Fr(lc["gamma"]), Fr(lc["lam"])
    ops, impl = [], []
    clipped = samples = 0
    for ci, call in enumerate(calls):
        if len(call.get("gae", [])) != len(grp):
            raise InfraError(f"recorder produced {len(call.get('gae', []))} '{pre}.gae' records for {len(grp)} policy "
                             "group(s) in a training-loop learn() call: hook call sites missing")
        for p in call["pre"]:
            kind, _, rest = p.partition(" ")
            out["problems"].append(f"{kind} rollout {ci} ({lc['algo']}, {'vectorised' if lc['vec'] else 'plain'} env): {rest}")
        clipped += call["stats"].get("clipped", 0)
        samples += call["stats"].get("samples", 0)
        for gi, (gid, members) in enumerate(grp):
            rec = call["gae"][gi]
            A = len(members)
            C = A * E
            Tn = int(np.asarray(rec["rewards"]).reshape(-1).size // C)
            start = call["end"] - Tn
            m = lambda x: np.asarray(x.to(torch.float64) if isinstance(x, torch.Tensor) else x,
                                     dtype=np.float64).reshape(Tn, C)
            R_, V_, D_, ADV, RET = (m(rec[k]) for k in ("rewards", "values", "dones", "advantages", "returns"))
            NV_ = np.asarray(rec["next_value"], dtype=np.float64).reshape(-1)
            if NV_.size == 1 and C > 1:
                NV_ = np.repeat(NV_, C)
            ND_ = np.asarray(rec["next_done"], dtype=np.float64).reshape(-1)
            where = f"rollout {ci} ({lc['algo']}, {'vectorised' if lc['vec'] else 'plain'} env), group {gid}"
            if Tn != T or start < 0:
                out["problems"].append(f"[loop-inputs] {where}: learn() received {Tn} steps, the loop was configured "
                                       f"for {T} (learn_step={T * E}, envs={E})")
                continue
            dt = [[0] * C for _ in range(T)]
            ndt = [0] * C
            for c in range(C):
                a, e = members[c // E], c % E
                _, flags = _truth(env, start, T, a, e)
                for t in range(T):
                    want = env.log[start + t]["reward"][a][e]
                    if abs(R_[t][c] - want) > 1e-6:
                        out["problems"].append(f"[loop-inputs] {where}: rewards[{t}] of agent {a} env {e} is "
                                               f"{R_[t][c]}, the environment paid {want} at that step")
                        break
                for t in range(1, T):
                    dt[t][c] = flags[t - 1]
                    if int(D_[t][c]) != dt[t][c]:
                        x = env.log[start + t - 1]
                        kind = "terminated" if x["term"][a][e] and not x["trunc"][a][e] \
                            else ("truncated" if x["trunc"][a][e] and not x["term"][a][e] else "terminated+truncated")
                        mates = [b for b in members if b != a and not x["done"][b][e]]
                        out["problems"].append(
                            f"[loop-flags] {where}: agent {a} env {e}: " +
                            (f"the environment reported the agent {kind} at step {t - 1}"
                             + (f" (its team-mates {mates} were still running)" if mates else "")
                             + f", so step {t} does not continue that episode, but dones[{t}] = {int(D_[t][c])}"
                             if dt[t][c] else
                             f"the environment did not report the agent done at step {t - 1} but dones[{t}] = "
                             f"{int(D_[t][c])}"))
                        break
                want_nv = (call["stats"].get("boot") or {}).get(a)
                if want_nv is not None and len(want_nv) == E and abs(NV_[c] - want_nv[e]) > 1e-5 * max(1.0, abs(want_nv[e])) \
                        and not any(p.startswith("[bootstrap]") for p in out["problems"]):
                    out["problems"].append(f"[bootstrap] {where}: the estimates of agent {a} env {e} are bootstrapped from "
                                           f"{NV_[c]}, the critic's value of ITS final next observation (next_obs[{a!r}] as "
                                           f"env.step returned it, agent key order of that dict: "
                                           f"{list(call.get('next_keys') or [])}) is {want_nv[e]}")
                ndt[c] = flags[T - 1]
                if int(ND_[c]) != ndt[c]:
                    out["problems"].append(f"[loop-flags] {where}: agent {a} env {e}: next_done = {int(ND_[c])} but the "
                                           f"environment reported done = {ndt[c]} for it on the last step of the rollout")
            # the recursion with the TRUE flags, on the recorded rewards/values/bootstrap
            bad = None
            for c in range(C):
                a_, r_, _ = gae_column(gamma, lam, [fr_of(R_[t][c]) for t in range(T)],
                                       [fr_of(V_[t][c]) for t in range(T)], [dt[t][c] for t in range(T)],
                                       fr_of(NV_[c]), ndt[c])
                for t in range(T):
                    if bad is None and (not close(fr_of(ADV[t][c]), a_[t]) or not close(fr_of(RET[t][c]), r_[t])):
                        bad = (t, c, float(a_[t]))
            if bad is not None:
                t, c, want = bad
                out["problems"].append(f"[recursion] {where}: advantage of agent {members[c // E]} step {t} env {c % E} "
                                       f"is {ADV[t][c]}, the recursion over the episodes the environment really played "
                                       f"gives {want} (gamma={lc['gamma']} lambda={lc['lam']})")
            fl = lambda mm: " ".join(frac(fr_of(x)) for row in mm for x in row)
            ops.append(f"gae run {frac(gamma)} {frac(lam)} {T} {C} {fl(R_)} " + " ".join(str(x) for row in dt for x in row)
                       + f" {fl(V_)} " + " ".join(frac(fr_of(x)) for x in NV_) + " " + " ".join(str(x) for x in ndt))
            impl.append(" ".join(frac(fr_of(x)) for x in ADV.reshape(-1)) + " | "
                        + " ".join(frac(fr_of(x)) for x in RET.reshape(-1)))
            # no-leak against the twin
            if call.get("twin") and len(call["twin"]) == len(grp):
                ADV2 = m(call["twin"][gi]["advantages"])
                RET2 = m(call["twin"][gi]["returns"])
                for a, e, k in call["claims"]:
                    if a not in members:
                        continue
                    out["claims"] += 1
                    c = members.index(a) * E + e
                    hit = [t for t in range(k) if ADV[t][c] != ADV2[t][c] or RET[t][c] != RET2[t][c]]
                    if hit:
                        out["problems"].append(
                            f"[leak] {where}: agent {a} env {e}: the environment reported it done at step {k - 1}"
                            f"{' (the last step of the rollout)' if k == T else ''}; replacing only its rewards/values "
                            f"from step {k} on and the final next observation changed its advantage at step {hit[0]}: "
                            f"{ADV[hit[0]][c]} -> {ADV2[hit[0]][c]}")
            # coverage tags
            for a in members:
                for e in range(E):
                    for t in range(T):
                        x = env.log[start + t]
                        if x["done"][a][e]:
                            kind = "both" if x["term"][a][e] and x["trunc"][a][e] else ("term" if x["term"][a][e] else "trunc")
                            out["tags"].append(f"loop-end-{kind}-{'last-step' if t == T - 1 else 'inside'}")
                            if not x["over"][e]:
                                out["tags"].append("loop-agent-done-before-team-mates")
    if getattr(env, "stepped_after_end", 0):
        out["problems"].append(f"[loop-flags] the plain environment was stepped {env.stepped_after_end} time(s) after an "
                               "episode had ended without being reset")
    out["tags"].append(f"loop-act-{akind}")
    if lc.get("key_order"):
        out["tags"].append(f"loop-env-agent-key-order-{lc['key_order']}")
    if akind != "discrete":
        out["tags"].append("loop-clipping-active" if clipped else "loop-clipping-inactive")
        out["clipped"] = f"{clipped}/{samples}"
    twin_errors = sorted({c["twin_error"] for c in calls if c.get("twin_error")})
    if twin_errors:
        out["tags"].append("loop-twin-unavailable")
        out["twin_errors"] = twin_errors
    model = chk.driver.run(["reset"] + ops)[1:] if ops else []
    chk.corr["model_lines"] += len(ops)
    out["impl"], out["model"] = impl, model
    out["diff"] = compare_lines(impl, model, [True] * len(impl))
    out["tags"] = sorted(set(out["tags"]))
    return out


def loop_cases(rng: random.Random, tier: str):
    G = gen_loop_case
    cases = [G(rng, "PPO", True, 5, 3, 3, akind="box-clip"), G(rng, "PPO", True, 4, 2, 3, akind="discrete"),
             G(rng, "PPO", True, 4, 2, 2, akind="box-squash"),
             G(rng, "IPPO", True, 4, 2, 3, ID_SETS[1], akind="box-clip", stagger=True),
             G(rng, "IPPO", True, 5, 2, 2, ID_SETS[4], akind="discrete", stagger=True),
             G(rng, "IPPO", False, 6, 1, 3, ID_SETS[1], akind="discrete", stagger=True),
             G(rng, "IPPO", False, 5, 1, 3, ID_SETS[5], akind="box-clip", stagger=False),
             G(rng, "IPPO", False, 6, 1, 2, ID_SETS[2], akind="box-clip", stagger=True),
             # the env returns every dict in an agent key order of its own (groups interleaved / any permutation)
             G(rng, "IPPO", True, 4, 2, 2, ID_SETS[3], akind="discrete", key_order="interleave"),
             G(rng, "IPPO", True, 3, 2, 2, ID_SETS[4], akind="box-clip", stagger=True, key_order="free"),
             G(rng, "IPPO", False, 5, 1, 2, ID_SETS[5], akind="discrete", key_order="interleave")]
    for _ in range(4 if tier == "quick" else 60):
        algo = rng.choice(["PPO", "IPPO", "IPPO"])
        vec = True if algo == "PPO" else rng.random() < 0.5
        akind = rng.choice(["discrete", "box-clip", "box-squash"] if algo == "PPO" else ["discrete", "box-clip"])
        cases.append(G(rng, algo, vec, rng.randint(3, 6), rng.randint(1, 3) if vec else 1, rng.randint(2, 3),
                       rng.choice(ID_SETS[:6] + UNSORTED_ID_SETS[:2]), akind=akind, stagger=rng.random() < 0.7,
                       key_order=rng.choice([None, None, "interleave", "free"])))
    return cases


def shrink_loop(chk, lc, kind):
    """fewer rollouts / environments on which the same kind of problem is still seen"""
    def fails(c):
        return any(kind_of(p) == kind for p in run_loop_case(chk, c)["problems"])
    best = lc
    for R in range(1, lc["R"]):
        c = dict(best, R=R)
        if fails(c):
            best = c
            break
    if best["vec"] and best["E"] > 1:
        keep = ddmin(list(range(best["E"])), lambda es: fails(dict(best, E=len(es), schedules=[best["schedules"][e] for e in es])))
        best = dict(best, E=len(keep), schedules=[best["schedules"][e] for e in keep])
    return best


def run_loop_suite(chk: Check, rng: random.Random, seen_kinds: set, corpus=()):
    n = {"PPO": [0, 0], "IPPO": [0, 0]}
    notes = set()
    for lc in list(corpus) + loop_cases(rng, chk.tier):
        o = run_loop_case(chk, lc)
        ends = [t for t in o["tags"] if t.startswith("loop-end")]
        chk.case(lc, nontrivial=bool(ends),
                 sample={k: lc.get(k) for k in ("suite", "algo", "vec", "T", "E", "R", "ids", "gamma", "lam", "akind", "stagger")} |
                        {"schedules": [s[:4] for s in lc["schedules"]]},
                 tags=[f"loop-{lc['algo']}-{'vec' if lc['vec'] else 'plain'}", "loop-case"] + o["tags"]
                      + (["loop-no-leak-claims"] if o["claims"] else []))
        n[lc["algo"]][0] += 1
        if o.get("skipped"):
            notes.add(f"loop suite: squash_output cases skipped on this tree: {o['skipped']}")
            continue
        for te in o.get("twin_errors", []):
            notes.add(f"loop suite: re-evaluation / no-leak twin unavailable ({te})")
        if o["diff"] is None and not o["problems"]:
            continue
        n[lc["algo"]][1] += o["diff"] is not None
        kind = kind_of(o["problems"][0]) if o["problems"] else "[loop-diff"
        small, o2 = lc, o
        if o["problems"] and kind not in seen_kinds and len(seen_kinds) < 7:
            seen_kinds.add(kind)
            try:
                cand = shrink_loop(chk, lc, kind)
                oc = run_loop_case(chk, cand)
                if any(kind_of(p) == kind for p in oc["problems"]):
                    small, o2 = cand, oc
            except InfraError:
                raise
            except Exception:                             # noqa: BLE001 - shrinking is best effort
                pass
        replay = {"case": small, "impl": o2["impl"], "model": o2["model"], "diff_at": o2["diff"],
                  "oracle_problems": o2["problems"], "correspondence": "harness/c17.py (loop suite) vs Model/GAE.lean",
                  "theorems": chk.gate["theorems"],
                  "how": "bin/check C17 --replay <this file>  (re-runs the real training loop on the scripted env)"}
        if o2["problems"]:
            chk.violation(o2["problems"][0], replay)
        else:
            i = o2["diff"]
            chk.violation(f"training-loop rollout: implementation and GAE model disagree at line {i}; the oracle holds",
                          replay, no_input=True)
    chk.notes.extend(sorted(notes))
    chk.suite("loop-train_on_policy-ppo", n["PPO"][0], n["PPO"][1])
    chk.suite("loop-train_multi_agent_on_policy-ippo", n["IPPO"][0], n["IPPO"][1])


# ----------------------------------------------------------------------------- run
# ----------------------------------------------------------------------------- re-layout helpers, driven directly
def gen_relayout_case(rng: random.Random):
    T, E = rng.choice([1, 2, 3, 4, 5]), rng.choice([1, 2, 3, 4])
    N = T * E
    u = rng.random()
    if u < 0.3:
        idx = rng.sample(range(N), N)                                  # an epoch's permutation
    elif u < 0.6:
        idx = [rng.randrange(N) for _ in range(rng.randint(1, 2 * N))]   # repeats, any length
    else:
        idx = rng.sample(range(N), rng.randint(1, N))                  # a minibatch
    c = {"suite": "relayout", "T": T, "E": E, "okind": rng.choice(["box", "dict", "tuple", "dict2", "dict2"]),
         "akind": rng.choice(["box", "disc"]), "idx": idx, "seed": rng.randrange(2 ** 31)}
    if c["okind"] in ("dict", "dict2") and rng.random() < 0.7:
        # every step's observation dict in a key insertion order of its own ("dict2": members a, c of identical shape / dtype)
        keys = ["a", "b"] if c["okind"] == "dict" else ["a", "c", "b"]
        c["oorder"] = [rng.sample(keys, len(keys)) if rng.random() < 0.5 or c["okind"] == "dict" else
                       rng.choice([["a", "c", "b"], ["c", "a", "b"]]) for _ in range(T)]
    return c


def run_relayout_case(chk: Check, c):
    """the real stack_experiences -> is_vectorized_experiences -> flatten_experiences -> get_experiences_samples on a
    provenance-coded rollout (exactly the calls PPO.learn makes on its six tensors), any index vector; every member
    of every one of the six minibatch tensors is decoded and diffed with `gae ppobatch` (Model: gather of ppoFlatten)"""
    from agilerl.utils.algo_utils import (flatten_experiences, get_experiences_samples, is_vectorized_experiences,
                                          stack_experiences)
    T, E, idx = c["T"], c["E"], c["idx"]
    cd = lambda t, e: t * 8 + e + 1
    S, A, L = [], [], []
    for t in range(T):
        box = np.array([[cd(t, e) * 4 + f for f in range(3)] for e in range(E)], dtype=np.float32)
        disc = np.array([cd(t, e) for e in range(E)], dtype=np.int64)
        ob = box if c["okind"] == "box" else {"a": box, "b": disc} if c["okind"] == "dict" else \
            {"a": box, "c": -box, "b": disc} if c["okind"] == "dict2" else (box, disc)
        if c.get("oorder") and isinstance(ob, dict):
            ob = {k: ob[k] for k in c["oorder"][t]}
        S.append(ob)
        A.append(np.array([[cd(t, e) * 4 + f for f in range(2)] for e in range(E)], dtype=np.float32)
                 if c["akind"] == "box" else disc.copy())
        L.append(np.array([cd(t, e) for e in range(E)], dtype=np.float32))
    out = {"diff": None, "problems": [], "impl": [], "model": []}
    try:
        st, ac, lp = stack_experiences(S, A, L)
        rest = tuple(torch.tensor([[float(cd(t, e) + k * 100) for e in range(E)] for t in range(T)]) for k in (1, 2, 3))
        exps = (st, ac, lp) + rest
        if is_vectorized_experiences(*exps):
            exps = flatten_experiences(*exps)
        batch = get_experiences_samples(np.array(idx), *exps)
    except Exception as e:                                  # noqa: BLE001
        out["problems"].append(f"[relayout] the re-layout helpers raised on a legal rollout (T={T}, envs={E}, "
                               f"obs {c['okind']}, index vector {idx}): {type(e).__name__}: {str(e)[:160]}")
        return out
    lines, names = [], []
    for k, (name, x) in enumerate(zip(ROW_NAMES, batch)):
        for mk, m in _members(x):
            m = torch.as_tensor(m).reshape(len(idx), -1).to(torch.float64)
            tags_ = []
            for j in range(len(idx)):
                row = m[j].tolist()
                if name == "states" and mk == "c":         # member 'c' = -(member 'a'): same shape / dtype, other contents
                    row = [-v for v in row] if all(v < 0 for v in row) else [0.5]
                if len(row) > 1:                            # a feature vector: code*4 + f in place f
                    q = row[0] / 4
                    ok = all(v == row[0] + f for f, v in enumerate(row))
                else:
                    q, ok = row[0] - (k - 2) * 100 * (k >= 3), True
                q = int(q) - 1 if ok and q == int(q) else -1
                tags_.append(f"{q // 8}.{q % 8}" if 0 <= q and q // 8 < T and q % 8 < E else "?")
            lines.append(" ".join(tags_))
            names.append(name + (f"[{mk}]" if mk else ""))
    out["impl"] = lines
    out["model"] = chk.driver.run(["reset"] + [f"gae ppobatch {T} {E} " + " ".join(map(str, idx))] * len(lines))[1:]
    chk.corr["model_lines"] += len(lines)
    # oracle (the statement itself): row j of all six tensors / members belongs to ONE sample, the one flattened row idx[j] holds
    for j in range(len(idx)):
        got = {ln.split()[j] for ln in lines}
        if len(got) != 1 or "?" in got:
            out["problems"].append(
                f"[relayout] row {j} of the minibatch gathered by index vector {idx} mixes samples: "
                + ", ".join(f"{nm} -> {ln.split()[j]}" for nm, ln in zip(names, lines))
                + f" (steps {T}, envs {E}, observation kind {c['okind']})")
            break
    if len(lines) != len(out["model"]) or any(a != b for a, b in zip(lines, out["model"])):
        out["diff"] = next((i for i, (a, b) in enumerate(zip(lines, out["model"])) if a != b), 0)
    return out


def run_relayout_suite(chk: Check, rng: random.Random, corpus=()):
    cases = list(corpus) + [{"suite": "relayout", "T": 2, "E": 3, "okind": "dict", "akind": "disc", "idx": [5, 0, 5, 2], "seed": 1},
                            {"suite": "relayout", "T": 3, "E": 2, "okind": "tuple", "akind": "box", "idx": [4, 1, 3, 0, 5, 2], "seed": 2},
                            {"suite": "relayout", "T": 4, "E": 1, "okind": "box", "akind": "disc", "idx": [3, 3, 0], "seed": 3}]
    cases += [gen_relayout_case(rng) for _ in range(60 if chk.tier == "quick" else 600)]
    bad = 0
    reported = False
    for c in cases:
        o = run_relayout_case(chk, c)
        chk.case(c, nontrivial=c["T"] > 1 and c["E"] > 1, tags=["relayout", f"relayout-obs-{c['okind']}"] +
                 ["relayout-obs-key-order-per-step"] * bool(c.get("oorder")) + [
                 "relayout-idx-" + ("perm" if sorted(c["idx"]) == list(range(c["T"] * c["E"])) else
                                    "repeats" if len(set(c["idx"])) < len(c["idx"]) else "subset")])
        if not o["problems"] and o["diff"] is None:
            continue
        bad += o["diff"] is not None
        if reported:
            continue
        reported = True
        def fails(ix, c=c, by=bool(o["problems"])):
            o2 = run_relayout_case(chk, {**c, "idx": ix})
            return bool(o2["problems"]) if by else (o2["diff"] is not None and not o2["problems"])
        small = {**c, "idx": ddmin(list(c["idx"]), fails) or c["idx"]}
        o2 = run_relayout_case(chk, small)
        chk.violation((o2["problems"] or o["problems"] or ["[relayout] model/implementation diff on the minibatch rows"])[0],
                      {"case": small, "oracle_problems": o2["problems"], "impl": o2["impl"], "model": o2["model"]},
                      no_input=not (o2["problems"] or o["problems"]))
    chk.suite("relayout-helpers", len(cases), bad)


def structured_cases(rng: random.Random, tier: str):
    cases = []
    # a fixed skeleton of edge shapes …
    for algo, T, E, ids, vec in [
        ("PPO", 1, 1, None, True), ("PPO", 1, 3, None, True), ("PPO", 2, 1, None, True), ("PPO", 3, 2, None, True),
        ("PPO", 6, 4, None, True), ("PPO", 4, 1, None, False),
        ("IPPO", 2, 1, ID_SETS[1], True), ("IPPO", 3, 2, ID_SETS[1], True), ("IPPO", 2, 2, ID_SETS[2], True),
        ("IPPO", 4, 3, ID_SETS[4], True), ("IPPO", 3, 2, ID_SETS[5], True), ("IPPO", 6, 4, ID_SETS[2], True),
        ("IPPO", 5, 1, ID_SETS[0], True), ("IPPO", 3, 1, ID_SETS[1], False), ("IPPO", 2, 3, ID_SETS[6], True),
        ("IPPO", 1, 1, ID_SETS[0], True), ("IPPO", 1, 2, ID_SETS[1], True),
        ("IPPO", 2, 1, UNSORTED_ID_SETS[0], True), ("IPPO", 3, 2, UNSORTED_ID_SETS[1], True),
        ("IPPO", 2, 2, UNSORTED_ID_SETS[2], True), ("IPPO", 2, 3, UNSORTED_ID_SETS[3], True),
        ("IPPO", 2, 2, ELEVEN, True), ("IPPO", 3, 1, ELEVEN + ["other_0"], True),
    ]:
        cases.append(gen_case(rng, algo, T, E, ids, exact=True, vec=vec))
    # … PPO with Dict / Tuple observations that have a Discrete (scalar) member, several envs and steps
    for T, E, okind in [(3, 2, "dict"), (4, 3, "tuple"), (2, 4, "dict"), (5, 2, "tuple")]:
        c = gen_case(rng, "PPO", T, E, None, exact=True)
        c["okind"] = okind
        cases.append(c)
    # … every observation family for the bootstrap (real critic, so that next_value differs per agent and env):
    #    Dict / Tuple / raw 0..255 images with normalize_images on and off, IPPO with 2 and 3 agents sharing, PPO
    for algo, ids, okind, norm in [("IPPO", ID_SETS[1], "dict", True), ("IPPO", ID_SETS[4], "tuple", True),
                                   ("IPPO", ID_SETS[1], "image", False), ("IPPO", ID_SETS[2], "image", True),
                                   ("IPPO", UNSORTED_ID_SETS[0], "dict", True), ("PPO", None, "image", False),
                                   ("PPO", None, "image", True), ("PPO", None, "dict", True)]:
        c = gen_case(rng, algo, 3, 2, ids, exact=False)
        c["okind"], c["norm"] = okind, norm
        for a in c["ids"]:
            c["nd"][a][0] = 0                               # a non-terminal final step
        cases.append(c)
    # … rewards as environments give them: integer-typed on the first step, fractional floats later
    for algo, ids, vec in [("PPO", None, True), ("IPPO", ID_SETS[1], True), ("PPO", None, False), ("IPPO", ID_SETS[1], False)]:
        c = gen_case(rng, algo, 4, 2 if vec else 1, ids, exact=True, vec=vec)
        c["rmix"] = "int-first"
        for a in c["ids"]:
            c["r"][a][0] = [str(rng.randint(-2, 2)) for _ in range(c["E"])]
            c["r"][a][1] = [frac(Fr(2 * rng.randint(-4, 3) + 1, 4)) for _ in range(c["E"])]      # never an integer
        cases.append(c)
    # … gamma / lambda changed AFTER construction, by every route, for both algorithms
    for route in HP_ROUTES:
        for algo, ids in (("IPPO", ID_SETS[1]), ("PPO", None)):
            c = gen_case(rng, algo, 3, 2, ids, exact=True)
            c["hp_route"] = route
            if c["gamma"] in ("0", "1") or c["lam"] in ("0", "1"):
                c["gamma"], c["lam"] = "1/2", "3/4"
            cases.append(c)
    # … dict KEY ORDER: each of the eight rollout dicts of IPPO in its own agent order (policy groups with equal
    #    observation shapes interleaved differently per dict; real critic and a non-terminal last step so that the
    #    bootstrap value tells the agents apart), and every dict independently permuted
    for ids, T, E, exact, kind in [(ID_SETS[3], 3, 2, False, "interleave"), (ID_SETS[4], 2, 2, False, "interleave"),
                                   (UNSORTED_ID_SETS[3], 2, 1, False, "interleave"), (ID_SETS[5], 3, 2, True, "interleave"),
                                   (ID_SETS[6], 2, 2, True, "interleave"), (ID_SETS[1], 3, 2, False, "free"),
                                   (ID_SETS[4], 2, 2, True, "free"), (UNSORTED_ID_SETS[1], 2, 1, False, "free")]:
        c = gen_case(rng, "IPPO", T, E, ids, exact=exact)
        c["okind"] = "vector"
        if not exact:
            for a in c["ids"]:
                c["nd"][a] = [0] * E
        cases.append(with_agent_key_orders(rng, c, kind))
    for i, (ids, kind) in enumerate([(ID_SETS[3], "interleave"), (ID_SETS[4], "interleave"), (ID_SETS[1], "free")]):
        c = gen_case(rng, "IPPO", 3, 2, ids, exact=False)           # ONLY the final next observation, as env.step
        c["okind"] = "vector"                                      # returned it, lists the agents in another order
        for a in c["ids"]:
            c["nd"][a] = [0, 0]
        grp = groups_of(c)
        order = [a for _, m in grp[::-1] for a in (m if kind == "interleave" else m[::-1])]
        c["korder"] = {"kind": kind, "orders": [list(c["ids"])] * 6 + [order, list(c["ids"])]}
        cases.append(c)
    # … Dict observations with two members of identical shape and dtype whose per-step dicts are built in different key
    #    insertion orders (PPO and IPPO)
    for algo, ids, T, E, okind, exact in [("PPO", None, 3, 2, "dict2", True), ("PPO", None, 4, 1, "dict2", False),
                                          ("PPO", None, 2, 3, "dict", True), ("IPPO", ID_SETS[1], 3, 2, "dict2", True),
                                          ("IPPO", ID_SETS[4], 2, 2, "dict2", False), ("IPPO", ID_SETS[3], 3, 1, "dict", True)]:
        c = gen_case(rng, algo, T, E, ids, exact=exact)
        c["okind"] = okind
        cases.append(with_obs_key_orders(rng, c, same_shape_only=exact))
    n_rand = 200 if tier == "quick" else 2000
    for _ in range(n_rand):
        algo = "IPPO" if rng.random() < 0.6 else "PPO"
        T = rng.choice([1, 2, 2, 3, 3, 4, 5, 6])
        E = rng.choice([1, 2, 2, 3, 4])
        u = rng.random()
        ids = rng.choice(UNSORTED_ID_SETS) if u < 0.25 else (ELEVEN if u < 0.29 else rng.choice(ID_SETS))
        if algo == "IPPO" and len(ids) > 4:                 # many agents: keep the case cheap
            T, E = min(T, 3), min(E, 2)
        vec = not (E == 1 and rng.random() < 0.3)
        c = gen_case(rng, algo, T, E, ids, exact=rng.random() < 0.8, vec=vec)
        if algo == "IPPO" and len(c["ids"]) > 1 and rng.random() < 0.3:
            with_agent_key_orders(rng, c, "interleave" if len(groups_of(c)) > 1 and rng.random() < 0.7 else "free")
        if rng.random() < 0.6:
            with_obs_key_orders(rng, c)
        cases.append(c)
    return cases


def run(chk: Check) -> None:
    hooks()
    torch.set_num_threads(1)          # tiny tensors: thread hand-off costs more than the arithmetic
    rng = chk.rng
    chk.rule = ("real PPO.learn / IPPO.learn on rollouts with provenance-coded observations, actions, old log-probs "
                "and values; T in 1..6, envs 1..4 (with and without an env dimension when 1), 1..3 agents in "
                "homogeneous groups in several dict orders (interleaved with other groups, listed in NON-lexicographic order "
                "within a group, and eleven agents agent_0..agent_10 sharing one policy), observations flat Box, Dict/Tuple with a Discrete member or raw 0..255 images with normalize_images on/off for PPO and IPPO (every member "
                "decoded), episode boundaries at the first/last step, in next_done, "
                "per column; rewards handed over as arrays / numpy scalars / Python numbers of mixed dtypes (integer-typed first step, "
                "fractional floats later) and always compared with what was fed; gamma, lambda dyadic (exact diff) or 0.99/0.95-like with the real critic (toleranced), given to the "
                "constructor or changed afterwards (setattr / clone / checkpoint round trip / RL-hp mutation) and always "
                "compared with the recursion over the agent's CURRENT values; "
                "distinct = distinct case dictionaries; non-trivial = an episode boundary inside the rollout/next_done "
                "or more than one agent sharing a policy; loop suite: the real train_on_policy (PPO, scripted vector env) "
                "and train_multi_agent_on_policy (IPPO, scripted vectorised and plain parallel envs) for 2-3 rollouts, "
                "Discrete and Box action spaces (bounds that clip nearly every sample; squash_output with bounds [-2,3] "
                "where the tree can train it), agents of a sub-environment done at different steps; "
                "episodes ending by termination / truncation only / both, inside rollouts and on their last step; before "
                "every learn() call the stored old log-probs and values are re-evaluated under the collecting policy for "
                "the STORED action/observation and the stored observations are held against what the environment emitted; every "
                "learn() call's recorded rewards, dones, next_done are held against the environment's own episode log, "
                "the recursion is recomputed over the true boundaries, and an identical twin agent learns from the same "
                "rollout with everything after the true boundaries replaced (no-leak); dict KEY ORDER: each of the eight "
                "IPPO rollout dicts in an agent order of its own (policy groups interleaved differently per dict; every dict "
                "independently permuted; next_obs alone out of order), per-step observation dicts of Dict spaces built in "
                "different key insertion orders incl. two members of identical shape/dtype (PPO, IPPO), scripted parallel envs "
                "returning every dict in a key order drawn per call, with the bootstrap value of every column held against its "
                "own critic at next_obs[agent] looked up by key")
    chk.assumptions = [
        "the recorder copies what learn() holds at the call sites (advantages/returns right after the loop, the six "
        "flattened tensors right before the minibatch loop); the harness checks the recorded inputs against the "
        "rollout it fed",
        "tensor operations of the GAE loop are element-wise in the column dimension (checked by the no-leak oracle, "
        "which also perturbs all other columns)",
        "float32/64 arithmetic is exact on the dyadic cases (every intermediate is checked to be representable), "
        f"relative tolerance {TOL} otherwise",
        "the minibatch spy replaces the module-level name get_experiences_samples of agilerl.algorithms.{ppo,ippo} "
        "during learn(); a tree that indexes in another way is only covered by the rows suites and the translation",
        "loop suite: dones[0] of a rollout is not checked (the loops always store zeros there and the estimates never "
        "read it); the scripted environments auto-reset like gymnasium vector envs (the observation returned with an "
        "episode end is the first one of the next episode)",
    ]
    cases = []
    corpus_loop = []
    corpus_relayout = []
    for f in sorted((ROOT / "corpus" / "C17").glob("*.json")):
        c = json.loads(f.read_text())
        c = c.get("case", c)
        (corpus_loop if c.get("suite") == "loop" else corpus_relayout if c.get("suite") == "relayout" else cases).append(c)
    cases += structured_cases(rng, chk.tier)
    n = {"PPO": [0, 0], "IPPO": [0, 0]}
    single_step_reported = False
    seen_kinds: set[str] = set()
    for case in cases:
        leak_rng = random.Random(case["seed"] ^ 0x5EED)
        out = one_case(chk, case, leak_rng)
        A = max(len(m) for _, m in groups_of(case))
        chk.case(case, nontrivial=has_boundary(case) or A > 1,
                 sample={k: case[k] for k in ("algo", "ids", "T", "E", "vec", "gamma", "lam", "akind", "exact")} |
                        {"d": case["d"], "nd": case["nd"]},
                 tags=case_tags(case) + sorted(set(out["tags"])) + (["no-leak-claims"] * bool(out["claims"])))
        n[case["algo"]][0] += 1
        if out["raised"] and case["algo"] == "IPPO" and case["T"] == 1:
            # analysed defect: `.squeeze()` in IPPO._learn_individual removes the time dimension of a
            # one-step rollout (fixes/C17-ippo-single-step.diff)
            if not single_step_reported:
                single_step_reported = True
                chk.finding(FINDING_SINGLE_STEP, out["problems"][0], {"case": case, "oracle_problems": out["problems"]})
            continue
        if out["diff"] is None and not out["problems"]:
            continue
        n[case["algo"]][1] += out["diff"] is not None
        kind = kind_of(out["problems"][0]) if out["problems"] else "[diff"
        if kind not in seen_kinds and len(seen_kinds) < 5:
            seen_kinds.add(kind)                           # one shrunk replay per kind of failure
            report(chk, case, out)
        else:
            chk.violation((out["problems"] or ["model/implementation diff"])[0],
                          {"case": case, "oracle_problems": out["problems"], "diff_at": out["diff"]})
    chk.suite("gae+rows-ppo", n["PPO"][0], n["PPO"][1])
    chk.suite("gae+rows-ippo", n["IPPO"][0], n["IPPO"][1])
    run_loop_suite(chk, rng, seen_kinds, corpus_loop)
    run_relayout_suite(chk, random.Random(rng.randrange(2 ** 31)), corpus_relayout)
    probe_bootstrap(chk, rng, 2 if chk.tier == "quick" else 5)
    probe_key_order(chk)
    if chk.tier == "thorough":
        selftest(chk)


def pre_gate(chk: Check) -> None:
    """Regenerate lean/Gen/GAEGen.lean from the source text of the tree under test (before the Lean gate)
    and re-check `generated = model` (Proofs/GAEGenEq.lean) and the theorems over the generated
    definitions (Props/C17.lean)."""
    import common
    import py2lean_flatten
    import py2lean_gae
    # both generated files are imported by Props/C17.lean: bring the second one up to date with the tree under test
    # before the first gate builds Props.C17 (a file left by a run on another tree must not fail the first gate)
    try:
        py2lean_flatten.write_if_changed(py2lean_flatten.translate(common.REPO)[0], common.LEAN_DIR / "Gen/FlattenGen.lean")
    except py2lean_flatten.Unsupported:
        pass                                                # reported by the second gate below
    import py2lean_rollout
    try:
        py2lean_rollout.write_if_changed(py2lean_rollout.translate(common.REPO)[0], common.LEAN_DIR / "Gen/RolloutGen.lean")
    except py2lean_rollout.Unsupported:
        pass                                                # reported by the third gate below
    common.translation_gate(chk, py2lean_gae, "Gen/GAEGen.lean", ["Gen.GAEGen", "Proofs.GAEGenEq", "Props.C17"],
                            "advantage-estimation loop of PPO.learn and IPPO._learn_individual")
    # the tensor re-layout between the rollout lists and the minibatch loop, executed symbolically
    common.translation_gate(chk, py2lean_flatten, "Gen/FlattenGen.lean",
                            ["Gen.FlattenGen", "Proofs.FlattenGenEq", "Props.C17"],
                            "stack / flatten / concatenate / get_experiences_samples re-layout of PPO.learn and "
                            "IPPO._learn_individual: row index maps")
    # what learn() RECEIVES: the rollout-collection block of the two training functions (dones[t] = flag before step t)
    common.translation_gate(chk, py2lean_rollout, "Gen/RolloutGen.lean",
                            ["Gen.RolloutGen", "Proofs.RolloutGenEq", "Props.C17"],
                            "rollout-collection block (step loop up to learn(experiences)) of train_on_policy and "
                            "train_multi_agent_on_policy")


# ----------------------------------------------------------------------------- self-test (seeded faults)
def _patched_method(cls, name: str, old: str, new: str):
    """`cls.name` recompiled from its source with `old` replaced by `new` (None if `old` is not there)"""
    try:
        src = textwrap.dedent(inspect.getsource(getattr(cls, name)))
    except (OSError, TypeError):
        return None
    if old not in src:
        return None
    ns: dict = {}
    exec(compile(src.replace(old, new), f"<C17 self-test {cls.__name__}.{name}>", "exec"),
         vars(sys.modules[cls.__module__]), ns)
    return ns[name]


def selftest(chk: Check) -> None:
    from agilerl.algorithms import ippo as ippo_mod
    from agilerl.algorithms import ppo as ppo_mod
    rng = random.Random(1234)
    probes = [gen_case(rng, "PPO", 4, 3, None, exact=True), gen_case(rng, "PPO", 5, 2, None, exact=True),
              gen_case(rng, "IPPO", 4, 2, ID_SETS[1], exact=True), gen_case(rng, "IPPO", 3, 3, ID_SETS[4], exact=True)]
    for c in probes:                                    # make sure the faults have something to bite on
        c["gamma"], c["lam"] = "1/2", "3/4"
        for a in c["ids"]:
            c["d"][a][1] = [1] + [0] * (c["E"] - 1)
            c["d"][a][2] = [0] * (c["E"] - 1) + [1]

    def noticed(which):
        hit = 0
        for c in probes:
            if c["algo"] != which:
                continue
            o = one_case(chk, c, random.Random(5))
            hit += bool(o["problems"]) or o["diff"] is not None
        return hit

    applied = {"gae": 0, "rows": 0}
    faults = [
        ("gae", "PPO", ppo_mod.PPO, "learn", "dones[t + 1]", "dones[t]", "dones[t] instead of dones[t+1]"),
        ("gae", "IPPO", ippo_mod.IPPO, "_learn_individual", "dones[t + 1]", "dones[t]", "dones[t] instead of dones[t+1]"),
        ("gae", "PPO", ppo_mod.PPO, "learn", "self.gamma * self.gae_lambda * next_non_terminal",
         "self.gamma * next_non_terminal", "lambda dropped"),
        ("gae", "IPPO", ippo_mod.IPPO, "_learn_individual", "self.gamma * self.gae_lambda * next_non_terminal",
         "self.gamma * next_non_terminal", "lambda dropped"),
        ("gae", "PPO", ppo_mod.PPO, "learn", "nextvalue = values[t + 1]", "nextvalue = values[t]", "V_t instead of V_{t+1}"),
    ]
    for kind, which, cls, meth, old, new, what in faults:
        f = _patched_method(cls, meth, old, new)
        if f is None:
            chk.notes.append(f"self-test: fault '{what}' not applicable to the source of {cls.__name__}.{meth}; skipped")
            continue
        orig = getattr(cls, meth)
        setattr(cls, meth, f)
        try:
            hit = noticed(which)
        finally:
            setattr(cls, meth, orig)
        if not hit:
            raise InfraError(f"C17 self-test: seeded fault '{what}' in {cls.__name__}.{meth} was not noticed")
        applied[kind] += 1
        chk.notes.append(f"self-test: {which} '{what}' detected")

    # transposed reshape: PPO flattens the states time-major while everything else stays env-major
    orig_flat = ppo_mod.flatten_experiences

    def bad_flatten(*exps):
        out = list(orig_flat(*exps))
        s = exps[0]
        if isinstance(s, torch.Tensor) and s.ndim >= 3:
            out[0] = s.reshape(s.shape[0] * s.shape[1], *s.shape[2:])
        return tuple(out)
    ppo_mod.flatten_experiences = bad_flatten
    try:
        hit = noticed("PPO")
    finally:
        ppo_mod.flatten_experiences = orig_flat
    if not hit:
        raise InfraError("C17 self-test: PPO states flattened without swapaxes (transposed reshape) was not noticed")
    applied["rows"] += 1
    chk.notes.append("self-test: PPO transposed reshape of the states detected")

    # IPPO: states/actions batched time-major instead of agent-major
    orig_cat = ippo_mod.concatenate_experiences_into_batches

    def bad_cat(experiences, space):
        x = orig_cat(experiences, space)
        A = len(experiences)
        T = len(next(iter(experiences.values())))
        if isinstance(x, torch.Tensor) and A > 1 and x.shape[0] % (A * T) == 0:
            E = x.shape[0] // (A * T)
            x = x.reshape(A, T, E, *x.shape[1:]).transpose(0, 1).reshape(x.shape)
        return x
    ippo_mod.concatenate_experiences_into_batches = bad_cat
    try:
        hit = noticed("IPPO")
    finally:
        ippo_mod.concatenate_experiences_into_batches = orig_cat
    if not hit:
        raise InfraError("C17 self-test: IPPO states/actions batched time-major (transposed reshape) was not noticed")
    applied["rows"] += 1
    chk.notes.append("self-test: IPPO transposed batching of states/actions detected")
    if not applied["gae"]:
        raise InfraError("C17 self-test: no GAE fault could be seeded (source of learn() not recognised)")

    # the agents of a group are re-ordered (sorted ids) in states/actions only: invisible while the listing
    # order is lexicographic, caught by the groups listed in another order / with eleven agents
    def sorted_cat(experiences, space):
        return orig_cat({k: experiences[k] for k in sorted(experiences)}, space)
    order_probes = [gen_case(rng, "IPPO", 2, 2, UNSORTED_ID_SETS[0], exact=True),
                    gen_case(rng, "IPPO", 2, 1, ELEVEN, exact=True)]
    ippo_mod.concatenate_experiences_into_batches = sorted_cat
    try:
        hits = [bool(o["problems"]) or o["diff"] is not None
                for o in (one_case(chk, c, random.Random(5)) for c in order_probes)]
    finally:
        ippo_mod.concatenate_experiences_into_batches = orig_cat
    if not all(hits):
        raise InfraError(f"C17 self-test: agents sorted by id in states/actions only was not noticed ({hits})")
    chk.notes.append("self-test: IPPO states/actions batched in sorted-id order (unsorted listing, eleven agents) detected")

    # a scalar member of a Dict / Tuple observation flattened time-major while the rest stays env-major
    def bad_flatten_members(*exps):
        out = list(orig_flat(*exps))
        s0 = exps[0]
        fix = lambda v: v.reshape(v.shape[0] * v.shape[1], 1) if isinstance(v, torch.Tensor) and v.ndim == 2 else None
        if isinstance(s0, dict):
            out[0] = {k: (fix(v) if fix(v) is not None else out[0][k]) for k, v in s0.items()}
        elif isinstance(s0, tuple):
            out[0] = tuple(fix(v) if fix(v) is not None else o for v, o in zip(s0, out[0]))
        return tuple(out)
    member_probes = []
    for okind in ("dict", "tuple"):
        c = gen_case(rng, "PPO", 3, 2, None, exact=True)
        c["okind"] = okind
        member_probes.append(c)
    ppo_mod.flatten_experiences = bad_flatten_members
    try:
        hits = [bool(o["problems"]) or o["diff"] is not None
                for o in (one_case(chk, c, random.Random(5)) for c in member_probes)]
    finally:
        ppo_mod.flatten_experiences = orig_flat
    if not all(hits):
        raise InfraError(f"C17 self-test: a Discrete observation member flattened time-major was not noticed ({hits})")
    chk.notes.append("self-test: PPO Dict/Tuple observation with a scalar member flattened time-major detected")

    # round-4 faults: rewards truncated to the dtype of the first step while stacking; `dim` not forwarded for
    # Dict / Tuple next observations; normalize_images ignored for the final next observation
    def _probe(algo, ids, **kw):
        c = gen_case(rng, algo, 3, 2, ids, exact=kw.pop("exact", False))
        c.update(kw)
        c["hp_route"] = "ctor"
        return c
    orig_stack_p, orig_stack_i = ppo_mod.stack_experiences, ippo_mod.stack_experiences

    def trunc_stack(*exps, **kw):
        fixed = []
        for x in exps:
            if isinstance(x, list) and x and isinstance(x[0], (np.ndarray, int, float, np.generic)) and \
                    not isinstance(x[0], dict):
                first = np.asarray(x[0])
                if first.dtype.kind == "i":
                    x = [np.asarray(y).astype(first.dtype) for y in x]
            fixed.append(x)
        return orig_stack_p(*fixed, **kw)
    r_probes = []
    for algo, ids in (("PPO", None), ("IPPO", ID_SETS[1])):
        c = _probe(algo, ids, exact=True, rmix="int-first", okind="vector")
        for a in c["ids"]:
            c["r"][a][0] = ["1", "-1"]
            c["r"][a][1] = ["3/4", "-5/4"]
        r_probes.append(c)
    ppo_mod.stack_experiences = ippo_mod.stack_experiences = trunc_stack
    try:
        hits = [bool(o["problems"]) or o["diff"] is not None for o in (one_case(chk, c, random.Random(5)) for c in r_probes)]
    finally:
        ppo_mod.stack_experiences, ippo_mod.stack_experiences = orig_stack_p, orig_stack_i
    if not all(hits):
        raise InfraError(f"C17 self-test: rewards truncated to the first step's integer dtype were not noticed ({hits})")
    chk.notes.append("self-test: rewards truncated to the integer dtype of the first step while stacking detected (PPO, IPPO)")

    orig_vec = ippo_mod.vectorize_experiences_by_agent

    def vec_no_dim(experiences, dim=1):
        sample = next(iter(experiences.values())) if experiences else None
        if isinstance(sample, dict):
            return {k: orig_vec({a: experiences[a][k] for a in experiences}) for k in sample}
        if isinstance(sample, tuple):
            return tuple(orig_vec({a: experiences[a][i] for a in experiences}) for i in range(len(sample)))
        return orig_vec(experiences, dim)
    o_probes = [_probe("IPPO", ID_SETS[1], okind="dict"), _probe("IPPO", ID_SETS[1], okind="tuple")]
    ippo_mod.vectorize_experiences_by_agent = vec_no_dim
    try:
        hits = [bool(o["problems"]) or o["diff"] is not None for o in (one_case(chk, c, random.Random(5)) for c in o_probes)]
    finally:
        ippo_mod.vectorize_experiences_by_agent = orig_vec
    if not all(hits):
        raise InfraError(f"C17 self-test: Dict/Tuple next observations stacked in (env, agent) order were not noticed ({hits})")
    chk.notes.append("self-test: IPPO bootstrap values of Dict/Tuple next observations in (env, agent) order detected")

    f = _patched_method(ippo_mod.IPPO, "_learn_individual", "next_state, obs_space, self.device, self.normalize_images",
                        "next_state, obs_space, self.device")
    if f is None:
        chk.notes.append("self-test: fault 'normalize_images ignored for next_state' not applicable to the source")
    else:
        orig_m = ippo_mod.IPPO._learn_individual
        ippo_mod.IPPO._learn_individual = f
        try:
            o = one_case(chk, _probe("IPPO", ID_SETS[1], okind="image", norm=False), random.Random(5))
        finally:
            ippo_mod.IPPO._learn_individual = orig_m
        if not o["problems"] and o["diff"] is None:
            raise InfraError("C17 self-test: next observation normalised although normalize_images=False was not noticed")
        chk.notes.append("self-test: IPPO final next observation normalised despite normalize_images=False detected")

    # gamma * lambda cached at construction: invisible unless gamma / lambda change afterwards
    f = _patched_method(ippo_mod.IPPO, "_learn_individual", "self.gamma * self.gae_lambda * next_non_terminal",
                        f"{HP_DECOY[0] * HP_DECOY[1]!r} * next_non_terminal")
    if f is None:
        chk.notes.append("self-test: fault 'cached gamma*lambda' not applicable to the source of IPPO._learn_individual")
    else:
        hp_probes = []
        for route in ("setattr", "clone", "checkpoint"):
            c = gen_case(rng, "IPPO", 3, 2, ID_SETS[1], exact=True)
            c["hp_route"], c["gamma"], c["lam"] = route, "1/2", "3/4"
            hp_probes.append(c)
        orig_m = ippo_mod.IPPO._learn_individual
        ippo_mod.IPPO._learn_individual = f
        try:
            hits = [bool(o["problems"]) or o["diff"] is not None
                    for o in (one_case(chk, c, random.Random(5)) for c in hp_probes)]
        finally:
            ippo_mod.IPPO._learn_individual = orig_m
        if not all(hits):
            raise InfraError(f"C17 self-test: a gamma*lambda product frozen at construction was not noticed ({hits})")
        chk.notes.append("self-test: IPPO recursion with gamma*lambda frozen at construction detected "
                         "(gamma / lambda changed by setattr, clone, checkpoint)")

    # training loops: the flag stored one step late loses truncations / is cleared when a plain env is reset
    import agilerl.training.train_multi_agent_on_policy as tma
    import agilerl.training.train_on_policy as top
    lrng = random.Random(99)
    loop_faults = [
        (top, "train_on_policy", "done = next_done", "done = np.asarray(term, dtype=np.int8)",
         gen_loop_case(lrng, "PPO", True, 5, 2, 2), "train_on_policy stores only terminations in dones"),
        (tma, "train_multi_agent_on_policy", "obs, info = env.reset()\n",
         "obs, info = env.reset()\n                                done = {a_: np.zeros(num_envs) for a_ in agent.agent_ids}\n",
         gen_loop_case(lrng, "IPPO", False, 6, 1, 2, ID_SETS[1]),
         "train_multi_agent_on_policy clears done when it resets a plain env"),
        (top, "train_on_policy", "actions.append(action)", "actions.append(clipped_action)",
         gen_loop_case(lrng, "PPO", True, 4, 2, 2, akind="box-clip"),
         "train_on_policy stores the clipped action with the log-prob of the raw sample"),
        (tma, "train_multi_agent_on_policy", "next_done[agent_id] = np.logical_or(",
         "next_done[agent_id] = (lambda *_: np.all([np.logical_or(termination[a_], truncation[a_]) "
         "for a_ in agent.agent_ids], axis=0))(",
         gen_loop_case(lrng, "IPPO", True, 5, 2, 2, ID_SETS[1], stagger=True),
         "train_multi_agent_on_policy stores one shared all-agents-done flag for every agent"),
    ]
    n_loop = 0
    for mod, name, old, new, lc, what in loop_faults:
        try:
            src = textwrap.dedent(inspect.getsource(getattr(mod, name)))
        except (OSError, TypeError):
            src = ""
        # only the reset inside the step loop (the deepest-indented occurrence) for the multi-agent fault
        pos = src.rfind(old) if old in src else -1
        if pos < 0:
            chk.notes.append(f"self-test: loop fault '{what}' not applicable to the source of {name}; skipped")
            continue
        ns: dict = {}
        exec(compile(src[:pos] + new + src[pos + len(old):], f"<C17 self-test {name}>", "exec"), vars(mod), ns)
        orig_f = getattr(mod, name)
        setattr(mod, name, ns[name])
        try:
            o = run_loop_case(chk, lc)
        finally:
            setattr(mod, name, orig_f)
        if not o["problems"] and o["diff"] is None:
            raise InfraError(f"C17 self-test: seeded loop fault '{what}' was not noticed")
        n_loop += 1
        chk.notes.append(f"self-test: '{what}' detected by the loop suite")
    if not n_loop:
        raise InfraError("C17 self-test: no training-loop fault could be seeded (source of the loops not recognised)")

    # round-5 faults: dict KEY ORDER.  (a) the policy groups come out in the order their agents first appear in each
    # input dict; (b) the members of a group keep the order of each input dict (the repaired C17-ippo-dict-key-order);
    # (c) per-step observation dicts transposed by position under the keys of the first step
    def first_seen(self, input):
        shared: dict = {}
        for agent_id, inp in input.items():
            shared.setdefault(self.get_homo_id(agent_id), {})[agent_id] = ippo_mod.stack_experiences(inp, to_torch=False)[0]
        return shared

    def members_in_input_order(self, input):
        shared = {h: {} for h in self.shared_agent_ids}
        for agent_id, inp in input.items():
            shared[self.get_homo_id(agent_id)][agent_id] = ippo_mod.stack_experiences(inp, to_torch=False)[0]
        return shared

    def only_next_obs(ids, order):
        c = _probe("IPPO", ids, okind="vector")
        for a in c["ids"]:
            c["nd"][a] = [0, 0]
        c["korder"] = {"kind": "free", "orders": [list(ids)] * 6 + [list(order), list(ids)]}
        return c
    k_probes = {
        "first_seen": [only_next_obs(ID_SETS[3], ID_SETS[3][::-1]),
                       with_agent_key_orders(rng, _probe("IPPO", ID_SETS[4], exact=True, okind="vector", akind="box"), "interleave")],
        "members_in_input_order": [only_next_obs(ID_SETS[1], ID_SETS[1][::-1]),
                                   with_agent_key_orders(rng, _probe("IPPO", ID_SETS[2], exact=True, okind="vector"), "free")],
    }
    k_loops = {"first_seen": gen_loop_case(lrng, "IPPO", True, 4, 2, 2, ID_SETS[3], key_order="interleave"),
               "members_in_input_order": gen_loop_case(lrng, "IPPO", False, 5, 1, 2, ID_SETS[1], key_order="free")}
    orig_asm = ippo_mod.IPPO.assemble_shared_inputs
    for fault, what in ((first_seen, "policy groups in the order their agents first appear in each rollout dict"),
                        (members_in_input_order, "members of a policy group in the key order of each rollout dict")):
        ippo_mod.IPPO.assemble_shared_inputs = fault
        try:
            hits = [bool(o["problems"]) or o["diff"] is not None
                    for o in (one_case(chk, c, random.Random(5)) for c in k_probes[fault.__name__])]
            ol = run_loop_case(chk, k_loops[fault.__name__])
            hits.append(bool(ol["problems"]) or ol["diff"] is not None)
        finally:
            ippo_mod.IPPO.assemble_shared_inputs = orig_asm
        if not all(hits):
            raise InfraError(f"C17 self-test: IPPO {what} was not noticed ({hits}: next_obs alone out of order, all eight "
                             "dicts in their own order, training loop on an env returning dicts in its own key order)")
        chk.notes.append(f"self-test: IPPO {what} detected (direct rollouts and the loop suite)")

    def positional_stack(*exps, **kw):
        fixed = []
        for x in exps:
            if isinstance(x, list) and x and isinstance(x[0], dict):
                x = [dict(zip(x[0].keys(), it.values())) for it in x]
            fixed.append(x)
        return orig_stack_p(*fixed, **kw)
    d_probes = []
    for algo, ids in (("PPO", None), ("IPPO", ID_SETS[1])):
        d_probes.append(with_obs_key_orders(rng, _probe(algo, ids, exact=True, okind="dict2"), same_shape_only=True))
    ppo_mod.stack_experiences = ippo_mod.stack_experiences = positional_stack
    try:
        outs = [one_case(chk, c, random.Random(5)) for c in d_probes]
    finally:
        ppo_mod.stack_experiences, ippo_mod.stack_experiences = orig_stack_p, orig_stack_i
    if not all(any(p.startswith("[rows]") for p in o["problems"]) for o in outs):
        raise InfraError("C17 self-test: per-step observation dicts transposed by position (components of equal shape under "
                         f"the wrong keys) were not noticed as mixed rows ({[o['problems'][:1] for o in outs]})")
    chk.notes.append("self-test: Dict observations stacked by position under the first step's keys detected (PPO, IPPO)")

    # D18: the critic's copy of the shared encoder is not brought up to date after learning
    orig_share = ppo_mod.PPO.share_encoder_parameters
    state = {"n": 0}

    def stale_share(self):
        state["n"] += 1
        if state["n"] <= 1:                              # only the call made by the constructor
            return orig_share(self)
    ppo_mod.PPO.share_encoder_parameters = stale_share
    try:
        found = probe_bootstrap(chk, random.Random(7), 3, report=False)
    finally:
        ppo_mod.PPO.share_encoder_parameters = orig_share
    if not found:
        raise InfraError("C17 self-test: a stale critic copy of the shared encoder (D18) was not noticed")
    chk.notes.append("self-test: stale shared encoder in the PPO critic (D18) detected by the bootstrap probe")


# ----------------------------------------------------------------------------- replay
def replay(chk: Check, path: str) -> int:
    c = json.loads(open(path).read())
    c = c.get("replay", c)
    if c.get("probe") == "bootstrap":
        torch.set_num_threads(1)
        found = probe_bootstrap(chk, random.Random(c.get("seed", 0)), 3, report=False)
        print(json.dumps({"bootstrap_problems": found}, indent=1))
        if found:
            print(f"VIOLATION property=C17 replay={path}")
        return 1 if found else 0
    case = c.get("case", c)
    hooks()
    torch.set_num_threads(1)
    if case.get("suite") == "relayout":
        o = run_relayout_case(chk, case)
        print(json.dumps({"case": case, "oracle_problems": o["problems"], "diff_at": o["diff"], "impl": o["impl"],
                          "model": o["model"]}, indent=1))
        if o["problems"]:
            print(f"VIOLATION property=C17 replay={path}")
            print(f"  -> {o['problems'][0]}"[:600])
            return 1
        if o["diff"] is not None:
            print(f"VIOLATION property=C17 replay={path} no-failing-input-found")
            return 1
        return 0
    if case.get("suite") == "loop":
        o = run_loop_case(chk, case)
        print(json.dumps({"case": {k: case[k] for k in ("suite", "algo", "vec", "T", "E", "R", "ids", "gamma", "lam")},
                          "schedules": case["schedules"], "rollouts": o["rollouts"], "diff_at": o["diff"],
                          "oracle_problems": o["problems"], "impl": o["impl"], "model": o["model"]}, indent=1))
        if o["problems"]:
            print(f"VIOLATION property=C17 replay={path}")
            print(f"  -> {o['problems'][0]}"[:600])
            return 1
        if o["diff"] is not None:
            print(f"VIOLATION property=C17 replay={path} no-failing-input-found")
            return 1
        return 0
    o = one_case(chk, case, random.Random(case["seed"]))
    print(json.dumps({"case": {k: case[k] for k in ("algo", "ids", "T", "E", "vec", "gamma", "lam", "akind", "exact")},
                      "diff_at": o["diff"], "oracle_problems": o["problems"],
                      "impl": o["impl"], "model": o["model"]}, indent=1))
    if o["problems"]:
        print(f"VIOLATION property=C17 replay={path}")
        print(f"  -> {o['problems'][0]}"[:600])
        return 1
    if o["diff"] is not None:
        print(f"VIOLATION property=C17 replay={path} no-failing-input-found")
        return 1
    return 0
