"""
C18 — Rainbow's distributional target conserves probability mass and expected value.

Correspondence ("stub" suite): the real `RainbowDQN._dqn_loss` / `learn(per, n-step, combined)` is
run with the forward passes of `actor` / `actor_target` replaced by table look-ups (the observation
carries a row id) that return prescribed dyadic q-values, target distributions and log-probabilities.
With the probes `log p = -e_k` the element-wise loss *is* the k-th entry of the projected
distribution, so the whole `B x N` projection is read back exactly and compared, as exact
rationals, with `Model/C51.lean` (`c51 proj`); `learn` is compared on element-wise losses,
returned indices and priorities (`c51 learn`).  All inputs are dyadic with few bits, Δ is a power
of two, so every float32 operation of the implementation is exact.

Oracle (independent of the Lean model): mass and mean of every read-back row against the source
distribution of the greedy action / the clipped Bellman targets (Python `Fraction`s), row `i` of
the batch against the same transition projected alone, priorities against the cross-entropy of the
read-back projection.  "real" suite: real networks with random and deliberately peaked weights
(head weights x10..x50, so that atoms fall below the 1e-3 floor) and arbitrary float
configurations incl. asymmetric supports that exclude 0, tolerance 1e-5: the q-values a network
returns are the expectation of the distributions it returns, the greedy next action is the
arg-max of those means, mass / mean / priorities as above.

Hyper-parameters are mutable by design: in both suites most agents get their `gamma` / `n_step`
AFTER construction (direct assignment, or a real `Mutations.rl_hyperparam_mutation` with gamma and
n_step registered as RLParameters); model and oracle are always told the agent's CURRENT values.

Probes for the two repaired defects (float32 overflow of `b`, `self.batch_size` broadcast) go
through `chk.finding`.

Source translation (`pre_gate`, before the Lean gate): `py2lean_c51.py` translates `RainbowDQN.__init__` (support,
delta_z), `_dqn_loss` (per batch row, by symbolic execution with shape / dtype inference: the clamped Bellman shift,
`b`, floor / ceil, the two sequential masked fix-ups, the row offsets recognised as `i * num_atoms`, the two
`index_add_` scatters, which network is asked for what, the loss) and `learn` (which batch feeds which call, gamma vs
gamma ** n_step, the combination, `+ prior_eps`, the indices) from the source text of the tree under test into
`lean/Gen/C51Gen.lean`; `Proofs/C51GenEq.lean` proves the generated definitions equal to `bpos`, `lowUp`, `projOne`,
`Sample.row`, the cross-entropy and `learn` of the model and `Props/C18.lean` restates the theorems over them
(`C18_source_translation_*`).  If the translator rejects the source or those proofs stop checking, that is a gate
problem naming the broken equality; the stub suite below (exact read-back of every projected row, element-wise
losses, indices, priorities; mass / mean / alone oracles) then supplies the failing input.

Dueling head ("duel" suite; `py2lean_dueling.py` -> `lean/Gen/DuelingGen.lean`, `Proofs/DuelingGenEq.lean`,
`C18_dueling_*` / `C18_source_translation_dueling_*`): real `RainbowQNetwork`s (1..4 actions, 2..11 atoms, batch 1..3),
as constructed and after `recreate_network` / `clone` / the head's own `recreate_network` / `add_node` /
`add_latent_node`.  "fed" cases: forward hooks on the head's two sub-networks return prescribed dyadic float64 logits
(small, peaked so that atoms fall below the 1e-3 floor, flat, wide), so the real `forward` runs in float64; "real"
cases: the hooks record what the (optionally sharpened) float32 sub-networks return.  Per batch row the model
(`c51 duel new / comb / exp / logz / fwd`, namespace `Duel` of Model/C51.lean) gets the same logits as exact rationals,
computes the combined logits exactly, receives `exp` of them and `log` of the row sums as float64 values from Python's
`math` (the harness recomputes the combined logits and row sums and requires them to EQUAL the model's, so the tables
are keyed by the model's own numbers) and returns `forward` for the four flag combinations; compared within 1e-9
(fed) / 2e-5 (real).  Oracle on the implementation's own outputs: shapes, every entry >= 1e-3, mass in
[1, 1 + N*1e-3], q = sum_j dist_j * support_j, argmax(q=True) = argmax of those expectations, exp(log=True) sums to
one, log=True = log(q=False) above the floor and <= log(1e-3) at the floor, `q` ignored under `log`, the dueling
identity (mean over actions of log-probabilities minus the value logits is constant over the atoms), and num_atoms /
num_actions / support of the head after every rebuild.
"""
from __future__ import annotations

import json
import math
import random
from fractions import Fraction as F

import numpy as np
import torch

from common import ROOT, Check, InfraError, ddmin, frac

FID_OVERFLOW = "C18-float32-top-atom-overflow"
FID_BATCH = "C18-batch-size-broadcast"
PRIOR_EPS = 2.0 ** -10
TOL = 1e-5


# ----------------------------------------------------------------------------- building blocks
def make_agent(N, vmin, vmax, gamma, n_step, combined, bs, A, obs_dim=1, hp=None):
    from gymnasium import spaces
    from agilerl.algorithms.dqn_rainbow import RainbowDQN
    hp_config = None
    if hp is not None:
        from agilerl.algorithms.core.registry import HyperparameterConfig, RLParameter
        hp_config = HyperparameterConfig(**{
            k: RLParameter(**{**v, "dtype": int if v.get("dtype") == "int" else float}) for k, v in hp.items()})
    return RainbowDQN(
        spaces.Box(-1e6, 1e6, (obs_dim,), np.float32), spaces.Discrete(A), hp_config=hp_config, batch_size=bs,
        num_atoms=N, v_min=vmin, v_max=vmax, gamma=gamma, n_step=n_step, combined_reward=combined,
        prior_eps=PRIOR_EPS,
        net_config={"encoder_config": {"hidden_size": [8]}, "head_config": {"hidden_size": [16]}},
    )


def build_agent(case, bs, A, obs_dim=1):
    """construct the agent with the case's INITIAL hyper-parameters, then change gamma / n_step the
    way the case says (hyper-parameters are mutable by design: direct assignment, or a real
    `Mutations.rl_hyperparam_mutation`); returns (agent, current gamma, current n_step)"""
    via = case.get("via", "ctor")
    g0 = case.get("gamma_init", case["gamma"]) if via != "ctor" else case["gamma"]
    n0 = case.get("n_step_init", case["n_step"]) if via != "ctor" else case["n_step"]
    agent = make_agent(case["N"], case["vmin"], case["vmax"], g0, n0, case["combined"], bs, A, obs_dim,
                       hp=case.get("hp") if via == "mutation" else None)
    if via == "assign":
        agent.gamma = case["gamma"]
        agent.n_step = case["n_step"]
    elif via == "mutation":
        from agilerl.hpo.mutation import Mutations
        torch.manual_seed(case.get("seed", 0) + 17)
        muts = Mutations(0, 0, 0, 0, 0, 1.0, rand_seed=case.get("seed", 0) % 1000)
        for _ in range(case.get("n_mut", 3)):
            agent = muts.rl_hyperparam_mutation(agent)
    return agent, float(agent.gamma), int(agent.n_step)


class Tables:
    """what the stubbed forward passes return, indexed by the id carried in obs[:, 0]"""

    def __init__(self, n_ids, A, N):
        self.q_on = torch.zeros(n_ids, A)
        self.q_tg = torch.zeros(n_ids, A)
        self.p_on = torch.zeros(n_ids, A, N)
        self.p_tg = torch.zeros(n_ids, A, N)
        self.lp_on = torch.zeros(n_ids, A, N)
        self.lp_tg = torch.zeros(n_ids, A, N)


def install_stubs(agent, tb: Tables):
    def fwd(q_tab, p_tab, lp_tab):
        def f(obs, q=True, log=False):
            ids = obs[:, 0].long()
            if log:
                return lp_tab[ids].clone().requires_grad_(True)
            if q:
                return q_tab[ids].clone()
            return p_tab[ids].clone()
        return f
    agent.actor.forward = fwd(tb.q_on, tb.p_on, tb.lp_on)
    agent.actor_target.forward = fwd(tb.q_tg, tb.p_tg, tb.lp_tg)


def batch_td(rows, base_id, B, per):
    """TensorDict as a (prioritised / n-step) buffer hands it to `learn`: (B,1) columns"""
    from tensordict import TensorDict
    d = {
        "obs": torch.tensor([[float(base_id + i)] for i in range(B)]),
        "action": torch.tensor([[float(r["a"])] for r in rows]),
        "reward": torch.tensor([[float(r["r"])] for r in rows]),
        "next_obs": torch.tensor([[float(base_id + B + i)] for i in range(B)]),
        "done": torch.tensor([[float(r["d"])] for r in rows]),
        "idxs": torch.tensor([int(r["idx"]) for r in rows]),
    }
    if per:
        # importance weights as the PER buffer hands them out, (B, 1), or flat (B,); never all one,
        # so that priorities which depend on them are visible
        w = torch.tensor([[0.25, 0.5, 0.75, 1.0][(int(r["idx"]) + i) % 4] for i, r in enumerate(rows)])
        d["weights"] = w.unsqueeze(1) if sum(int(r["idx"]) for r in rows) % 2 else w
    return TensorDict(d, batch_size=[B])


def fill_tables(tb: Tables, rows, base_id, B):
    for i, r in enumerate(rows):
        nid, oid = base_id + B + i, base_id + i
        tb.q_on[nid] = torch.tensor(r["q"])
        tb.q_tg[nid] = torch.tensor(r["q_decoy"])
        tb.p_tg[nid] = torch.tensor(r["pT"])
        tb.p_on[nid] = torch.tensor(r["p_decoy"])
        tb.lp_on[oid] = torch.tensor(r["lp"])
        tb.lp_tg[oid] = torch.tensor(r["lp_decoy"])


def read_projection(agent, td, gamma_eff, lp_table, N):
    """B x N matrix of floats: loss under the probes log p = -e_k is proj[:, k]"""
    saved = lp_table.clone()
    cols = []
    try:
        for k in range(N):
            lp_table.zero_()
            lp_table[:, :, k] = -1.0
            with torch.no_grad():
                el = agent._dqn_loss(td["obs"], td["action"], td["reward"], td["next_obs"], td["done"], gamma_eff)
            cols.append(el.detach().reshape(-1).to(torch.float64).tolist())
    finally:
        lp_table.copy_(saved)
    B = len(cols[0])
    return [[cols[k][i] for k in range(N)] for i in range(B)]


def fr(x) -> F:
    return F(x)


def show(q: F) -> str:
    return str(q.numerator) if q.denominator == 1 else f"{q.numerator}/{q.denominator}"


def show_rows(m) -> str:
    return " | ".join(" ".join(show(F(x)) for x in row) for row in m)


def greedy_py(q):
    best = 0
    for i, x in enumerate(q):
        if x > q[best]:
            best = i
    return best


# ----------------------------------------------------------------------------- one stub case
def sample_line(slot, r, N):
    A = len(r["q"])
    xs = [frac(x) for x in r["q"]]
    xs += [frac(x) for row in r["pT"] for x in row]
    xs += [frac(x) for row in r["lp"] for x in row]
    return f"c51 sample {slot} {frac(r['r'])} {frac(r['d'])} {r['a']} {r['idx']} {A} " + " ".join(xs)


def model_lines(case, gamma, n_step):
    """`gamma`, `n_step`: the agent's CURRENT hyper-parameters (after any post-construction change)"""
    N, g, n = case["N"], F(gamma), n_step
    lines = [f"c51 cfg {N} {frac(case['vmin'])} {frac(case['vmax'])}",
             f"c51 hyper {frac(gamma)} {n} {int(case['combined'])} {frac(PRIOR_EPS)}",
             "c51 support"]
    lines += [sample_line(0, r, N) for r in case["one"]]
    if case["nstep_on"]:
        lines += [sample_line(1, r, N) for r in case["nst"]]
    lines.append(f"c51 proj 0 {show(g)}")
    if case["nstep_on"]:
        lines.append(f"c51 proj 1 {show(g ** n)}")
    lines.append(f"c51 learn {int(case['per'])} {int(case['nstep_on'])}")
    return lines


def run_impl(case, dqn_loss_override=None):
    """drive the real implementation; returns (observable lines, raw dict)"""
    N, A = case["N"], case["A"]
    B = len(case["one"])
    bs = case.get("bs", B)
    torch.manual_seed(case.get("seed", 0))
    agent, gamma, n_step = build_agent(case, bs, A)
    if dqn_loss_override is not None:
        agent._dqn_loss = dqn_loss_override.__get__(agent)
    tb = Tables(4 * B, A, N)
    fill_tables(tb, case["one"], 0, B)
    if case["nstep_on"]:
        fill_tables(tb, case["nst"], 2 * B, B)
    install_stubs(agent, tb)
    td1 = batch_td(case["one"], 0, B, case["per"])
    tdn = batch_td(case["nst"], 2 * B, B, case["per"]) if case["nstep_on"] else None
    raw = {"support": [float(x) for x in agent.support.to(torch.float64).tolist()], "gamma": gamma, "n_step": n_step}
    obs = ["ok", "ok", " ".join(show(F(x)) for x in raw["support"])]
    obs += ["ok"] * (B * (2 if case["nstep_on"] else 1))
    raw["proj0"] = read_projection(agent, td1, gamma, tb.lp_on, N)
    obs.append(show_rows(raw["proj0"]))
    if case["nstep_on"]:
        raw["proj1"] = read_projection(agent, tdn, gamma ** n_step, tb.lp_on, N)
        obs.append(show_rows(raw["proj1"]))
    # learn, spying on the element-wise losses at the `_dqn_loss` seam
    captured, gammas = [], []
    inner = agent._dqn_loss

    def spy(*a, **k):
        out = inner(*a, **k)
        captured.append(out.detach().clone().reshape(-1).to(torch.float64).tolist())
        gammas.append(float(a[5] if len(a) > 5 else k["gamma"]))
        return out
    agent._dqn_loss = spy
    loss, idxs, prio = agent.learn(td1, tdn, per=case["per"]) if case["nstep_on"] else agent.learn(td1, per=case["per"])
    if case["nstep_on"] and case["combined"] and len(captured) == 2:
        el = [a + b for a, b in zip(*captured)]
    else:
        el = captured[-1]
    raw.update(el=el, loss=float(loss), gammas=gammas,
               idxs=None if idxs is None else [int(i) for i in torch.as_tensor(idxs).reshape(-1).tolist()],
               prio=None if prio is None else [float(x) for x in np.asarray(prio, dtype=np.float64).reshape(-1)])
    raw["agent"] = agent
    raw["tables"] = tb
    raw["td1"], raw["tdn"] = td1, tdn
    s_el = " ".join(show(F(x)) for x in el)
    s_idx = "none" if raw["idxs"] is None else " ".join(map(str, raw["idxs"]))
    s_pr = "none" if raw["prio"] is None else " ".join(show(F(x)) for x in raw["prio"])
    s_loss = "none" if case["per"] else show(F(raw["loss"]))
    obs.append(f"el {s_el} ; loss {s_loss} ; idxs {s_idx} ; prio {s_pr}")
    return obs, raw


def parse_nums(s):
    return [F(w) for w in s.split()]


def lines_equal(a: str, b: str, tol: float, scale: float) -> bool:
    """exact when tol == 0; otherwise numeric fields within tol*scale (structure must match)"""
    if a == b:
        return True
    wa, wb = a.split(), b.split()
    if len(wa) != len(wb):
        return False
    for x, y in zip(wa, wb):
        if x == y:
            continue
        try:
            fx, fy = F(x), F(y)
        except (ValueError, ZeroDivisionError):
            return False
        if tol == 0 or abs(fx - fy) > tol * scale:
            return False
    return True


def canon_loss(impl_line: str, model_line: str) -> str:
    """the scalar `loss` is a mean (division by B, another reduction order): compare with a
    relative tolerance and, when it agrees, adopt the model's spelling"""
    try:
        ia, ib = impl_line.split(" ; "), model_line.split(" ; ")
        if ia[1].startswith("loss ") and ib[1].startswith("loss ") and ia[1] != ib[1] \
                and "none" not in (ia[1], ib[1]):
            x, y = F(ia[1].split()[1]), F(ib[1].split()[1])
            if abs(x - y) <= 2e-6 * max(1, abs(y)):
                ia[1] = ib[1]
                return " ; ".join(ia)
    except Exception:
        pass
    return impl_line


def oracle(case, raw):
    """the property itself on the implementation's own outputs (no Lean model involved)"""
    problems = []
    N, vmin, vmax = case["N"], F(case["vmin"]), F(case["vmax"])
    delta = (vmax - vmin) / (N - 1)
    z = [vmin + j * delta for j in range(N)]
    tol = F(0) if case.get("exact", True) else F(TOL)
    scale = max(1, abs(vmin), abs(vmax))
    got_z = [F(x) for x in raw["support"]]
    if any(abs(a - b) > tol * scale for a, b in zip(got_z, z)) or len(got_z) != N:
        problems.append(f"support {raw['support']} is not linspace(v_min, v_max, N)")

    def check(rows, proj, g, tag):
        ces = []
        for i, r in enumerate(rows):
            p = [F(x) for x in r["pT"][greedy_py(r["q"])]]
            row = [F(x) for x in proj[i]]
            mass_scale = max(1, sum(abs(x) for x in p))
            if abs(sum(row) - sum(p)) > tol * mass_scale:
                problems.append(f"{tag} row {i}: mass {float(sum(row))} != source mass {float(sum(p))}")
            tz = [min(max(F(r["r"]) + (1 - F(r["d"])) * g * zj, vmin), vmax) for zj in z]
            m_proj = sum(a * b for a, b in zip(row, z))
            m_src = sum(a * b for a, b in zip(p, tz))
            if abs(m_proj - m_src) > tol * scale * mass_scale:
                problems.append(f"{tag} row {i}: mean {float(m_proj)} != clipped target mean {float(m_src)}")
            if any(x < -tol for x in row):
                problems.append(f"{tag} row {i}: negative entry in the projected distribution")
            ces.append(-sum(a * F(b) for a, b in zip(row, r["lp"][r["a"]])))
        return ces

    g, n_step = F(raw["gamma"]), raw["n_step"]
    ce1 = check(case["one"], raw["proj0"], g, "1-step")
    cen = check(case["nst"], raw["proj1"], g ** n_step, "n-step") if case["nstep_on"] else None
    want = ce1 if not case["nstep_on"] else ([a + b for a, b in zip(ce1, cen)] if case["combined"] else cen)
    el = [F(x) for x in raw["el"]]
    ptol = tol * 50
    if len(el) != len(want) or any(abs(a - b) > ptol * max(1, abs(b)) for a, b in zip(el, want)):
        problems.append(f"element-wise loss {[float(x) for x in el]} is not the cross-entropy "
                        f"{[float(x) for x in want]} (n-step={case['nstep_on']}, combined={case['combined']})")
    if case["per"]:
        pr = None if raw["prio"] is None else [F(x) for x in raw["prio"]]
        if pr is None or len(pr) != len(want) or \
                any(abs(a - (b + F(PRIOR_EPS))) > ptol * max(1, abs(b)) for a, b in zip(pr, want)):
            problems.append(f"priorities {raw['prio']} are not cross-entropy + prior_eps "
                            f"{[float(x + F(PRIOR_EPS)) for x in want]}")
        if raw["idxs"] != [r["idx"] for r in case["one"]]:
            problems.append(f"indices returned with the priorities {raw['idxs']} are not the batch's own")
    elif raw["prio"] is not None:
        problems.append("priorities returned although per=False")
    exp_g = ([raw["gamma"]] if (case["combined"] or not case["nstep_on"]) else []) + \
            ([raw["gamma"] ** n_step] if case["nstep_on"] else [])
    if len(raw["gammas"]) != len(exp_g) or any(abs(a - b) > 1e-12 for a, b in zip(raw["gammas"], exp_g)):
        problems.append(f"_dqn_loss was called with discounts {raw['gammas']}, expected {exp_g} "
                        f"(current gamma={raw['gamma']}, n_step={n_step}, set via {case.get('via', 'ctor')})")
    return problems


def alone_oracle(case, raw, which_row):
    """row independence on the implementation: the same transition projected in a batch of one"""
    B = len(case["one"])
    if B == 1:
        return []
    sub = restrict(case, [which_row])
    sub["nstep_on"] = False
    sub["bs"] = 1
    try:
        _, raw1 = run_impl(sub)
    except Exception as e:  # noqa: BLE001
        return [f"single-row batch raised {type(e).__name__}: {e}"]
    a, b = raw1["proj0"][0], raw["proj0"][which_row]
    tol = 0 if case.get("exact", True) else TOL
    if any(abs(x - y) > tol for x, y in zip(a, b)):
        return [f"row {which_row} of the batched projection {b} differs from the same transition projected alone {a}"]
    return []


def restrict(case, keep):
    c = dict(case)
    c["one"] = [case["one"][i] for i in keep]
    if case.get("nst") is not None:
        c["nst"] = [case["nst"][i] for i in keep]
    if "bs" in c and c["bs"] == len(case["one"]):
        c["bs"] = len(keep)
    return c


def driver_run(chk: Check, lines):
    """the driver executable is re-linked whenever any model file changes; while that happens (a
    concurrent `lake build`) it is briefly absent — wait for it instead of failing the run"""
    import time
    for _ in range(24):
        if chk.driver.exe.exists():
            try:
                return chk.driver.run(lines)
            except (InfraError, OSError):
                pass
        time.sleep(5)
    return chk.driver.run(lines)


def one_case(chk: Check, case, override=None, with_alone=True):
    """returns dict(diff=index|None, problems=[...], impl=[...], model=[...], raised=str|None)"""
    exact = case.get("exact", True)
    try:
        impl, raw = run_impl(case, override)
    except Exception as e:  # noqa: BLE001 - the implementation raised on a legal input
        return {"diff": None, "problems": [f"implementation raised {type(e).__name__}: {e}"],
                "impl": [], "model": [], "raised": type(e).__name__}
    mlines = model_lines(case, raw["gamma"], raw["n_step"])
    model = driver_run(chk, ["reset"] + mlines)[1:]
    chk.corr["model_lines"] += len(mlines)
    if len(impl) != len(model):
        raise InfraError(f"C18: {len(impl)} implementation observables for {len(model)} model lines")
    impl[-1] = canon_loss(impl[-1], model[-1])
    scale = max(1.0, abs(case["vmin"]), abs(case["vmax"]))
    diff = next((i for i, (a, b) in enumerate(zip(impl, model))
                 if not lines_equal(a, b, 0 if exact else TOL, scale)), None)
    problems = oracle(case, raw)
    if with_alone and not problems:
        problems += alone_oracle(case, raw, case.get("alone_row", 0) % len(case["one"]))
    return {"diff": diff, "problems": problems, "impl": impl, "model": model, "raised": None,
            "gamma": raw["gamma"], "n_step": raw["n_step"]}


# ----------------------------------------------------------------------------- generator
def gen_rows(rng: random.Random, B, A, N, vmin, delta, g_eff: F, heavy=False):
    vmax = vmin + (N - 1) * delta
    z = [vmin + j * delta for j in range(N)]
    rows, tags = [], []
    for _ in range(B):
        d = 1 if rng.random() < 0.3 else 0
        mode = rng.choice(["inside", "inside", "on-atom", "on-atom", "above", "below", "edge"])
        if mode == "inside":
            r = F(rng.randint(int((vmin - delta) * 16), int((vmax + delta) * 16)), 16)
        elif mode == "on-atom":
            # some atom's target lands exactly on an atom: r + (1-d) g z_j = z_k
            j, k = rng.randrange(N), rng.randrange(N)
            r = z[k] - (1 - d) * g_eff * z[j]
        elif mode == "above":
            r = vmax + F(rng.randint(1, 64), 4) + abs(vmin)
        elif mode == "below":
            r = vmin - F(rng.randint(1, 64), 4) - abs(vmax)
        else:
            r = rng.choice([vmin, vmax])
        if abs(r) > 400:
            r = F(400 if r > 0 else -400)
        tags.append(f"reward-{mode}")
        tags.append("done-1" if d else "done-0")
        qs = rng.sample(range(-8, 9), A)
        qd = qs[:]
        rng.shuffle(qd)
        if A > 1 and greedy_py(qd) == greedy_py(qs):
            qd[greedy_py(qd)] -= 20

        def dist():
            style = rng.random()
            v = [0] * N
            if style < 0.25:                       # point mass
                v[rng.randrange(N)] = 32
            elif style < 0.5:                      # few atoms
                for _ in range(rng.randint(1, 4)):
                    v[rng.randrange(N)] += rng.randint(1, 16)
            else:                                  # spread, deliberately not normalised
                budget = rng.randint(24, 64)
                for _ in range(budget):
                    v[rng.randrange(N)] += 1
            return [x / 32.0 for x in v]
        rows.append({
            "r": float(r), "d": d, "a": rng.randrange(A), "idx": rng.randrange(1000),
            "q": [float(x) for x in qs], "q_decoy": [float(x) for x in qd],
            "pT": [dist() for _ in range(A)], "p_decoy": [dist() for _ in range(A)],
            "lp": [[-float(rng.randint(0, 7)) for _ in range(N)] for _ in range(A)],
            "lp_decoy": [[-float(rng.randint(0, 7)) for _ in range(N)] for _ in range(A)],
        })
    return rows, tags


def gen_case(rng: random.Random, tier: str):
    if rng.random() < 0.7:
        N = rng.choice([2, 3, 4, 5, 5, 6, 7, 9, 11, 17, 33, 51] if tier == "thorough" else [2, 3, 4, 5, 5, 6, 7, 9, 11, 17])
    else:
        N = rng.randint(2, 51 if tier == "thorough" else 24)
    e = rng.choice([-3, -2, -1, 0, 0, 1, 2])
    delta = F(2) ** e
    vmin = F(rng.randint(-96, 64), 8)
    if rng.random() < 0.3:
        vmin = -F(N - 1) * delta / 2 if ((N - 1) * delta / 2).denominator <= 8 else vmin   # symmetric support
    vmax = vmin + (N - 1) * delta
    gamma = rng.choice([F(1, 2), F(1, 2), F(1, 4), F(3, 4), F(1)])
    n_step = rng.choice([1, 2, 3])
    nstep_on = rng.random() < 0.6
    combined = rng.random() < 0.5
    per = rng.random() < 0.6
    A = rng.choice([1, 2, 2, 3, 4])
    B = rng.choice([1, 2, 3, 4, 5, 6])
    one, t1 = gen_rows(rng, B, A, N, vmin, delta, gamma)
    nst, t2 = gen_rows(rng, B, A, N, vmin, delta, gamma ** n_step) if nstep_on else (None, [])
    case = {"kind": "stub", "exact": True, "N": N, "vmin": float(vmin), "vmax": float(vmax), "gamma": float(gamma),
            "n_step": n_step, "nstep_on": nstep_on, "combined": combined, "per": per, "A": A,
            "one": one, "nst": nst, "seed": rng.randrange(1 << 30), "alone_row": rng.randrange(B)}
    # hyper-parameters are mutable: most agents get their gamma / n_step AFTER construction
    u = rng.random()
    if u < 0.45:
        case.update(via="assign", gamma_init=float(rng.choice([x for x in (F(1, 2), F(1, 4), F(3, 4), F(1), F(7, 8))
                                                               if x != gamma])),
                    n_step_init=rng.choice([n for n in (1, 2, 3, 5) if n != n_step]))
    elif u < 0.75:
        g0 = rng.choice([0.25, 0.5, 1.0])
        case.update(via="mutation", gamma=g0, gamma_init=g0, n_step_init=n_step, n_mut=rng.choice([1, 2, 3, 4]),
                    hp={"gamma": {"min": 0.25, "max": 1.0, "shrink_factor": 0.5, "grow_factor": 2.0},
                        "n_step": {"min": 1, "max": 3, "shrink_factor": 0.5, "grow_factor": 2.0, "dtype": "int"}})
    else:
        case["via"] = "ctor"
    tags = t1 + t2 + [f"atoms-{'2-5' if N <= 5 else '6-17' if N <= 17 else '18-51'}", f"batch-{B}",
                      "per" if per else "uniform",
                      ("combined" if combined else "n-step-only") if nstep_on else "1-step-only",
                      f"n_step-{n_step}" if nstep_on else "n_step-off", f"hp-via-{case['via']}"]
    return case, tags


def classify_fixups(case, gamma=None, n_step=None):
    """which branches of the two fix-ups the case reaches (from exact arithmetic)"""
    gamma = case["gamma"] if gamma is None else gamma
    n_step = case["n_step"] if n_step is None else n_step
    N, vmin, vmax = case["N"], F(case["vmin"]), F(case["vmax"])
    delta = (vmax - vmin) / (N - 1)
    tags = set()
    for rows, g in ((case["one"], F(gamma)),
                    (case["nst"] or [], F(gamma) ** n_step)):
        for r in rows:
            for j in range(N):
                t = min(max(F(r["r"]) + (1 - F(r["d"])) * g * (vmin + j * delta), vmin), vmax)
                b = (t - vmin) / delta
                if b.denominator == 1:
                    tags.add("b-integral-0" if b == 0 else "b-integral-top" if b == N - 1 else "b-integral-mid")
                else:
                    tags.add("b-fractional")
    return sorted(tags)


# ----------------------------------------------------------------------------- real networks
def overflow_config(N, vmin, vmax) -> bool:
    """float32 `(v_max - v_min) / delta_z` lands above N-1 (the repaired defect's trigger)"""
    dz = (vmax - vmin) / (N - 1)
    b = (torch.full((1,), float(vmax)).clamp(min=vmin, max=vmax) - vmin) / dz
    return bool(b.item() > N - 1)


OVERFLOW_POOL = [(51, -10.0, 200.0), (4, 0.1, 3.0), (51, -9.0, 50.0), (101, -10.0, 200.0), (26, -10.0, 200.0),
                 (50, -10.0, 100.0), (5, 0.1, 0.3)]


def gen_real(rng: random.Random):
    u = rng.random()
    if u < 0.25:
        N, vmin, vmax = rng.choice(OVERFLOW_POOL)
    elif u < 0.5:
        # asymmetric supports, many of them excluding 0
        N = rng.choice([3, 5, 11, 21, 51, 101])
        vmin = rng.choice([10.0, 0.5, 1.0, 25.0, -60.0, -200.0, 0.0])
        vmax = vmin + rng.choice([50.0, 200.0, 7.5, 40.0])
        if vmin < 0 and rng.random() < 0.5:
            vmax = min(vmax, -1.0) if vmin < -1.0 else vmax
    else:
        N = rng.choice([2, 3, 5, 11, 21, 51, rng.randint(2, 60)])
        vmin = rng.choice([0.0, -1.0, -10.0, round(rng.uniform(-50, 5), rng.choice([0, 1, 2]))])
        vmax = vmin + rng.choice([1.0, 10.0, 20.0, 200.0, round(rng.uniform(0.5, 300), rng.choice([0, 1, 2]))])
    B = rng.randint(1, 6)
    A = rng.randint(1, 4)
    gamma = rng.choice([0.99, 0.9, 0.5, 1.0, round(rng.uniform(0.5, 1), 3)])
    n_step = rng.choice([1, 2, 3])
    dz = (vmax - vmin) / (N - 1)

    def rows():
        out = []
        for _ in range(B):
            mode = rng.choice(["inside", "on-atom", "above", "below", "top"])
            d = 1 if rng.random() < 0.4 else 0
            if mode == "inside":
                r = rng.uniform(vmin - dz, vmax + dz)
            elif mode == "on-atom":
                r = vmin + rng.randrange(N) * dz
            elif mode == "above":
                r = vmax + rng.uniform(0.1, 100) + abs(vmin)
            elif mode == "below":
                r = vmin - rng.uniform(0.1, 100) - abs(vmax)
            else:
                r, d = vmax, 1
            out.append({"r": float(np.float32(r)), "d": d, "a": rng.randrange(A), "idx": rng.randrange(1000)})
        return out
    case = {"kind": "real", "N": N, "vmin": vmin, "vmax": vmax, "gamma": gamma, "n_step": n_step,
            "nstep_on": rng.random() < 0.6, "combined": rng.random() < 0.5, "A": A,
            "one": rows(), "nst": rows(), "seed": rng.randrange(1 << 30),
            # peaked return distributions (atoms below the 1e-3 floor): head weights scaled up
            "peak": rng.choice([0, 0, 10.0, 20.0, 30.0, 50.0])}
    u = rng.random()
    if u < 0.4:
        case.update(via="assign", gamma_init=rng.choice([0.99, 0.5, 0.8]), n_step_init=rng.choice([1, 2, 3, 5]))
    elif u < 0.7:
        case.update(via="mutation", gamma_init=gamma, n_step_init=n_step, n_mut=rng.choice([1, 2, 3]),
                    hp={"gamma": {"min": 0.3, "max": 0.999}, "n_step": {"min": 1, "max": 5, "dtype": "int"}})
    else:
        case["via"] = "ctor"
    return case


def sharpen(agent, factor, seed):
    """scale the head weights so that the return distributions are peaked (online != target)"""
    gen = torch.Generator().manual_seed(seed)
    with torch.no_grad():
        for net, f in ((agent.actor, factor), (agent.actor_target, 0.7 * factor)):
            for name, prm in net.head_net.named_parameters():
                if "sigma" not in name:
                    prm.mul_(f)
                    prm.add_(0.05 * torch.randn(prm.shape, generator=gen))


def network_consistency(agent, xs, scale, problems, tags):
    """the q-values a Rainbow network returns are the expectation of the distributions it returns
    (so `actor(next).argmax(1)` is the greedy action w.r.t. the mean of the returned distributions)"""
    z = agent.support
    for name, net in (("actor", agent.actor), ("actor_target", agent.actor_target)):
        with torch.no_grad():
            q = net(xs)
            dist = net(xs, q=False)
            logp = net(xs, q=False, log=True)
        q2 = (dist * z).sum(2)
        mass = dist.sum(2)
        gap = ((q - q2).abs() / mass.clamp(min=1.0)).max().item()
        if float((dist <= 1e-3 + 1e-9).float().mean()) > 0:
            tags.append("real-floor-active")
        if not (gap <= TOL * scale):
            i = int(((q - q2).abs() / mass.clamp(min=1.0)).max(1).values.argmax())
            problems.append(f"{name}: q-values are not the expectation of the returned distributions: "
                            f"max gap {gap:.6g}; state {i}: q={[round(v, 5) for v in q[i].tolist()]} "
                            f"sum_k z_k p_k={[round(v, 5) for v in q2[i].tolist()]}; greedy differs on "
                            f"{int((q.argmax(1) != q2.argmax(1)).sum())}/{len(xs)} states")
        if tuple(dist.shape) != tuple(logp.shape) or bool((dist < 0).any()):
            problems.append(f"{name}: malformed distribution output {tuple(dist.shape)} / {tuple(logp.shape)}")


def run_real(case, tags=None):
    """real networks, random or peaked weights: oracle only (q = expectation of the returned
    distributions, greedy action, mass, mean, priorities = cross-entropy)"""
    tags = [] if tags is None else tags
    from tensordict import TensorDict
    N, A, B = case["N"], case["A"], len(case["one"])
    torch.manual_seed(case["seed"])
    agent, gamma, n_step = build_agent(case, case.get("bs", B), A, obs_dim=3)
    if case.get("via", "ctor") != "ctor":
        changed = (gamma, n_step) != (case.get("gamma_init"), case.get("n_step_init"))
        tags.append("real-hp-changed-after-ctor" if changed else "real-hp-unchanged")
    if case.get("peak"):
        sharpen(agent, float(case["peak"]), case["seed"] + 2)
        tags.append("real-peaked")
    gen = torch.Generator().manual_seed(case["seed"] + 1)
    problems = []
    vmin, vmax = case["vmin"], case["vmax"]
    z = np.linspace(vmin, vmax, N)
    scale = max(1.0, abs(vmin), abs(vmax))
    network_consistency(agent, torch.randn(96, 3, generator=gen), scale, problems, tags)
    real_fwd = agent.actor.forward
    probe = {"k": None}

    def fwd(obs, q=True, log=False):
        if log and probe["k"] is not None:
            out = torch.zeros(obs.shape[0], A, N)
            out[:, :, probe["k"]] = -1.0
            return out.requires_grad_(True)
        return real_fwd(obs, q=q, log=log)
    agent.actor.forward = fwd

    def td_of(rows):
        w = torch.tensor([[0.25, 0.5, 0.75, 1.0][(r["idx"] + i) % 4] for i, r in enumerate(rows)])
        return TensorDict({
            "obs": torch.randn(B, 3, generator=gen), "next_obs": torch.randn(B, 3, generator=gen),
            "action": torch.tensor([[float(r["a"])] for r in rows]),
            "reward": torch.tensor([[r["r"]] for r in rows], dtype=torch.float32),
            "done": torch.tensor([[float(r["d"])] for r in rows]),
            "idxs": torch.tensor([r["idx"] for r in rows]),
            "weights": w.unsqueeze(1) if case["seed"] % 2 else w}, batch_size=[B])

    def project(td, rows, g, tag):
        with torch.no_grad():
            # greedy next action = arg-max of the MEAN of the distributions the online network returns
            means = (agent.actor(td["next_obs"], q=False) * agent.support).sum(2)
            na = means.argmax(1)
            top2 = means.topk(min(2, A), dim=1).values
            if A > 1:
                tie = (top2[:, 0] - top2[:, 1]) <= 1e-4 * scale       # too close to call in float32
                na = torch.where(tie, agent.actor(td["next_obs"]).argmax(1), na)
            p = agent.actor_target(td["next_obs"], q=False)[range(B), na].to(torch.float64).numpy()
            logp = agent.actor(td["obs"], q=False, log=True)[range(B), [r["a"] for r in rows]].to(torch.float64).numpy()
        cols = []
        for k in range(N):
            probe["k"] = k
            with torch.no_grad():
                cols.append(agent._dqn_loss(td["obs"], td["action"], td["reward"], td["next_obs"], td["done"], g)
                            .to(torch.float64).numpy())
        probe["k"] = None
        proj = np.stack(cols, axis=1)
        if np.any(np.abs(p.sum(1) - 1.0) > 1e-4):
            tags.append("real-source-mass-not-1")
        for i, r in enumerate(rows):
            tz = np.clip(r["r"] + (1 - r["d"]) * g * z, vmin, vmax)
            if abs(proj[i].sum() - p[i].sum()) > TOL * max(1.0, p[i].sum()):
                problems.append(f"{tag} row {i}: mass {proj[i].sum()} != source mass {p[i].sum()}")
            if abs((proj[i] * z).sum() - (p[i] * tz).sum()) > TOL * scale * max(1.0, p[i].sum()):
                problems.append(f"{tag} row {i}: mean {(proj[i] * z).sum()} != clipped target mean {(p[i] * tz).sum()} "
                                f"(greedy action w.r.t. the returned distributions: {int(na[i])})")
            if proj[i].min() < -1e-7:
                problems.append(f"{tag} row {i}: negative entry {proj[i].min()}")
        return -(proj * logp).sum(1)
    td1, tdn = td_of(case["one"]), td_of(case["nst"])
    ce1 = project(td1, case["one"], gamma, "1-step")
    if case["nstep_on"]:
        cen = project(tdn, case["nst"], gamma ** n_step, "n-step")
        want = ce1 + cen if case["combined"] else cen
        _, idxs, prio = agent.learn(td1, tdn, per=True)
    else:
        want = ce1
        _, idxs, prio = agent.learn(td1, per=True)
    got = np.asarray(prio, dtype=np.float64).reshape(-1)
    if got.shape != want.shape or np.any(np.abs(got - (want + PRIOR_EPS)) > 1e-4 * np.maximum(1.0, np.abs(want))):
        problems.append(f"priorities {got.tolist()} are not cross-entropy + prior_eps {(want + PRIOR_EPS).tolist()} "
                        f"(current gamma={gamma}, n_step={n_step}, set via {case.get('via', 'ctor')}, "
                        f"n-step={case['nstep_on']}, combined={case['combined']})")
    if [int(i) for i in torch.as_tensor(idxs).reshape(-1).tolist()] != [r["idx"] for r in case["one"]]:
        problems.append("indices returned with the priorities are not the batch's own")
    return problems


def real_case(case, tags=None):
    try:
        return run_real(case, tags), None
    except Exception as e:  # noqa: BLE001
        return [f"implementation raised {type(e).__name__}: {e}"], type(e).__name__


# ----------------------------------------------------------------------------- probes (repaired defects)
def overflow_probe_case(last: bool):
    """51 atoms on [-10, 200]: float32 `b` at t_z = v_max is 50.0000038.  A terminal transition with a
    reward beyond v_max and a heavy (un-normalised) source vector, followed / preceded by an ordinary
    terminal transition.  Unrepaired: IndexError when the heavy row is last, otherwise its mass leaks
    into atom 0 of the next row."""
    N, A = 51, 1
    heavy = {"r": 250.0, "d": 1, "a": 0, "idx": 1, "q": [0.0], "q_decoy": [0.0], "pT": [[8.0] * N],
             "p_decoy": [[0.0] * N], "lp": [[-1.0] * N], "lp_decoy": [[0.0] * N]}
    plain = {"r": 1.0, "d": 1, "a": 0, "idx": 2, "q": [0.0], "q_decoy": [0.0], "pT": [[1.0 / 64] * N],
             "p_decoy": [[0.0] * N], "lp": [[-1.0] * N], "lp_decoy": [[0.0] * N]}
    rows = [plain, heavy] if last else [heavy, plain]
    return {"kind": "stub", "exact": False, "N": N, "vmin": -10.0, "vmax": 200.0, "gamma": 0.5, "n_step": 2,
            "nstep_on": False, "combined": False, "per": True, "A": A, "one": rows, "nst": None, "seed": 1,
            "finding": FID_OVERFLOW}


def batch_size_probe_case(bs: int, B: int, rng: random.Random):
    case, _ = gen_case(rng, "quick")
    while len(case["one"]) != B:
        case, _ = gen_case(rng, "quick")
    case["bs"] = bs
    case["finding"] = FID_BATCH
    return case


def report(chk: Check, case, res, origin=None):
    """verdict protocol for one failing case (already shrunk)"""
    replay = {k: v for k, v in case.items()}
    replay.update(impl=res.get("impl"), model=res.get("model"), oracle_problems=res.get("problems"),
                  correspondence="harness/c18.py vs Model/C51.lean", theorems=chk.gate["theorems"], origin=origin)
    fid = case.get("finding")
    # a probe case only counts as *that* repaired defect when its trigger is what makes it fail
    if fid == FID_BATCH and case.get("kind") != "real":
        plain = {k: v for k, v in case.items() if k not in ("bs", "finding")}
        r2 = one_case(chk, plain, with_alone=False)
        if r2["problems"] or r2["diff"] is not None:
            case, res, fid = plain, r2, None
            replay = dict(plain, impl=r2.get("impl"), model=r2.get("model"), oracle_problems=r2.get("problems"),
                          correspondence="harness/c18.py vs Model/C51.lean", theorems=chk.gate["theorems"], origin=origin)
    if fid == FID_OVERFLOW and res["problems"] and not any(
            k in res["problems"][0] for k in ("IndexError", ": mass ")):
        fid = None
        replay.pop("finding", None)
    if res["problems"]:
        what = res["problems"][0]
        if fid:
            chk.finding(fid, what, replay)
        else:
            chk.violation(what, replay)
    else:
        d = res["diff"]
        what = (f"implementation and C51 model disagree at line {d}: impl={res['impl'][d][:200]!r} "
                f"model={res['model'][d][:200]!r}; property oracle holds on this case and its shrinks")
        if fid:
            chk.finding(fid, what, replay)
        else:
            chk.violation(what, replay, no_input=True)


def shrink(chk: Check, case, res, override=None):
    B = len(case["one"])
    want_problem = bool(res["problems"])

    def still_fails(keep):
        r = one_case(chk, restrict(case, keep), override, with_alone=want_problem)
        return bool(r["problems"]) if want_problem else r["diff"] is not None
    keep = ddmin(list(range(B)), still_fails)
    small = restrict(case, keep)
    # drop the n-step half when it is not needed
    if small["nstep_on"]:
        cand = dict(small, nstep_on=False, nst=None)
        r = one_case(chk, cand, override, with_alone=want_problem)
        if (bool(r["problems"]) if want_problem else r["diff"] is not None):
            small = cand
    res2 = one_case(chk, small, override, with_alone=want_problem)
    if not (res2["problems"] or res2["diff"] is not None):
        return case, res
    return small, res2


def degenerate_configs(chk: Check):
    """configurations outside the theorems' hypotheses (N >= 2, v_min < v_max, n_step >= 1): the model
    answers `reject`; the implementation must raise — or, should it ever accept one, still conserve mass"""
    out = driver_run(chk, ["reset", "c51 cfg 1 0 1", "c51 cfg 5 1 1", "c51 cfg 5 2 1", "c51 cfg 5 0 1",
                           "c51 hyper 1/2 0 0 0", "c51 nonsense"])
    if out[1:] != ["reject", "reject", "reject", "ok", "reject", "bad-op"]:
        raise InfraError(f"C18: model does not reject degenerate configurations: {out}")
    row = {"r": 0.5, "d": 0, "a": 0, "idx": 0, "q": [0.0], "q_decoy": [0.0], "pT": [[0.5]], "p_decoy": [[0.0]],
           "lp": [[-1.0]], "lp_decoy": [[0.0]]}
    for N, vmin, vmax, n_step in [(1, 0.0, 1.0, 1), (5, 1.0, 1.0, 1), (5, 2.0, 1.0, 1), (5, 0.0, 1.0, 0)]:
        r = dict(row, pT=[[0.5] * N], p_decoy=[[0.0] * N], lp=[[-1.0] * N], lp_decoy=[[0.0] * N])
        case = {"kind": "stub", "exact": True, "N": N, "vmin": vmin, "vmax": vmax, "gamma": 0.5, "n_step": n_step,
                "nstep_on": False, "combined": False, "per": True, "A": 1, "one": [r], "nst": None, "seed": 0}
        try:
            _, raw = run_impl(case)
        except Exception as e:  # noqa: BLE001
            chk.case(["degenerate", N, vmin, vmax, n_step], nontrivial=False,
                     tags=[f"degenerate-rejected-{type(e).__name__}"])
            continue
        mass = sum(raw["proj0"][0])
        chk.case(["degenerate", N, vmin, vmax, n_step], nontrivial=False, tags=["degenerate-accepted"])
        if not (abs(mass - 0.5 * N) <= 1e-6):
            chk.violation(f"degenerate configuration N={N} v=[{vmin},{vmax}] n_step={n_step} is accepted and the "
                          f"projection has mass {mass} instead of {0.5 * N}", case)



# ----------------------------------------------------------------------------- dueling head suite
DUEL_TOL_FED = 1e-9       # float64 implementation vs exact model on float64 exp / log values
DUEL_TOL_REAL = 2e-5      # float32 implementation (real weights)
FLOOR = 1e-3


def duel_build(case):
    """a real RainbowQNetwork (tiny), optionally rebuilt / cloned / mutated; returns (net, support)"""
    from gymnasium import spaces
    from agilerl.networks.q_networks import RainbowQNetwork
    A, N = case["A"], case["N"]
    torch.manual_seed(case["seed"])
    np.random.seed(case["seed"] % (2 ** 31))
    random.seed(case["seed"])
    support = torch.linspace(case["vmin"], case["vmax"], N)
    net = RainbowQNetwork(spaces.Box(-1.0, 1.0, (3,), np.float32), spaces.Discrete(A), support=support,
                          num_atoms=N, latent_dim=8, encoder_config={"hidden_size": [8]},
                          head_config={"hidden_size": [8]})
    rb = case.get("rebuild")
    if rb == "recreate":
        net.recreate_network()
    elif rb == "clone":
        net = net.clone()
    elif rb == "head-recreate":
        net.head_net.recreate_network()
    elif rb == "add-node":
        net.head_net.add_node()
        net.recreate_network()
    elif rb == "add-latent":
        net.add_latent_node()
    return net, support


def duel_impl(case, forward_override=None):
    """runs the real network with the case's logits fed in (forward hooks on the head's two sub-networks return
    them) or with its own weights (the hooks record what the sub-networks return).  Returns the per-call outputs
    and the logits each call saw."""
    A, N, B = case["A"], case["N"], case["B"]
    net, support = duel_build(case)
    head = net.head_net
    problems = []
    if not (int(head.num_atoms) == N and int(head.num_actions) == A and int(net.num_atoms) == N
            and tuple(head.support.shape) == (N,) and bool(torch.equal(head.support.cpu(), support))
            and bool(torch.equal(net.support.cpu(), support))):
        problems.append(f"after {case.get('rebuild') or 'construction'} the head has num_atoms={head.num_atoms} "
                        f"num_actions={head.num_actions} support={head.support.tolist()} (expected {N}, {A}, "
                        f"{support.tolist()})")
    if case.get("peak"):
        with torch.no_grad():
            for name, prm in head.named_parameters():
                if "sigma" not in name:
                    prm.mul_(float(case["peak"]))
    seen = {}
    if case["mode"] == "fed":
        V = torch.tensor(case["value"], dtype=torch.float64).reshape(B, N)
        Ad = torch.tensor(case["adv"], dtype=torch.float64).reshape(B, A * N)
        hooks = [head.model.register_forward_hook(lambda m, i, o: V.clone()),
                 head.advantage_net.register_forward_hook(lambda m, i, o: Ad.clone())]
    else:
        hooks = [head.model.register_forward_hook(lambda m, i, o: seen.__setitem__("v", o.detach().clone())),
                 head.advantage_net.register_forward_hook(lambda m, i, o: seen.__setitem__("a", o.detach().clone()))]
    if forward_override is not None:
        import types
        head.forward = types.MethodType(forward_override, head)
    gen = torch.Generator().manual_seed(case["seed"] + 5)
    x = torch.randn(B, 3, generator=gen)
    outs, logits = {}, {}
    try:
        with torch.no_grad():
            for key, kwargs in (("q", {}), ("dist", {"q": False}), ("log", {"q": False, "log": True}),
                                ("qlog", {"q": True, "log": True})):
                outs[key] = net(x, **kwargs).to(torch.float64)
                if case["mode"] == "fed":
                    logits[key] = (V, Ad)
                else:
                    logits[key] = (seen["v"].to(torch.float64).reshape(B, N), seen["a"].to(torch.float64).reshape(B, A * N))
    finally:
        for h in hooks:
            h.remove()
    return outs, logits, support.to(torch.float64), problems


def duel_oracle(case, outs, logits, support, tol):
    """the property itself on the implementation's own outputs (independent of the Lean model)"""
    A, N, B = case["A"], case["N"], case["B"]
    P = []
    q, dist, lp, qlp = outs["q"], outs["dist"], outs["log"], outs["qlog"]
    scale = max(1.0, float(support.abs().max()))
    if tuple(q.shape) != (B, A) or tuple(dist.shape) != (B, A, N) or tuple(lp.shape) != (B, A, N) or \
            tuple(qlp.shape) != (B, A, N):
        return [f"shapes: q {tuple(q.shape)} dist {tuple(dist.shape)} log {tuple(lp.shape)} / {tuple(qlp.shape)} for "
                f"B={B} A={A} N={N}"]
    for k, t in outs.items():
        if not bool(torch.isfinite(t).all()):
            return [f"forward({k}) returns a non-finite value"]
    if float(dist.min()) < FLOOR - tol:
        P.append(f"forward(q=False) has an entry {float(dist.min())} below the floor 1e-3")
    mass = dist.sum(2)
    if float(mass.min()) < 1 - tol * N or float(mass.max()) > 1 + N * FLOOR + tol * N:
        P.append(f"mass of a returned distribution outside [1, 1 + N*1e-3]: min {float(mass.min())} max {float(mass.max())}")
    q2 = (dist * support).sum(2)
    if float((q - q2).abs().max()) > tol * scale * N:
        b, a = divmod(int((q - q2).abs().argmax()), A)
        P.append(f"forward(q=True)[{b},{a}] = {float(q[b, a])} is not the expectation {float(q2[b, a])} of "
                 f"forward(q=False)[{b},{a}] = {dist[b, a].tolist()} over the support {support.tolist()}")
    for b in range(B):
        g1, g2 = int(q[b].argmax()), int(q2[b].argmax())
        if g1 != g2 and abs(float(q2[b, g1] - q2[b, g2])) > 4 * tol * scale * N:
            P.append(f"row {b}: argmax of forward(q=True) is action {g1}, argmax of the expectations of "
                     f"forward(q=False) is action {g2} (means {q2[b].tolist()})")
    if float((lp - qlp).abs().max()) > 0:
        P.append("forward(q=True, log=True) differs from forward(q=False, log=True)")
    if float((lp.exp().sum(2) - 1).abs().max()) > max(tol, 1e-12) * N * 10:
        P.append(f"exp(forward(log=True)) does not sum to one: {lp.exp().sum(2).tolist()}")
    ltol = max(tol * 50, 1e-7)
    active = dist <= FLOOR * (1 + 1e-6)
    free = dist > FLOOR * (1 + 1e-3)
    if bool(free.any()) and float((lp[free] - dist[free].log()).abs().max()) > ltol * max(1.0, float(lp.abs().max())):
        P.append("forward(log=True) is not log(forward(q=False)) on entries above the floor")
    if bool(active.any()) and float((lp[active] - math.log(FLOOR)).max()) > ltol * max(1.0, float(lp.abs().max())):
        P.append("an entry at the floor has forward(log=True) above log(1e-3)")
    # dueling identity, observable form: mean_a logp[a, j] - value[j] does not depend on the atom j
    V = logits["log"][0]
    dev = lp.mean(1) - V
    spread = float((dev - dev[:, :1]).abs().max())
    if spread > ltol * max(1.0, float(V.abs().max()), float(lp.abs().max())) * 4:
        P.append(f"dueling identity fails: mean over actions of the log-probabilities minus the value logits varies "
                 f"over the atoms by {spread}")
    for k in ("dist", "log", "qlog"):
        if not (bool(torch.equal(logits[k][0], logits["q"][0])) and bool(torch.equal(logits[k][1], logits["q"][1]))):
            P.append(f"the sub-networks return different logits for the same input in call `{k}`")
    return P


def duel_fracs(t):
    return [F(float(v)) for v in t.reshape(-1).tolist()]


def duel_model_lines(case, logits_row, support):
    """driver ops for one batch row + what the harness itself expects for `comb` / the row sums (compared exactly,
    so the exp / log tables it supplies are keyed by the model's own combined logits)"""
    A, N = case["A"], case["N"]
    v, a = duel_fracs(logits_row[0]), duel_fracs(logits_row[1])
    sup = duel_fracs(support)
    means = [sum(a[i * N + j] for i in range(A)) / A for j in range(N)]
    comb = [[v[j] + a[i * N + j] - means[j] for j in range(N)] for i in range(A)]
    M = max(max(r) for r in comb)
    tab = {}
    for r in comb:
        for xq in r:
            tab.setdefault(xq, F(math.exp(float(xq - M))))
    sums = [sum(tab[xq] for xq in r) for r in comb]
    logz = [F(math.log(float(z)) + float(M)) for z in sums]
    sh = lambda xs: " ".join(show(xq) for xq in xs)
    lines = [f"c51 duel new {A} {N} {sh(sup)} {sh(v)} {sh(a)}", "c51 duel comb",
             "c51 duel exp " + sh([tab[xq] for r in comb for xq in r]), "c51 duel logz " + sh(logz),
             "c51 duel fwd 1 0", "c51 duel fwd 0 0", "c51 duel fwd 0 1", "c51 duel fwd 1 1"]
    expect = ["ok", " | ".join(sh(r) for r in comb), sh(sums), "ok"]
    return lines, expect


def duel_parse(line):
    return [[float(F(w)) for w in part.split()] for part in line.split(" | ")]


def duel_compare(case, outs, model_rows, support, tol):
    """model_rows[b] = the four `fwd` answers of batch row b; returns the first disagreement or None"""
    A, N = case["A"], case["N"]
    scale = max(1.0, float(support.abs().max()))
    for b, ans in enumerate(model_rows):
        for key, line, sc in (("q", ans[0], scale * N), ("dist", ans[1], 1.0), ("log", ans[2], None), ("qlog", ans[3], None)):
            if line in ("reject", "bad-op"):
                return f"row {b}: the model answers {line!r} to forward({key})"
            got = outs[key][b].reshape(-1).tolist()
            want = [v for r in duel_parse(line) for v in r]
            if len(got) != len(want):
                return f"row {b}: forward({key}) has {len(got)} entries, the model {len(want)}"
            for i, (g, w) in enumerate(zip(got, want)):
                t = tol * (sc if sc is not None else 50 * max(1.0, abs(w)))
                if not abs(g - w) <= t:
                    return (f"row {b}: forward({key}) entry {i}: implementation {g!r} model {w!r} "
                            f"(|diff| {abs(g - w):.3g} > {t:.3g})")
    return None


def duel_case_run(chk: Check, case, forward_override=None):
    """returns dict(problems=[…], diff=str|None, floor_active=bool)"""
    tol = DUEL_TOL_FED if case["mode"] == "fed" else DUEL_TOL_REAL
    try:
        outs, logits, support, problems = duel_impl(case, forward_override)
    except Exception as e:  # noqa: BLE001
        return {"problems": [f"implementation raised {type(e).__name__}: {e}"], "diff": None, "floor_active": False}
    problems += duel_oracle(case, outs, logits, support, tol)
    lines, expects = ["reset"], []
    for b in range(case["B"]):
        ln, ex = duel_model_lines(case, (logits["q"][0][b], logits["q"][1][b]), support)
        lines += ln
        expects.append(ex)
    out = driver_run(chk, lines)[1:]
    chk.corr["model_lines"] += len(lines) - 1
    rows = []
    for b in range(case["B"]):
        o = out[8 * b: 8 * b + 8]
        if o[:4] != expects[b]:
            raise InfraError(f"C18 duel: the harness's exp / log tables are not keyed by the model's logits: model "
                             f"{o[:4]} harness {expects[b]}")
        rows.append(o[4:])
    diff = duel_compare(case, outs, rows, support, tol) if tuple(outs["q"].shape) == (case["B"], case["A"]) else None
    active = bool((outs["dist"] <= FLOOR * (1 + 1e-6)).any()) if outs["dist"].dim() == 3 else False
    return {"problems": problems, "diff": diff, "floor_active": active}


def gen_duel(rng: random.Random, mode: str):
    A, N, B = rng.randint(1, 4), rng.randint(2, 11), rng.randint(1, 3)
    delta = rng.choice([0.5, 1.0, 2.0])
    vmin = rng.choice([-10.0, -2.0, 0.0, 1.0, -float(N - 1) * delta / 2])
    case = {"kind": "duel", "mode": mode, "A": A, "N": N, "B": B, "vmin": vmin, "vmax": vmin + (N - 1) * delta,
            "seed": rng.randrange(1 << 30),
            "rebuild": rng.choice([None, None, "recreate", "clone", "head-recreate", "add-node", "add-latent"])}
    if mode == "fed":
        style = rng.choice(["small", "small", "peaked", "peaked", "flat", "wide"])
        step = {"small": 8, "peaked": 8, "flat": 1, "wide": 2}[style]
        rngv = {"small": 16, "peaked": 16, "flat": 0, "wide": 60}[style]
        val, adv = [], []
        for _ in range(B):
            v = [rng.randint(-rngv, rngv) / step for _ in range(N)]
            a = [rng.randint(-rngv, rngv) / step for _ in range(A * N)]
            if style == "peaked":
                v[rng.randrange(N)] += rng.choice([8.0, 12.0, 20.0, 40.0])
                a[rng.randrange(A * N)] += rng.choice([0.0, 6.0, 15.0])
            val.append(v)
            adv.append(a)
        case.update(value=val, adv=adv, style=style)
    else:
        case["peak"] = rng.choice([0, 0, 5.0, 20.0, 60.0])
    return case


def duel_shrink(chk: Check, case, res):
    if case["mode"] != "fed" or case["B"] == 1:
        return case, res

    def sub(keep):
        return dict(case, B=len(keep), value=[case["value"][i] for i in keep], adv=[case["adv"][i] for i in keep])

    def bad(keep):
        r = duel_case_run(chk, sub(keep))
        return bool(r["problems"]) if res["problems"] else r["diff"] is not None
    keep = ddmin(list(range(case["B"])), bad)
    small = sub(keep)
    r2 = duel_case_run(chk, small)
    return (small, r2) if (r2["problems"] or r2["diff"]) else (case, res)


def duel_report(chk: Check, case, res, origin=None):
    replay = dict(case, oracle_problems=res["problems"], diff=res["diff"],
                  correspondence="harness/c18.py (duel suite) vs namespace Duel of Model/C51.lean", origin=origin)
    if res["problems"]:
        chk.violation("dueling head: " + res["problems"][0], replay)
    else:
        chk.violation("dueling head: implementation and model disagree: " + res["diff"] +
                      "; the property oracle holds on this case", replay, no_input=True)


def run_duel(chk: Check, corpus_cases):
    quick = chk.tier == "quick"
    n_fed, n_real = (40, 14) if quick else (500, 120)
    cases = [(c, ["corpus"], name) for c, name in corpus_cases]
    cases += [(gen_duel(chk.rng, "fed"), [], None) for _ in range(n_fed)]
    cases += [(gen_duel(chk.rng, "real"), [], None) for _ in range(n_real)]
    n_run = n_bad = 0
    for case, tags, origin in cases:
        n_run += 1
        res = duel_case_run(chk, case)
        tags = tags + [f"duel-{case['mode']}", f"duel-rebuild-{case.get('rebuild') or 'none'}",
                       "duel-floor-active" if res["floor_active"] else "duel-floor-inactive"]
        if case["A"] == 1:
            tags.append("duel-single-action")
        chk.case({k: v for k, v in case.items()}, nontrivial=res["floor_active"],
                 sample={"suite": "duel", "A": case["A"], "N": case["N"], "B": case["B"], "mode": case["mode"],
                         "rebuild": case.get("rebuild")}, tags=tags)
        if res["problems"] or res["diff"]:
            n_bad += 1
            small, r2 = duel_shrink(chk, case, res)
            duel_report(chk, small, r2, origin)
    chk.suite("dueling-head-forward", n_run, n_bad)


def duel_mirror(fault):
    """`DuelingDistributionalMLP.forward` re-stated with a seeded fault (self-test)"""
    import torch.nn.functional as Fn

    def f(self, x, q=True, log=False):
        value = self.model(x)
        advantage = self.advantage_net(x)
        B = value.size(0)
        value = value.view(B, 1, self.num_atoms)
        advantage = advantage.view(B, self.num_actions, self.num_atoms)
        if fault == "no-mean":
            z = value + advantage
        elif fault == "mean-over-atoms":
            z = value + advantage - advantage.mean(2, keepdim=True)
        else:
            z = value + advantage - advantage.mean(1, keepdim=True)
        if log:
            if fault == "log-of-clamped":
                return Fn.softmax(z, dim=-1).clamp(min=1e-3).log()
            return Fn.log_softmax(z.view(-1, self.num_atoms), dim=-1).view(-1, self.num_actions, self.num_atoms)
        p = Fn.softmax(z.view(-1, self.num_atoms), dim=-1).view(-1, self.num_actions, self.num_atoms)
        if fault == "q-before-clamp" and q:
            return torch.sum(p * self.support, dim=2)
        p = p.clamp(min=1e-2 if fault == "floor-1e-2" else 1e-3)
        if fault == "no-clamp":
            p = Fn.softmax(z, dim=-1)
        if q:
            sup = torch.arange(self.num_atoms, dtype=p.dtype) if fault == "support-lost" else self.support
            p = torch.sum(p * sup, dim=2)
        return p
    return f


def duel_selftest(chk: Check):
    rng = random.Random(20260927)
    sample = [gen_duel(rng, "fed") for _ in range(40)]
    for c in sample[:10]:
        r = duel_case_run(chk, c, duel_mirror(None))
        if r["problems"] or r["diff"]:
            raise InfraError(f"C18 duel self-test: fault-free mirror of forward is flagged: {r['problems'] or r['diff']}")
    for fault in ["no-mean", "mean-over-atoms", "log-of-clamped", "q-before-clamp", "floor-1e-2", "no-clamp",
                  "support-lost"]:
        hit = orc = 0
        for c in sample:
            r = duel_case_run(chk, c, duel_mirror(fault))
            hit += bool(r["problems"] or r["diff"])
            orc += bool(r["problems"])
        if hit == 0:
            raise InfraError(f"C18 duel self-test: seeded fault {fault!r} was not noticed")
        chk.notes.append(f"self-test (dueling head): fault {fault} flagged on {hit}/{len(sample)} cases "
                         f"({orc} by the property oracle)")


# ----------------------------------------------------------------------------- batch-level suite (PER loss, priorities)
_BATCH_AGENT = []


def gen_batch(rng: random.Random):
    B = rng.choice([1, 1, 2, 3, 4, 5, 8])
    dy = lambda: rng.randint(0, 64) / 16.0
    return {"kind": "batch", "B": B, "per": rng.random() < 0.7, "nstep_on": rng.random() < 0.6,
            "combined": rng.random() < 0.5, "l1": [dy() for _ in range(B)], "ln": [dy() for _ in range(B)],
            "w": [rng.choice([0.0, 0.25, 0.5, 0.75, 1.0]) for _ in range(B)],
            "idx": [rng.randint(0, 99) for _ in range(B)], "wshape": rng.choice(["col", "col", "flat"])}


def batch_case_run(case):
    """real `learn` on a batch whose element-wise losses are GIVEN (`_dqn_loss` of the instance replaced by a table:
    l1 for the 1-step batch, ln for the n-step batch, told apart by the observation id), against the property:
    loss = (1/B) sum_i w_i l_i under PER / (1/B) sum_i l_i without, priorities = l_i + prior_eps in the order of
    idxs, shapes (B,).  Returns the list of problems."""
    from tensordict import TensorDict
    B = case["B"]
    if not _BATCH_AGENT:
        _BATCH_AGENT.append(make_agent(5, -2.0, 2.0, 0.5, 3, False, 4, 2))
    agent = _BATCH_AGENT[0]
    agent.combined_reward = bool(case["combined"])

    def stub(states, actions, rewards, next_states, dones, gamma):
        vals = case["l1"] if float(states.reshape(B, -1)[0, 0]) < 1000 else case["ln"]
        return torch.tensor(vals, dtype=torch.float32, requires_grad=True).clone()
    agent._dqn_loss = stub

    def td(base, with_w):
        d = {"obs": torch.tensor([[float(base + i)] for i in range(B)]), "action": torch.zeros(B, 1),
             "reward": torch.zeros(B, 1), "next_obs": torch.tensor([[float(base + i)] for i in range(B)]),
             "done": torch.zeros(B, 1), "idxs": torch.tensor([int(i) for i in case["idx"]])}
        if with_w:
            w = torch.tensor([float(x) for x in case["w"]])
            d["weights"] = w.unsqueeze(1) if case["wshape"] == "col" else w
        return TensorDict(d, batch_size=[B])
    try:
        out = agent.learn(td(0, case["per"]), n_experiences=td(1000, False) if case["nstep_on"] else None,
                          per=case["per"])
    except Exception as e:  # noqa: BLE001
        return [f"learn raised {type(e).__name__}: {e}"[:300]]
    finally:
        del agent._dqn_loss
    loss, idxs, prios = out
    l1, ln = [F(x) for x in case["l1"]], [F(x) for x in case["ln"]]
    el = l1 if not case["nstep_on"] else ([a + b for a, b in zip(l1, ln)] if case["combined"] else ln)
    want = sum((F(w) * x for w, x in zip(case["w"], el)), F(0)) / B if case["per"] else sum(el, F(0)) / B
    problems = []
    if abs(float(loss) - float(want)) > 1e-5 * (1 + abs(float(want))):
        col = sum(el, F(0)) * sum((F(w) for w in case["w"]), F(0)) / (B * B)
        problems.append(f"scalar loss {float(loss)!r} is not the batch mean of w_i*l_i = {float(want)!r} "
                        f"(per={case['per']}; the (B,B) broadcast of a weight column would give {float(col)!r})")
    if case["per"]:
        pr = None if prios is None else np.asarray(prios)
        if pr is None or pr.shape != (B,):
            problems.append(f"priorities have shape {None if pr is None else pr.shape}, expected ({B},)")
        else:
            for i in range(B):
                if abs(float(pr[i]) - float(el[i]) - PRIOR_EPS) > 1e-5 * (1 + float(el[i])):
                    problems.append(f"priority {i} is {float(pr[i])!r}, expected l_{i} + prior_eps = "
                                    f"{float(el[i]) + PRIOR_EPS!r}")
                    break
                if not float(pr[i]) > 0:
                    problems.append(f"priority {i} is {float(pr[i])!r}, not > 0")
                    break
    elif prios is not None:
        problems.append("priorities returned without PER")
    want_idx = case["idx"] if (case["per"] or case["nstep_on"]) else None
    got_idx = None if idxs is None else [int(x) for x in np.asarray(idxs).reshape(-1)]
    if got_idx != want_idx:
        problems.append(f"returned idxs {got_idx} are not the batch's own {want_idx}")
    return problems


def run_batch(chk: Check, corpus_cases):
    n = 60 if chk.tier == "quick" else 800
    cases = [(c, name) for c, name in corpus_cases] + [(gen_batch(chk.rng), None) for _ in range(n)]
    n_bad = 0
    for case, origin in cases:
        problems = batch_case_run(case)
        chk.case(case, nontrivial=case["per"] and case["B"] > 1 and len(set(case["w"])) > 1,
                 sample={"suite": "batch", "B": case["B"], "per": case["per"], "nstep_on": case["nstep_on"],
                         "combined": case["combined"]},
                 tags=["batch-per" if case["per"] else "batch-plain", f"batch-weights-{case['wshape']}"])
        if problems:
            n_bad += 1
            keep = list(range(case["B"]))
            if case["B"] > 1:
                def bad(k):
                    c = dict(case, B=len(k), **{f: [case[f][i] for i in k] for f in ("l1", "ln", "w", "idx")})
                    return bool(k) and bool(batch_case_run(c))
                keep = ddmin(keep, bad) or keep
            small = dict(case, B=len(keep), **{f: [case[f][i] for i in keep] for f in ("l1", "ln", "w", "idx")})
            p2 = batch_case_run(small)
            if not p2:
                small, p2 = case, problems
            chk.violation("batch level of learn: " + p2[0],
                          dict(small, oracle_problems=p2, origin=origin,
                               correspondence="harness/c18.py (batch suite) vs elemLoss / scalarLoss / newPriorities of "
                                              "Model/C51.lean"))
    chk.suite("learn-batch-level-per-loss-and-priorities", len(cases), n_bad)


# ----------------------------------------------------------------------------- check
def pre_gate(chk: Check) -> None:
    """Regenerate lean/Gen/C51Gen.lean from the source text of the tree under test (before the Lean gate) and
    re-check `generated = model` (Proofs/C51GenEq.lean) and the theorems over the generated definitions
    (Props/C18.lean, `C18_source_translation_*`)."""
    import common
    import py2lean_c51
    import py2lean_c51batch
    import py2lean_dueling
    # every gate below builds Props.C18, which imports all three generated files: write them all first, so that none
    # of them is a stale translation of another tree when the first gate runs
    for mod, rel in ((py2lean_c51, "Gen/C51Gen.lean"), (py2lean_dueling, "Gen/DuelingGen.lean"),
                     (py2lean_c51batch, "Gen/C51BatchGen.lean")):
        try:
            mod.write_if_changed(mod.translate(common.REPO)[0], common.LEAN_DIR / rel)
        except mod.Unsupported:
            pass
    common.translation_gate(chk, py2lean_c51, "Gen/C51Gen.lean", ["Gen.C51Gen", "Proofs.C51GenEq", "Props.C18"],
                            "support / delta_z of __init__, the categorical projection and loss of _dqn_loss per batch "
                            "row, and the 1-step / n-step combination, indices and priorities of learn")
    import py2lean_dueling
    common.translation_gate(chk, py2lean_dueling, "Gen/DuelingGen.lean",
                            ["Gen.DuelingGen", "Proofs.DuelingGenEq", "Props.C18"],
                            "DuelingDistributionalMLP.forward per batch row (dueling combination, soft-max, the 1e-3 "
                            "clamp, expectation over the support, log_softmax), the widths / attributes its __init__ "
                            "sets, and how RainbowQNetwork builds, rebuilds and calls the head")
    import py2lean_c51batch
    common.translation_gate(chk, py2lean_c51batch, "Gen/C51BatchGen.lean",
                            ["Gen.C51BatchGen", "Proofs.C51BatchGenEq", "Props.C18"],
                            "the batch level of learn with shapes: combination of the 1-step / n-step element-wise "
                            "losses, importance weights, mean, returned indices and priorities")


def run(chk: Check) -> None:
    rng = chk.rng
    quick = chk.tier == "quick"
    n_stub = 120 if quick else 1500
    n_real = 32 if quick else 400
    chk.rule = ("stub suite: random configurations (2..51 atoms, Δ a power of two, dyadic v_min, γ in {1/4,1/2,3/4,1}, "
                "n_step 1..3, batch 1..6, 1..4 actions, per / n-step / combined on and off) with rewards inside, "
                "exactly on atoms, above, below and on the edge of the support and done in {0,1}; target distributions "
                "dyadic and deliberately not normalised; distinct = distinct full case; non-trivial = some b is "
                "integral (a fix-up fires) or a reward leaves the support; gamma / n_step set in the constructor, by "
                "assignment after construction, or by real rl_hyperparam_mutations.  real suite: real networks, random "
                "and peaked (head x10..x50) weights, arbitrary float configurations incl. the float32-overflow ones "
                "and supports excluding 0, hyper-parameters changed after construction, tolerance 1e-5: q = "
                "expectation of the returned distributions, greedy = arg-max of those means, mass, mean, priorities.  "
                "duel suite: real RainbowQNetwork heads, A 1..4, N 2..11, batch 1..3, logits fed through forward hooks "
                "(dyadic float64: small / peaked / flat / wide) or produced by real (sharpened) float32 weights, as built "
                "and after recreate_network / clone / head recreate / add_node / add_latent_node; non-trivial = the 1e-3 "
                "floor is active on some atom")
    chk.assumptions = [
        "instance-level replacement of actor.forward / actor_target.forward is what _dqn_loss calls (checked: the "
        "decoy tables of the wrong network change the read-back)",
        "probe read-out: with log p = -e_k the element-wise loss equals proj[:, k] (it is the loss formula itself)",
        "all stub inputs are dyadic with <= 22 significant bits in every intermediate, so float32 = exact",
        "stub / real suites: the scalar loss under PER (importance weights) is not compared there; the batch suite compares it (given element-wise losses through an instance-level `_dqn_loss` table, dyadic, tolerance 1e-5) together "
        "with the priorities, their shape (B,) and the order of idxs",
        "duel suite: exp / log values handed to the model are Python math's float64 results (relative error 1e-16); "
        "the model is exact on them; forward hooks replace / record only the OUTPUT of head.model and "
        "head.advantage_net, the real DuelingDistributionalMLP.forward / RainbowQNetwork.forward run unchanged",
    ]
    chk.trusted_extra = ["torch.index_add_, floor, ceil, clamp, linspace semantics as modelled in Model/C51.lean",
                         "torch softmax / log_softmax over the last dimension = exp(x_j)/sum exp(x), x_j - log sum exp(x); "
                         "view / broadcasting / mean(1, keepdim) semantics as modelled in namespace Duel"]

    cases = []
    duel_corpus = []
    batch_corpus = []
    for f in sorted((ROOT / "corpus" / "C18").glob("*.json")):
        c = json.loads(f.read_text())
        if c.get("kind") == "duel":
            duel_corpus.append((c, f.name))
            continue
        if c.get("kind") == "batch":
            batch_corpus.append((c, f.name))
            continue
        cases.append((c, ["corpus"], f.name))
    cases.append((overflow_probe_case(True), ["probe-overflow"], "probe"))
    cases.append((overflow_probe_case(False), ["probe-overflow"], "probe"))
    for bs, B in [(1, 3), (3, 2), (4, 1), (2, 5)]:
        cases.append((batch_size_probe_case(bs, B, rng), ["probe-batch-size"], "probe"))
    for _ in range(n_stub):
        c, tags = gen_case(rng, chk.tier)
        cases.append((c, tags, None))
    for _ in range(n_real):
        cases.append((gen_real(rng), [], None))

    degenerate_configs(chk)
    n_stub_run = n_stub_diff = n_real_run = n_real_bad = 0
    for case, tags, origin in cases:
        if case.get("kind") == "real":
            n_real_run += 1
            rtags = []
            problems, raised = real_case(case, rtags)
            ovf = overflow_config(case["N"], case["vmin"], case["vmax"])
            chk.case(case, nontrivial=True,
                     sample={"suite": "real", "N": case["N"], "v": [case["vmin"], case["vmax"]],
                             "rewards": [r["r"] for r in case["one"]]},
                     tags=["real-nets", "real-overflow-config" if ovf else "real-plain-config"] + sorted(set(rtags)))
            if problems:
                n_real_bad += 1
                if ovf:
                    case = dict(case, finding=FID_OVERFLOW)
                # shrink over rows
                B = len(case["one"])

                def bad(keep):
                    c = dict(case, one=[case["one"][i] for i in keep], nst=[case["nst"][i] for i in keep])
                    return bool(real_case(c)[0])
                keep = ddmin(list(range(B)), bad) if B > 1 else [0]
                small = dict(case, one=[case["one"][i] for i in keep], nst=[case["nst"][i] for i in keep])
                p2, _ = real_case(small)
                if not p2:
                    small, p2 = case, problems
                report(chk, small, {"problems": p2, "diff": None}, origin)
            continue
        n_stub_run += 1
        res = one_case(chk, case)
        ftags = classify_fixups(case, res.get("gamma"), res.get("n_step")) if case.get("exact", True) else []
        if res.get("gamma") is not None and case.get("via", "ctor") != "ctor":
            g0, n0 = case.get("gamma_init", case["gamma"]), case.get("n_step_init", case["n_step"])
            ftags.append("hp-changed-after-ctor" if (res["gamma"], res["n_step"]) != (g0, n0) else "hp-unchanged")
        nontrivial = any(t.startswith("b-integral") for t in ftags) or \
            any(t in ("reward-above", "reward-below") for t in tags)
        chk.case({k: v for k, v in case.items() if k != "seed"}, nontrivial=nontrivial,
                 sample={"suite": "stub", "N": case["N"], "v": [case["vmin"], case["vmax"]], "gamma": case["gamma"],
                         "n_step": case["n_step"], "per": case["per"], "nstep_on": case["nstep_on"],
                         "combined": case["combined"], "rows": [[r["r"], r["d"]] for r in case["one"]]},
                 tags=tags + ftags)
        if res["diff"] is None and not res["problems"]:
            continue
        n_stub_diff += res["diff"] is not None
        small, res2 = shrink(chk, case, res)
        report(chk, small, res2, origin)
    chk.suite("c51-stub-projection-and-learn", n_stub_run, n_stub_diff)
    chk.suite("c51-real-networks-oracle", n_real_run, n_real_bad)
    run_duel(chk, duel_corpus)
    run_batch(chk, batch_corpus)
    if not quick:
        selftest(chk)
        duel_selftest(chk)


# ----------------------------------------------------------------------------- self-test
def mirror_dqn_loss(fault):
    """`_dqn_loss` re-stated here so that seeded faults do not depend on /repo's source text"""
    def f(self, states, actions, rewards, next_states, dones, gamma):
        states = self.preprocess_observation(states)
        next_states = self.preprocess_observation(next_states)
        with torch.no_grad():
            B = rewards.shape[0]
            sel = self.actor_target if fault == "argmax-by-target" else self.actor
            next_actions = sel(next_states).argmax(1)
            src = self.actor if fault == "dist-from-online" else self.actor_target
            p = src(next_states, q=False)[range(B), next_actions]
            nd = torch.ones_like(dones) if fault == "ignore-done" else (1 - dones)
            t_z = (rewards + nd * gamma * self.support).clamp(min=self.v_min, max=self.v_max)
            b = ((t_z - self.v_min) / self.delta_z).clamp(0, self.num_atoms - 1)
            L, u = b.floor().long(), b.ceil().long()
            if fault != "drop-fixup-1":
                L[(u > 0) * (L == u)] -= 1
            if fault != "drop-fixup-2":
                u[(L < (self.num_atoms - 1)) * (L == u)] += 1
            L, u = L.clamp(0, self.num_atoms - 1), u.clamp(0, self.num_atoms - 1)
            off = (torch.arange(B) * (0 if fault == "no-offset" else self.num_atoms)).unsqueeze(1).expand(B, self.num_atoms)
            proj = torch.zeros(B, self.num_atoms)
            wl, wu = (u.float() - b), (b - L.float())
            if fault == "swap-weights":
                wl, wu = wu, wl
            proj.view(-1).index_add_(0, (L + off).view(-1), (p * wl).view(-1))
            proj.view(-1).index_add_(0, (u + off).view(-1), (p * wu).view(-1))
        log_p = self.actor(states, q=False, log=True)[range(B), actions.reshape(-1).long()]
        if fault == "wrong-action":
            log_p = self.actor(states, q=False, log=True)[range(B), 0 * actions.reshape(-1).long()]
        return -(proj * log_p).sum(1)
    return f


def selftest(chk: Check) -> None:
    """every seeded fault must be noticed by the stub suite on a small fixed-seed sample"""
    rng = random.Random(20260926)
    sample = [gen_case(rng, "quick")[0] for _ in range(60)]
    # sanity: the fault-free mirror passes (so detections below are due to the fault)
    for c in sample[:20]:
        r = one_case(chk, c, mirror_dqn_loss(None))
        if r["diff"] is not None or r["problems"]:
            raise InfraError(f"C18 self-test: fault-free mirror of _dqn_loss is flagged: {r['problems'] or r['diff']}")
    faults = ["drop-fixup-1", "drop-fixup-2", "ignore-done", "no-offset", "argmax-by-target", "dist-from-online",
              "swap-weights", "wrong-action"]
    for fault in faults:
        hit = 0
        for c in sample:
            r = one_case(chk, c, mirror_dqn_loss(fault))
            if r["diff"] is not None or r["problems"]:
                hit += 1
        if hit == 0:
            raise InfraError(f"C18 self-test: seeded fault {fault!r} was not noticed")
        chk.notes.append(f"self-test: fault {fault} flagged on {hit}/{len(sample)} cases")
    # learn-level faults: n-step discount not raised to the power, combined loss not summed
    from agilerl.algorithms.dqn_rainbow import RainbowDQN
    orig_learn = RainbowDQN.learn
    for fault in ["gamma-not-power", "combined-not-summed"]:
        def broken(self, experiences, n_experiences=None, per=False, _f=fault):
            if _f == "gamma-not-power":
                keep = self.n_step
                self.n_step = 1
                try:
                    return orig_learn(self, experiences, n_experiences, per)
                finally:
                    self.n_step = keep
            keep = self.combined_reward
            self.combined_reward = False
            try:
                return orig_learn(self, experiences, n_experiences, per)
            finally:
                self.combined_reward = keep
        RainbowDQN.learn = broken
        try:
            hit = 0
            for c in sample:
                r = one_case(chk, c)
                hit += bool(r["diff"] is not None or r["problems"])
        finally:
            RainbowDQN.learn = orig_learn
        if hit == 0:
            raise InfraError(f"C18 self-test: seeded fault {fault!r} was not noticed")
        chk.notes.append(f"self-test: fault {fault} flagged on {hit}/{len(sample)} cases")


# ----------------------------------------------------------------------------- replay
def replay(chk: Check, path: str) -> int:
    c = json.loads(open(path).read())
    c = c.get("replay", c)
    case = {k: v for k, v in c.items() if k not in ("impl", "model", "oracle_problems", "correspondence",
                                                    "theorems", "origin")}
    if case.get("kind") == "batch":
        problems = batch_case_run(case)
        print(json.dumps({"oracle_problems": problems}, indent=1))
        if problems:
            print(f"VIOLATION property=C18 replay={path}")
            return 1
        return 0
    if case.get("kind") == "duel":
        case = {k: v for k, v in case.items() if k != "diff"}
        res = duel_case_run(chk, case)
        print(json.dumps({"oracle_problems": res["problems"], "diff": res["diff"]}, indent=1))
        if res["problems"]:
            print(f"VIOLATION property=C18 replay={path}")
            return 1
        if res["diff"]:
            print(f"VIOLATION property=C18 replay={path} no-failing-input-found")
            return 1
        return 0
    if case.get("kind") == "real":
        problems, raised = real_case(case)
        print(json.dumps({"oracle_problems": problems, "raised": raised}, indent=1))
        if problems:
            print(f"VIOLATION property=C18 replay={path}")
            return 1
        return 0
    res = one_case(chk, case)
    print(json.dumps({"diff_at": res["diff"], "oracle_problems": res["problems"], "impl": res["impl"],
                      "model": res["model"]}, indent=1)[:6000])
    if res["problems"]:
        print(f"VIOLATION property=C18 replay={path}")
        return 1
    if res["diff"] is not None:
        print(f"VIOLATION property=C18 replay={path} no-failing-input-found")
        return 1
    return 0
