"""
C19 — neural bandits keep an exact inverse of their regularised Gram matrix.

Correspondence: real NeuralUCB / NeuralTS agents with tiny networks (output layer <= 12 parameters, a
few "grow" cases up to 25) are driven through random histories of
    act (get_action on a context matrix, optional mask) | learn | mutate (Mutations.mutation with one
    kind at probability 1: none / architecture / parameters / activation / rl_hp) | clone | switch |
    reload (save_checkpoint + load / load_checkpoint into the same / into a fresh agent).
A `clone` keeps the parent alive beside the copy (up to 4 live agents; `switch k` selects who acts next);
parent and copies decide alternately, each with its own recomputed features, its own Gram matrix in the
oracle and its own slot in the model (`bandit fork` copies history and matrix by value, `bandit sel i`).
After EVERY op the checks below run for EVERY live agent, not only for the one that acted.
Gradients that learn()/get_action leave in .grad are never cleared by the harness; a fixed set of crafted
histories (and half of the generated learn steps) follow `learn` directly by a decision that a mask forces
onto one given arm, arm 0 first, for both algorithms.
Before every `get_action` the harness recomputes the gradient feature of every arm exactly as the code
does (autograd on the same network, w.r.t. the parameters of the *current* output layer, divided by
sqrt(out_features)), sends the chosen one as exact dyadics to `Model/Bandit.lean` and compares after
every op: the size line (output-layer numel, agent.numel, rows of sigma_inv, squareness), accept/raise
of get_action, and `sigma_inv` against the exact rational matrix (norm-wise relative tolerance 1e-4:
float32 drift).  For NeuralUCB the chosen arm must maximise mu + gamma*sqrt(exact bonus) up to 1e-4.

Oracle (independent of the Lean model, float64): sigma_inv symmetric, positive definite, g' S g >= 0
for every arm, S @ (Z0 + sum g g') = I since the last initialisation *as observed on the
implementation* (sigma_inv is a scalar multiple of I again), size = parameter count of the live
output layer, agent.exp_layer is that live layer.

The agent's life besides deciding is part of the histories: `setattr lamb|gamma v`, rl_hp mutations whose
hp_config lists lamb and gamma, explicit `init` (init_params), `test` (agent.test(env) on a real BanditEnv for
block contexts), `mode` (set_training_mode) — followed by decisions.  The lambda of the property is the agent's
CURRENT lamb at the last initialisation observed on the implementation (model: ghost `lamb0`, `bandit setlamb`);
every decision get_action returns counts as chosen, in training and in evaluation mode.  Network configurations
are swept (head output activation, layer_norm, latent and hidden sizes, activations): the reference features are
torch.autograd gradients of the network OUTPUT on the agent's own actor.

Agents are also built with accelerate.Accelerator(cpu=True, gradient_accumulation_steps=N) (`accel: N`, N in 1, 2, 4;
the same accelerator is handed to Mutations and load), and two crafted histories per algorithm keep ONE matrix alive
for 135 decisions (clone after 45, reload in the middle) so that periodic effects at 50 / 64 / 100 / 128 updates show.

Degenerate but legal context matrices are a dimension of every decision (4th element of an `act` op, `make_context`;
`gen_shape` for 30 % of the generated decisions, `degenerate_cases` crafted for both algorithms on dense and block
contexts): an arm whose row is exactly all zeros (a padding arm) - half of the time the mask leaves only that arm, so
that it is the chosen one -, all rows zero, two arms with the same row, unit-vector rows, all entries times 2**e
(e in -24..8; `box` declares the matching observation space), combinations of these, and agents with a single arm
(Discrete(1)).  The reference feature of the chosen arm is torch.autograd.grad of the actor's output w.r.t. the live
output layer's parameters, computed by the harness BEFORE get_action runs: it never reads the agent's own `g` nor any
.grad field, so a feature that get_action gets wrong (e.g. 0 for a zero row, where the truth is (h(0), 1) * act'(z))
shows as sigma_inv != inverse of the Gram matrix.

Lambda semantics (DESIGN D16): Z0 = lamb*I is the property text ("paper"); `sigma_inv0 = lamb*I`
("code") is probed on exactly lamb != 1 through chk.finding("C19-lambda-not-inverted").  A stale
`exp_layer` after load is probed through chk.finding("C19-exp-layer-stale-after-load").

Source translation (`pre_gate`, before the Lean gate): `py2lean_bandit.py` translates the tensor expressions of
the methods of NeuralUCB / NeuralTS that initialise and update `self.sigma_inv` (init_params: numel and
`torch.eye(numel) / lamb`; get_action: the quadratic form under the square root, the masked / unmasked argmax, the
Sherman-Morrison statement) from the source text of the tree under test into `lean/Gen/BanditGen.lean`;
`Proofs/BanditGenEq.lean` proves the generated definitions equal to `sigma0 .paper`, `bonus`, `smUpdate`,
`Action.plainPick/maPick` and `Props/C19.lean` restates the theorems over them (`C19_source_translation_*`).  If
the translator rejects the source or those proofs stop checking, that is a gate problem naming the broken
equality; the histories below (sigma_inv against the exact inverse after every op, the float64 oracle, the
lambda probe) then supply the failing input.
`py2lean_banditwire.py` translates the WIRING (which statements of __init__ / init_params / get_action / learn, of
EvolvableAlgorithm.mutation_hook / clone / load_checkpoint / load and of Mutations.mutation + the five mutation methods
touch actor / exp_layer / numel / sigma_inv / the hook registry, in source order) into `lean/Gen/BanditWireGen.lean`;
`Proofs/BanditWireGenEq.lean` proves the lists run to the model's ops (`Bandit.Wire`), `C19_source_translation_wiring_*`
restate the size clause and the inverse invariant over histories of the generated transitions.  The histories below
check sizes and the liveness of `exp_layer` after every op on the real agents.
"""
from __future__ import annotations

import json
import os
import random
import re
import shutil
import tempfile
from fractions import Fraction

import numpy as np
import torch

from common import ROOT, Check, InfraError, ddmin, frac

TOL = 1e-4
FIX_BITS = 64
MUT_KINDS = ["none", "arch", "param", "act", "rl_hp"]
F_LAMBDA = "C19-lambda-not-inverted"
F_EXP = "C19-exp-layer-stale-after-load"


# ----------------------------------------------------------------------------- building
def net_config(case) -> dict:
    head = {"hidden_size": list(case["head"]), "min_mlp_nodes": 1, "max_mlp_nodes": case.get("max_nodes", 11),
            "min_hidden_layers": 1, "max_hidden_layers": 3, "layer_norm": bool(case.get("layer_norm", True)),
            "activation": case.get("activation", "ReLU")}
    if case.get("out_act"):                  # non-default head: the gradient features carry act'(z)
        head["output_activation"] = case["out_act"]
    lat = case.get("latent", [4, 2, 8])      # latent_dim, min_latent_dim, max_latent_dim
    return {"latent_dim": lat[0], "min_latent_dim": lat[1], "max_latent_dim": lat[2],
            "encoder_config": {"hidden_size": list(case.get("enc", [4])), "min_mlp_nodes": 2, "max_mlp_nodes": 8,
                               "activation": case.get("activation", "ReLU")},
            "head_config": head}


def hp_config(case):
    """`hp: "lamb"`: the RL-hyper-parameter mutation can only pick lamb or gamma (any attribute of the agent
    may be listed); `"all"`: lr, batch_size, learn_step, lamb, gamma; default: the usual three"""
    import agents
    from agilerl.algorithms.core.registry import HyperparameterConfig, RLParameter
    kind = case.get("hp", "default")
    if kind == "default":
        return agents.default_hp_config(case["algo"])
    extra = dict(lamb=RLParameter(min=0.05, max=8.0), gamma=RLParameter(min=0.1, max=4.0))
    if kind == "lamb":
        return HyperparameterConfig(**extra)
    return HyperparameterConfig(lr=RLParameter(min=1e-6, max=1e-1), batch_size=RLParameter(min=2, max=64, dtype=int),
                                learn_step=RLParameter(min=1, max=64, dtype=int, grow_factor=1.5, shrink_factor=0.75),
                                **extra)


def obs_dim(case) -> int:
    return case["ctx_dim"] * case["arms"] if case["ctx_kind"] == "block" else case["ctx_dim"]


def make_accelerator(case):
    """`accel: N` builds the agent with accelerate.Accelerator(cpu=True, gradient_accumulation_steps=N), as the
    distributed training scripts do (constructible offline; one per case, the gradient state is process-wide)"""
    n = case.get("accel")
    if not n:
        return None
    from accelerate import Accelerator
    return Accelerator(cpu=True, gradient_accumulation_steps=int(n))


def build(case, seed, accelerator=None):
    import agents
    from gymnasium import spaces
    cls = agents.algo_class(case["algo"])
    agents.seed_all(seed)
    hi = float(case.get("box", 1.0))         # contexts scaled by 2**e declare the matching observation space
    return cls(spaces.Box(-hi, hi, (obs_dim(case),), np.float32), spaces.Discrete(case["arms"]),
               net_config=net_config(case), hp_config=hp_config(case),
               gamma=case["gamma"], lamb=case["lamb"], batch_size=4, learn_step=1, device="cpu",
               accelerator=accelerator)


def make_context(case, seed, shape=None) -> np.ndarray:
    """the context matrix of one decision (one row per arm).  `shape` (4th element of an `act` op) makes it a
    degenerate but legal one, applied in this order:
      onehot: every row is a unit vector (block contexts: the shared feature vector is one)
      scale e: all entries times 2**e (tiny / huge magnitudes; the case's `box` declares the space)
      dup [i, j]: arm j's row is a copy of arm i's
      zero [k, ...]: these arms' rows are exactly all zeros (padding arms)"""
    rng = np.random.default_rng([seed & 0xFFFFFFFF, 19])
    k, d = case["arms"], case["ctx_dim"]
    shape = shape or {}
    if case["ctx_kind"] == "block":          # agilerl.wrappers.learning.BanditEnv: one feature vector,
        x = rng.uniform(-1, 1, size=d)       # copied into block i of arm i's context
        if shape.get("onehot"):
            x = np.eye(d)[int(rng.integers(d))]
        ctx = np.zeros((k, k * d))
        for i in range(k):
            ctx[i, i * d:(i + 1) * d] = x
    else:
        ctx = rng.uniform(-1, 1, size=(k, d))
        if shape.get("onehot"):
            ctx = np.eye(d)[rng.integers(d, size=k)]
    if shape.get("scale") is not None:
        ctx = ctx * 2.0 ** int(shape["scale"])
    if shape.get("dup"):
        i, j = (int(a) % k for a in shape["dup"])
        ctx[j] = ctx[i]
    for a in shape.get("zero", []):
        ctx[int(a) % k] = 0.0
    return ctx.astype(np.float32)


class DenseEnv:
    """stand-in for BanditEnv when every arm has its own dense context (reset() -> contexts, step(k) ->
    (contexts, reward)); block contexts use the real agilerl.wrappers.learning.BanditEnv"""

    def __init__(self, case, seed):
        self.case, self.seed, self.t = case, seed, 0

    def reset(self):
        self.t += 1
        return make_context(self.case, self.seed * 1000 + self.t)

    def step(self, k):
        self.t += 1
        return make_context(self.case, self.seed * 1000 + self.t), float((int(k) + self.t) % 2)


def make_env(case, seed):
    if case["ctx_kind"] != "block":
        return DenseEnv(case, seed)
    import pandas as pd
    from agilerl.wrappers.learning import BanditEnv
    rng = np.random.default_rng([seed & 0xFFFFFFFF, 23])
    rows = max(6, 2 * case["arms"])
    feats = pd.DataFrame(rng.uniform(-1, 1, size=(rows, case["ctx_dim"])).astype(np.float32))
    targs = pd.DataFrame({"y": [i % case["arms"] for i in range(rows)]})
    import warnings
    with warnings.catch_warnings():
        warnings.simplefilter("ignore", FutureWarning)       # pandas positional indexing inside BanditEnv
        return BanditEnv(feats, targs)


def live_layer(agent):
    return agent.actor.get_output_dense()


def layer_numel(layer) -> int:
    return sum(int(w.numel()) for w in layer.parameters() if w.requires_grad)


def features(agent, ctx):
    """(mu, g): g[k] = gradient of arm k's output w.r.t. the output layer's parameters, scaled as
    get_action does; computed with autograd.grad so that no .grad field is touched"""
    layer = live_layer(agent)
    params = [w for w in layer.parameters() if w.requires_grad]
    obs = agent.preprocess_observation(ctx)
    mu = agent.actor(obs)
    rows = []
    for fx in mu:
        grads = torch.autograd.grad(fx, params, retain_graph=True)
        rows.append(torch.cat([gr.detach().flatten() / np.sqrt(layer.weight.size(0)) for gr in grads]))
    return mu.detach().reshape(-1).double().numpy(), torch.stack(rows).detach()


def mutations(kind: str, seed: int, accelerator=None):
    from agilerl.hpo.mutation import Mutations
    kw = dict(no_mutation=0, architecture=0, new_layer_prob=0.5, parameters=0, activation=0, rl_hp=0,
              mutation_sd=0.1, rand_seed=seed, device="cpu", accelerator=accelerator)
    kw[{"none": "no_mutation", "arch": "architecture", "param": "parameters", "act": "activation",
        "rl_hp": "rl_hp"}[kind]] = 1
    return Mutations(**kw)


def init_kind(S: torch.Tensor, lamb: float):
    """'paper' / 'code' / None: is S exactly a freshly initialised matrix, and under which reading"""
    n = S.shape[0]
    if S.dim() != 2 or S.shape[1] != n or n == 0:
        return None
    S64 = S.double()
    c = float(S64[0, 0])
    if not torch.equal(S64, c * torch.eye(n, dtype=torch.float64)):
        return None
    if abs(c - 1.0 / lamb) <= 1e-6 / lamb:
        return "paper"
    if abs(c - lamb) <= 1e-6 * lamb:
        return "code"
    return "other"


# ----------------------------------------------------------------------------- one case on the implementation
class Trace:
    def __init__(self):
        self.model_lines: list[str] = []
        self.expect: list[tuple] = []       # ("eq", text) | ("mat", ndarray) | ("bonus", floats, meta) | ("any",)
        self.problems: list[str] = []       # property oracle
        self.tags: list[str] = []
        self.findings: dict[str, str] = {}
        self.updates = 0
        self.resizes = 0
        self.sem = None

    def add(self, line: str, exp: tuple):
        self.model_lines.append(line)
        self.expect.append(exp)


def oracle_state(tr: Trace, agent, Z64, where: str):
    """the property on the implementation's own state (float64)"""
    S = agent.sigma_inv.detach().double()
    layer = live_layer(agent)
    P = layer_numel(layer)
    if tuple(S.shape) != (P, P):
        tr.problems.append(f"{where}: sigma_inv is {tuple(S.shape)} but the output layer has {P} parameters")
        return
    if int(agent.numel) != P:
        tr.problems.append(f"{where}: agent.numel={agent.numel} but the output layer has {P} parameters")
    if hasattr(agent, "exp_layer") and agent.exp_layer is not layer:
        tr.problems.append(f"{where}: agent.exp_layer is not the output layer of agent.actor")
    Sn = S.numpy()
    scale = max(1e-30, float(np.abs(Sn).max()))
    if not np.isfinite(Sn).all():
        tr.problems.append(f"{where}: sigma_inv has non-finite entries")
        return
    asym = float(np.abs(Sn - Sn.T).max())
    if asym > TOL * scale:                   # same norm-wise float32 allowance as the matrix comparison
        tr.problems.append(f"{where}: sigma_inv not symmetric (max |S - S'| = {asym:.3g}, scale {scale:.3g})")
    ev = np.linalg.eigvalsh((Sn + Sn.T) / 2)
    noise = 1e-5 * scale                     # float32 resolution of the entries
    lam_min = None
    if Z64 is not None and Z64.shape == Sn.shape:
        lam_min = 1.0 / float(np.linalg.eigvalsh(Z64).max())      # smallest eigenvalue the exact inverse has
    strict = lam_min is None or lam_min > 4 * noise
    if (strict and not ev.min() > 0) or ev.min() < -noise:
        tr.problems.append(f"{where}: sigma_inv not positive definite (min eigenvalue {ev.min():.3g}, "
                           f"exact inverse would have {lam_min})")
    if Z64 is not None and Z64.shape == Sn.shape:
        n = Sn.shape[0]
        resid = float(np.abs(Sn @ Z64 - np.eye(n)).max())
        bound = TOL * (1.0 + n * scale * float(np.abs(Z64).max()))
        if resid > bound:
            tr.problems.append(f"{where}: sigma_inv @ (Z0 + sum g g') != I (max residual {resid:.3g} > {bound:.3g})")


MAX_LIVE = 4


def shares_storage(a: torch.Tensor, b: torch.Tensor) -> bool:
    try:
        return a.untyped_storage().data_ptr() == b.untyped_storage().data_ptr()
    except Exception:       # noqa: BLE001
        return a.data_ptr() == b.data_ptr()


def run_impl(case, fault=None) -> Trace:
    """drive the real agents through the case; collect model op lines, expected answers, oracle problems.

    `live` is the list of agents that are alive: the constructed one and every clone made so far (a
    `clone` op keeps the parent alive and selects the copy; `switch k` selects live agent k mod len).
    Each live agent has its own Gram matrix in the oracle and its own slot in the model; after EVERY op
    the state of EVERY live agent is checked, so that a decision of one agent leaking into another
    one's matrix shows on the agent that did not act."""
    import agents
    tr = Trace()
    algo = case["algo"]
    acc = make_accelerator(case)
    if acc is not None:
        tr.tags.append(f"accelerator-gas{case['accel']}")
    live = [{"agent": build(case, case["seed"], acc), "Z": None, "lamb": float(case["lamb"]), "since": 0}]
    cur = 0
    tmpdir = None

    def start_history(slot, S, where="construction"):
        """an initialisation was observed on the implementation: classify it against the agent's CURRENT
        lamb (the lambda of the property is the one in force at the last initialisation), restart the
        Gram matrix"""
        lamb = float(slot["agent"].lamb)
        kind = init_kind(S, lamb)
        if tr.sem is not None and kind in ("paper", "code") and kind != tr.sem and abs(lamb - 1.0) > 1e-6:
            kind = "other"              # the reading of lamb is fixed at construction; c happens to equal lamb
        n = S.shape[0]
        slot["since"] = 0
        if kind in ("paper", "code"):
            if kind == "code" and abs(lamb - 1.0) > 1e-6:
                tr.findings[F_LAMBDA] = (f"{algo}(lamb={lamb}): sigma_inv after init_params = {float(S[0, 0]):g}*I, "
                                         f"the inverse of lamb*I is {1.0 / lamb:g}*I")
            z = (1.0 / lamb) if kind == "code" else lamb
            slot["Z"] = z * np.eye(n)
        else:
            tr.problems.append(f"{where}: sigma_inv was (re-)initialised to {float(S[0, 0]):g}*I, which is neither "
                               f"I/lamb nor lamb*I for the agent's current lamb={lamb:g} (1/lamb={1.0 / lamb:g})")
            slot["Z"] = None
        return kind

    def sync_lamb(slot, where):
        """agent.lamb is an ordinary attribute: tell the model whenever it has changed"""
        now = float(slot["agent"].lamb)
        if now != slot["lamb"]:
            slot["lamb"] = now
            tr.add(f"bandit setlamb {frac(now)}", ("eq", "ok", where))
            tr.tags.append("lamb-changed")

    def reinit_observed(slot, where, explicit):
        """after an op that runs init_params: restart the oracle's history if sigma_inv is a scalar matrix again"""
        S = slot["agent"].sigma_inv.detach()
        k = init_kind(S, float(slot["agent"].lamb))
        if k in ("paper", "code") or (k == "other" and (explicit or slot["since"] > 0)):
            # (a scalar matrix after decisions can only come from an initialisation)
            start_history(slot, S, where)
            tr.tags.append("reinitialised")

    def observe(i: int, where: str):
        ag = live[i]["agent"]
        S = ag.sigma_inv.detach()
        layer = live_layer(ag)
        sq = 1 if (S.dim() == 2 and tuple(S.shape) == (int(ag.numel), int(ag.numel))) else 0
        tr.add("bandit sizes", ("eq", f"{layer_numel(layer)} {int(ag.numel)} {int(S.shape[0])} {sq}", where))
        tr.add(f"bandit fix {FIX_BITS}", ("mat", S.double().numpy().copy(), where))
        oracle_state(tr, ag, live[i]["Z"], where)

    alias_note: list[str] = []

    def after(where: str):
        n0 = len(tr.problems)
        after_(where)
        if alias_note and len(tr.problems) > n0:
            tr.problems[n0:] = [p + f" [{alias_note[-1]}]" for p in tr.problems[n0:]]

    def after_(where: str):
        observe(cur, where)
        if len(live) > 1:                   # every other live agent must be exactly where it was
            for i in range(len(live)):
                if i != cur:
                    w = f"{where} / bystander agent {i}"
                    tr.add(f"bandit sel {i}", ("eq", "ok", w))
                    observe(i, w)
            tr.add(f"bandit sel {cur}", ("eq", "ok", where))

    try:
        kind = start_history(live[0], live[0]["agent"].sigma_inv.detach())
        tr.sem = kind if kind in ("paper", "code") else "paper"
        tr.add(f"bandit new {tr.sem} {frac(float(case['lamb']))} {layer_numel(live_layer(live[0]['agent']))}",
               ("eq", "ok", "new"))
        after("after construction")
        for oi, op in enumerate(case["ops"]):
            where = f"op {oi} {op[0]}" + (f" (agent {cur})" if len(live) > 1 else "")
            slot = live[cur]
            agent = slot["agent"]
            if op[0] == "act":
                shape = op[3] if len(op) > 3 else None
                ctx = make_context(case, op[1], shape)
                mask = None if op[2] is None else np.array(op[2])
                mu, g = features(agent, ctx)
                S_before = agent.sigma_inv.detach().double().numpy().copy()
                torch.manual_seed(op[1])
                try:
                    a = int(agent.get_action(ctx, action_mask=mask))
                    raised = None
                except Exception as e:        # noqa: BLE001 - the model decides whether raising is right
                    a, raised = 0, f"{type(e).__name__}: {e}"
                # NOTE: whatever get_action leaves in .grad stays there, as in train_bandits
                g64 = g.double().numpy()
                if raised is None and g64.shape[1] == S_before.shape[0]:
                    # exploration bonus of every arm (matrix used by this decision)
                    b_impl = np.einsum("ki,ij,kj->k", g64, S_before, g64)
                    tol_b = 1e-5 * max(1e-30, float(np.abs(S_before).max())) * float((g64 ** 2).sum(1).max())
                    if (b_impl < -tol_b).any():
                        tr.problems.append(f"{where}: g' sigma_inv g < 0 for an arm: {b_impl.tolist()}")
                    smax = float(np.abs(S_before).max())
                    for k in range(g64.shape[0]):
                        # |g'(S-B)g| <= max|S-B| * (sum |g_i|)^2: norm-wise, like the matrix comparison
                        slack = TOL * smax * float(np.abs(g64[k]).sum()) ** 2
                        tr.add("bandit bonus " + " ".join(frac(float(x)) for x in g[k].tolist()),
                               ("bonus", float(b_impl[k]), where, slack))
                    tr.expect.append(("argmax", dict(algo=algo, mu=mu.tolist(), gamma=float(agent.gamma),
                                                     mask=op[2], action=a, n=g64.shape[0]), where))
                    tr.model_lines.append("bandit count")
                tr.add("bandit update " + " ".join(frac(float(x)) for x in g[a].tolist()),
                       ("eq", "ok" if raised is None else "reject", where + (f" [{raised}]" if raised else "")))
                if raised is not None:
                    tr.problems.append(f"{where}: get_action raised {raised}")
                    tr.tags.append("act-raised")
                    break
                tr.updates += 1
                slot["since"] += 1
                if not bool(getattr(agent, "training", True)):
                    tr.tags.append("act-in-eval-mode")
                if slot["Z"] is not None and slot["Z"].shape[0] == g64.shape[1]:
                    slot["Z"] = slot["Z"] + np.outer(g64[a], g64[a])
                tr.tags.append("act-masked" if mask is not None else "act")
                if shape:
                    tr.tags += [f"ctx-{n}" for n in sorted(shape)]
                    if shape.get("scale") is not None:
                        tr.tags.append("ctx-scale-tiny" if int(shape["scale"]) < 0 else "ctx-scale-huge")
                    if a in [int(z) % case["arms"] for z in shape.get("zero", [])]:
                        tr.tags.append("ctx-zero-row-chosen")      # the padding arm's decision must be absorbed too
                    if shape.get("dup") and a in [int(z) % case["arms"] for z in shape["dup"]]:
                        tr.tags.append("ctx-dup-row-chosen")
                if case["arms"] == 1:
                    tr.tags.append("single-arm")
                if len(live) > 1:
                    tr.tags.append("act-beside-clone")
                after(where)
            elif op[0] == "learn":
                agents.learn_once(agent, algo, "vector", seed=op[1])
                # NOTE: learn() leaves the loss gradients in .grad (as in train_bandits); the next decision
                # must not let them into its gradient features, so they are NOT cleared here
                if any(p.grad is not None and bool(p.grad.abs().sum() > 0) for p in live_layer(agent).parameters()):
                    tr.tags.append("learn-left-grads")
                tr.add("bandit learn", ("eq", "ok", where))
                tr.tags.append("learn")
                after(where)
            elif op[0] == "mutate":
                before = layer_numel(live_layer(agent))
                agents.seed_all(op[2])
                agent = mutations(op[1], op[2], acc).mutation([agent])[0]
                slot["agent"] = agent
                P = layer_numel(live_layer(agent))
                sync_lamb(slot, where)               # an rl_hp mutation may have changed lamb before the hook ran
                tr.add(f"bandit mutate {P}", ("eq", "ok", where))
                tr.tags.append(f"mut-{op[1]}")
                if op[1] == "rl_hp":
                    tr.tags.append(f"rl_hp-{agent.mut}")
                if P != before:
                    tr.resizes += 1
                    tr.tags.append("output-layer-resized")
                reinit_observed(slot, where, explicit=False)
                after(where)
            elif op[0] == "setattr":                 # plain assignment of a hyper-parameter
                if op[1] not in ("lamb", "gamma"):
                    raise InfraError(f"setattr of {op[1]}")
                setattr(agent, op[1], float(op[2]))
                sync_lamb(slot, where)
                tr.tags.append(f"setattr-{op[1]}")
                after(where)
            elif op[0] == "init":                    # explicit agent.init_params()
                agent.init_params()
                sync_lamb(slot, where)
                tr.add("bandit hook", ("eq", "ok", where))
                tr.tags.append("init")
                reinit_observed(slot, where, explicit=True)
                after(where)
            elif op[0] == "test":                    # fitness evaluation as the training loops do it
                random.seed(op[1])
                fit = agent.test(make_env(case, op[1]), max_steps=int(op[2]) if len(op) > 2 else 3, loop=1)
                if not np.isfinite(float(fit)):
                    tr.problems.append(f"{where}: test() returned {fit}")
                tr.add("bandit eval", ("eq", "ok", where))
                tr.tags.append("test")
                after(where)
            elif op[0] == "mode":
                agent.set_training_mode(bool(op[1]))
                tr.add("bandit eval", ("eq", "ok", where))
                tr.tags.append(f"mode-{'train' if op[1] else 'eval'}")
                after(where)
            elif op[0] == "clone":
                child = agent.clone()
                if shares_storage(child.sigma_inv, agent.sigma_inv):
                    # root cause only: the violation is reported where a matrix stops being the inverse
                    alias_note.append(f"op {oi}: the clone's sigma_inv shares its memory with its parent's (agent {cur})")
                if len(live) >= MAX_LIVE:            # keep the session small: the copy replaces its parent
                    slot["agent"] = child
                    tr.add("bandit clone", ("eq", "ok", where))
                else:
                    live.append({"agent": child, "Z": None if slot["Z"] is None else slot["Z"].copy(),
                                 "lamb": slot["lamb"], "since": slot["since"]})
                    tr.add("bandit fork", ("eq", str(len(live) - 1), where))
                    cur = len(live) - 1
                tr.tags.append("clone")
                after(where)
            elif op[0] == "switch":
                new = int(op[1]) % len(live)
                if new != cur:
                    cur = new
                    tr.add(f"bandit sel {cur}", ("eq", "ok", where))
                    tr.tags.append("switch")
            elif op[0] == "reload":
                if tmpdir is None:
                    tmpdir = tempfile.mkdtemp(prefix="verif_c19_")
                path = os.path.join(tmpdir, f"ckpt_{oi}.pt")
                agent.save_checkpoint(path)
                if op[1] == "load":
                    agent = type(agent).load(path, device="cpu", accelerator=acc)
                elif op[1] == "ckpt_self":
                    agent.load_checkpoint(path)
                else:                               # a fresh agent of the *original* architecture
                    fresh = build(case, case["seed"] + 7, acc)
                    fresh.load_checkpoint(path)
                    agent = fresh
                slot["agent"] = agent
                os.remove(path)
                if hasattr(agent, "exp_layer") and agent.exp_layer is not live_layer(agent):
                    try:                            # what the stale reference does to the next decision
                        agent.get_action(make_context(case, 0))
                        seen = "get_action still returns"
                    except Exception as e:          # noqa: BLE001
                        seen = f"get_action raises {type(e).__name__}: {e}"
                    for p in agent.actor.parameters():
                        p.grad = None
                    tr.findings[F_EXP] = (f"{algo}: after {op[1]} agent.exp_layer is a detached copy of the output "
                                          f"layer, not the layer of agent.actor; {seen}")
                    agent.exp_layer = live_layer(agent)      # continue the history past the analysed defect
                tr.add("bandit reload", ("eq", "ok", where))
                tr.tags.append(f"reload-{op[1]}")
                after(where)
            else:
                raise InfraError(f"unknown op {op}")
        for i in range(len(live)):
            if len(live) > 1:
                tr.add(f"bandit sel {i}", ("eq", "ok", "final"))
            tr.add("bandit check", ("eq", "1", f"model self-check (agent {i}): gram * sigma_inv = I exactly"))
            tr.add("bandit symm", ("eq", "1", f"model self-check (agent {i}): sigma_inv exactly symmetric"))
    except InfraError:
        raise
    except Exception as e:                # noqa: BLE001 - a legal history made the implementation raise
        tr.problems.append(f"implementation raised {type(e).__name__}: {e}")
    finally:
        if tmpdir is not None:
            shutil.rmtree(tmpdir, ignore_errors=True)
    return tr


# ----------------------------------------------------------------------------- compare with the model
def compare(chk: Check, tr: Trace):
    """returns the list of disagreements between implementation and Model/Bandit.lean"""
    out = chk.driver.run(["reset"] + tr.model_lines)[1:]
    chk.corr["model_lines"] += len(tr.model_lines)
    diffs = []
    bonus_buf: list[float] = []
    slack_buf: list[float] = []
    it = iter(out)
    for exp in tr.expect:
        if exp[0] == "argmax":
            cnt = next(it)                           # answer of "bandit count" (ignored: ghost state)
            meta = exp[1]
            b = np.array(bonus_buf[-meta["n"]:])
            e = np.array(slack_buf[-meta["n"]:])
            bonus_buf, slack_buf = [], []
            if meta["algo"] == "NeuralUCB" and len(b) == meta["n"] and cnt.isdigit():
                vals = np.array(meta["mu"]) + meta["gamma"] * np.sqrt(np.maximum(b, 0.0))
                legal = np.ones(len(vals), bool) if meta["mask"] is None else (np.array(meta["mask"]).reshape(-1) == 1)
                if legal.any():
                    best = vals[legal].max()
                    a = meta["action"]
                    # float32 drift of the bonuses moves sqrt(b) by at most sqrt(b + e) - sqrt(b)
                    drift = meta["gamma"] * float((np.sqrt(np.maximum(b, 0.0) + e) - np.sqrt(np.maximum(b, 0.0))).max())
                    if not legal[a] or vals[a] < best - 2 * drift - TOL * (1 + abs(best)):
                        diffs.append(f"{exp[2]}: NeuralUCB chose arm {a} but mu + gamma*sqrt(exact bonus) = "
                                     f"{vals.tolist()} (legal {legal.tolist()})")
            continue
        ans = next(it)
        if exp[0] == "eq":
            if ans != exp[1]:
                diffs.append(f"{exp[2]}: implementation {exp[1]!r} model {ans!r}")
        elif exp[0] == "bonus":
            try:
                b = float(Fraction(ans))
            except (ValueError, ZeroDivisionError):
                diffs.append(f"{exp[2]}: model bonus {ans!r}")
                continue
            bonus_buf.append(b)
            slack_buf.append(exp[3])
            if b < 0:
                diffs.append(f"{exp[2]}: exact bonus negative {ans}")
            if abs(b - exp[1]) > exp[3] + 1e-12:
                diffs.append(f"{exp[2]}: g' sigma_inv g implementation {exp[1]:.9g} model {b:.9g} "
                             f"(allowed {exp[3]:.3g})")
        elif exp[0] == "mat":
            S = exp[1]
            try:
                vals = np.array([int(w) for w in ans.split()], dtype=object)
            except ValueError:
                diffs.append(f"{exp[2]}: model matrix {ans[:60]!r}")
                continue
            if vals.size != S.size:
                diffs.append(f"{exp[2]}: sigma_inv has {S.size} entries, the model's {vals.size}")
                continue
            B = np.array([float(Fraction(int(v), 1 << FIX_BITS)) for v in vals]).reshape(S.shape)
            err = float(np.abs(S - B).max()) if S.size else 0.0
            scale = float(np.abs(B).max()) if S.size else 1.0
            if not err <= TOL * scale:
                i, j = np.unravel_index(int(np.abs(S - B).argmax()), S.shape)
                diffs.append(f"{exp[2]}: sigma_inv differs from the exact inverse: max |S - B| = {err:.3g} "
                             f"(scale {scale:.3g}) at ({i},{j}): {S[i, j]:.9g} vs {B[i, j]:.9g}")
    return diffs


def one_case(chk: Check, case, fault=None):
    tr = run_impl(case, fault)
    diffs = compare(chk, tr)
    return tr, diffs


# ----------------------------------------------------------------------------- generation
SCALES_TINY = [-24, -12, -6]
SCALES_HUGE = [3, 6, 8]


def gen_shape(rng: random.Random, case, p: float = 0.3):
    """(shape, mask): a degenerate but legal context matrix for one decision - rows that are exactly zero
    (half of the time the decision is forced onto such an arm by the mask), two arms with the same row,
    unit-vector rows, tiny / huge magnitudes, and combinations; (None, None) with probability 1 - p"""
    if rng.random() >= p:
        return None, None
    k = case["arms"]
    shape, mask = {}, None
    kinds = rng.choice([["zero"], ["zero"], ["dup"], ["onehot"], ["scale"], ["zero", "onehot"], ["zero", "scale"],
                        ["dup", "zero"], ["dup", "scale"], ["onehot", "scale"]])
    if "onehot" in kinds:
        shape["onehot"] = 1
    if "scale" in kinds:
        shape["scale"] = rng.choice(SCALES_TINY + (SCALES_HUGE if case.get("box", 1.0) > 1 else []))
    if "dup" in kinds:
        i = rng.randrange(k)
        shape["dup"] = [i, (i + 1 + rng.randrange(max(1, k - 1))) % k]
    if "zero" in kinds:
        zs = sorted(rng.sample(range(k), 1 if rng.random() < 0.7 else rng.randint(1, k)))
        shape["zero"] = zs
        if rng.random() < 0.5:
            z = rng.choice(zs)
            mask = [1 if j == z else 0 for j in range(k)]
    elif "dup" in kinds and rng.random() < 0.4:
        z = rng.choice(shape["dup"])
        mask = [1 if j == z else 0 for j in range(k)]
    return shape, mask


def gen_case(rng: random.Random, tier: str, grow: bool = False, degenerate: float = 0.3):
    algo = rng.choice(["NeuralUCB", "NeuralTS"])
    lamb = rng.choice([1.0, 1.0, 0.5, 2.0, 0.25, 4.0, 1.5, 0.1, 3.7])
    case = {
        "algo": algo, "lamb": lamb, "gamma": rng.choice([1.0, 0.5, 2.0, 0.3]),
        "ctx_dim": rng.randint(2, 4), "arms": rng.randint(2, 4), "ctx_kind": rng.choice(["block", "dense"]),
        "head": [rng.randint(2, 11)] if rng.random() < 0.35 else [rng.randint(2, 11), rng.randint(2, 11)],
        "layer_norm": rng.random() < 0.7, "activation": rng.choice(["ReLU", "Tanh", "ELU", "GELU"]),
        "seed": rng.randrange(1 << 30),
    }
    # non-default network configurations: the gradient features are whatever autograd gives for THIS network
    if rng.random() < 0.4:
        case["out_act"] = rng.choice(["Sigmoid", "Tanh", "Softsign", "ELU"])
    if rng.random() < 0.4:
        case["latent"] = rng.choice([[2, 2, 8], [6, 2, 8], [8, 4, 8], [3, 2, 4]])
    if rng.random() < 0.4:
        case["enc"] = rng.choice([[2], [6], [3, 5], [8]])
    case["hp"] = rng.choice(["default", "lamb", "all"])
    if rng.random() < 0.3:
        case["accel"] = rng.choice([1, 2, 4])          # agent built with an accelerate.Accelerator
    if grow:
        case["head"], case["max_nodes"] = [8], 24
    if rng.random() < 0.12:
        case["arms"] = 1                               # a single arm: nothing to choose, every decision counts
    if rng.random() < 0.4:
        case["box"] = 256.0                            # wide observation space: contexts of huge magnitude are legal

    def act(seed_mask=None):
        """one decision; with probability `degenerate` on a degenerate context matrix (gen_shape)"""
        shape, forced = gen_shape(rng, case, degenerate)
        op = ["act", rng.randrange(1 << 30), forced if forced is not None else seed_mask]
        return op + [shape] if shape else op
    ops = []
    n_ops = rng.randint(8, 24) if tier == "quick" else rng.randint(10, 48)
    long_history = rng.random() < 0.3          # few re-initialisations: up to 30 updates of one matrix
    p_act, p_learn, p_mut, p_clone = (0.74, 0.84, 0.88, 0.94) if long_history else (0.60, 0.72, 0.86, 0.93)
    if long_history:
        n_ops = 36
    acts = 0
    clones = 0
    for _ in range(n_ops):
        if ops and rng.random() < 0.10:
            # the agent's life besides deciding: hyper-parameters change, the matrix is re-initialised
            # explicitly, fitness is evaluated, the training flag is switched; decisions follow each of them
            q = rng.random()
            if q < 0.40:
                name = "lamb" if rng.random() < 0.7 else "gamma"
                ops.append(["setattr", name, rng.choice([0.25, 0.5, 1.0, 2.0, 3.0, 0.7])])
                if rng.random() < 0.6:
                    ops.append(act())
                    acts += 1
                ops.append(rng.choice([["init"], ["mutate", "none", rng.randrange(1 << 30)],
                                       ["mutate", "arch", rng.randrange(1 << 30)], ["learn", rng.randrange(1 << 30)]]))
            elif q < 0.55:
                ops.append(["mutate", "rl_hp", rng.randrange(1 << 30)])
            elif q < 0.65:
                ops.append(["init"])
            elif q < 0.85:
                ops.append(["test", rng.randrange(1 << 30), rng.randint(1, 3)])
            else:
                ops.append(["mode", rng.random() < 0.5])
            ops.append(act())
            acts += 1
            continue
        r = rng.random()
        if (r < p_act or not ops) and acts < 30:
            mask = None
            if rng.random() < 0.3:
                mask = [rng.randint(0, 1) for _ in range(case["arms"])]
                if not any(mask):
                    mask[rng.randrange(case["arms"])] = 1
            ops.append(act(mask))
            acts += 1
        elif r < p_learn:
            ops.append(["learn", rng.randrange(1 << 30)])
            if rng.random() < 0.5 and acts < 30:      # the decision right after a learn step, forced onto one arm
                k = 0 if rng.random() < 0.5 else rng.randrange(case["arms"])
                fo = act()
                fo[2] = [1 if j == k else 0 for j in range(case["arms"])]      # whatever the context looks like
                ops.append(fo)
                acts += 1
        elif r < p_mut:
            kind = "arch" if (grow or rng.random() < 0.45) else rng.choice(MUT_KINDS)
            ops.append(["mutate", kind, rng.randrange(1 << 30)])
        elif r < p_clone:
            if clones < MAX_LIVE - 1 and not grow:
                # parent and copy both stay alive and decide alternately, with no mutation in between
                clones += 1
                ops.append(["clone"])
                for _ in range(rng.randint(2, 4)):
                    ops.append(act())
                    ops.append(["switch", rng.randrange(8)])
                    acts += 1
            else:
                ops.append(["clone"])
        elif r < p_clone + 0.03 and clones:
            ops.append(["switch", rng.randrange(8)])
        else:
            ops.append(["reload", rng.choice(["load", "ckpt_self", "ckpt_fresh"])])
    if grow:
        ops = ops[:10] + [act()]
    case["ops"] = ops
    return case


def crafted_cases():
    """fixed part of every run: each learn step is directly followed by a decision that a mask forces
    onto one given arm (every arm in turn, arm 0 first) - the gradients learn() leaves in .grad must not
    enter the feature of any arm; then the same with a clone deciding beside its parent"""
    out = []
    for algo in ("NeuralUCB", "NeuralTS"):
        for variant, (lamb, gamma, arms, kind) in enumerate([(0.5, 1.0, 3, "dense"), (2.0, 0.5, 4, "block")]):
            ops = [["act", 11, None]]
            s = 100 * variant
            for rnd in range(2):
                for k in range(arms):
                    s += 1
                    mask = [1 if j == k else 0 for j in range(arms)]
                    ops += [["learn", 1000 + s], ["act", 2000 + s, mask]]
            ops += [["learn", 3000], ["act", 3001, None], ["clone"], ["learn", 3002],
                    ["act", 3003, [1] + [0] * (arms - 1)], ["switch", 0], ["learn", 3004],
                    ["act", 3005, [1] + [0] * (arms - 1)]]
            out.append({"algo": algo, "lamb": lamb, "gamma": gamma, "ctx_dim": 3, "arms": arms, "ctx_kind": kind,
                        "head": [6], "layer_norm": variant == 0, "activation": "ReLU", "seed": 700 + variant,
                        "ops": ops})
    base = {"gamma": 1.0, "ctx_dim": 3, "arms": 3, "head": [5], "layer_norm": True, "activation": "ReLU"}
    one = lambda k, n=3: [1 if j == k else 0 for j in range(n)]      # noqa: E731
    for i, algo in enumerate(("NeuralUCB", "NeuralTS")):
        # lamb (and gamma) change during the agent's life; the next initialisation must use the current value
        ops = [["act", 1, None], ["act", 2, None], ["setattr", "lamb", 0.25], ["act", 3, None], ["init"],
               ["act", 4, None], ["setattr", "lamb", 3.0], ["mutate", "none", 5], ["act", 6, None],
               ["setattr", "gamma", 2.0], ["act", 7, None], ["setattr", "lamb", 0.5], ["act", 8, None],
               ["mutate", "arch", 9], ["act", 10, None], ["clone"], ["act", 11, None], ["init"], ["act", 12, None],
               ["switch", 0], ["act", 13, None], ["reload", "load"], ["setattr", "lamb", 2.0], ["init"],
               ["act", 14, None]]
        out.append(dict(base, algo=algo, lamb=2.0, ctx_kind="dense", seed=710 + i, hp="default", ops=ops))
        ops = [["act", 1, None]]
        for s in range(6):                   # rl_hp mutations that can only pick lamb or gamma
            ops += [["mutate", "rl_hp", 40 + s], ["act", 50 + s, None], ["act", 60 + s, one(s % 3)]]
        ops += [["clone"], ["mutate", "rl_hp", 70], ["act", 71, None], ["switch", 0], ["act", 72, None],
                ["reload", "ckpt_fresh"], ["mutate", "rl_hp", 73], ["act", 74, None]]
        out.append(dict(base, algo=algo, lamb=1.0, ctx_kind="block", ctx_dim=2, seed=720 + i, hp="lamb", ops=ops))
        # the head ends in a non-identity output activation: features carry act'(z)
        for j, act in enumerate(("Sigmoid", "Tanh")):
            ops = [["act", 1, None], ["act", 2, one(0)], ["act", 3, one(1)], ["act", 4, one(2)], ["learn", 5],
                   ["act", 6, one(0)], ["act", 7, None], ["mutate", "param", 8], ["act", 9, None], ["act", 10, one(2)]]
            out.append(dict(base, algo=algo, lamb=[0.5, 2.0][j], ctx_kind=["dense", "block"][j], seed=730 + 2 * i + j,
                            out_act=act, layer_norm=bool(j), latent=[[6, 2, 8], [3, 2, 4]][j], enc=[[3, 5], [6]][j],
                            ops=ops))
        # architecture mutations until the output layer has been resized (remove_layer: 4 -> 8 parameters)
        ops = [["act", 1, None]]
        for sd in range(10):
            ops += [["mutate", "arch", sd], ["act", 20 + sd, None]]
        out.append(dict(base, algo=algo, lamb=2.0, ctx_kind="dense", head=[7, 3], seed=750 + i, ops=ops))
        # agents built with an accelerator (gradient accumulation 4 and the default 1)
        for j, gas in enumerate((4, 1)):
            ops = [["act", 1, None], ["act", 2, one(0)], ["learn", 3], ["act", 4, None], ["mutate", "arch", 5],
                   ["act", 6, None], ["clone"], ["act", 7, None], ["switch", 0], ["act", 8, None],
                   ["reload", ["load", "ckpt_fresh"][j]], ["act", 9, None], ["test", 10, 2], ["act", 11, None]]
            out.append(dict(base, algo=algo, lamb=[0.5, 2.0][j], ctx_kind=["dense", "block"][j], ctx_dim=2,
                            seed=760 + 2 * i + j, accel=gas, ops=ops))
        # a long life of one matrix: 135 decisions since the last initialisation on a tiny net, a clone
        # and a reload in the middle (periodic effects at 50 / 64 / 100 / 128 updates, float32 drift)
        ops = [["act", 1000 + t, None] for t in range(45)] + [["clone"]] + \
              [["act", 2000 + t, None] for t in range(10)] + [["switch", 0], ["reload", "load"]] + \
              [["act", 3000 + t, one(t % 2, 2) if t % 9 == 0 else None] for t in range(40)] + [["learn", 4000]] + \
              [["act", 5000 + t, None] for t in range(40)]
        out.append(dict(base, algo=algo, lamb=1.0, arms=2, ctx_dim=2, ctx_kind="dense", head=[3], seed=770 + i, ops=ops))
        # decisions after a fitness evaluation / in evaluation mode count like any other
        ops = [["act", 1, None], ["test", 2, 3], ["act", 3, None], ["act", 4, one(1)], ["learn", 5], ["act", 6, None],
               ["clone"], ["act", 7, None], ["switch", 0], ["act", 8, None], ["reload", "load"], ["act", 9, None],
               ["mode", True], ["act", 10, None], ["mode", False], ["act", 11, None], ["mutate", "none", 12],
               ["act", 13, None], ["test", 14, 2], ["act", 15, None]]
        out.append(dict(base, algo=algo, lamb=1.5, ctx_kind=["block", "dense"][i], ctx_dim=2, seed=740 + i, ops=ops))
        out += degenerate_cases(algo, i)
    return out


def degenerate_cases(algo, i):
    """degenerate but legal context matrices: an arm whose row is exactly zero (a padding arm) - chosen because the
    mask leaves only it, or free to be chosen -, all rows zero, two arms with the same row, unit-vector rows,
    tiny / huge magnitudes; before and after learn / architecture mutation / clone / reload; and a single arm.
    The feature of the arm that get_action returns is d f / d(output layer) = (h(x), 1) * act'(z), never zero."""
    out = []
    one = lambda k, n=3: [1 if j == k else 0 for j in range(n)]      # noqa: E731
    Z = lambda *a: {"zero": list(a)}                                  # noqa: E731
    for v, (kind, ln, out_act, lamb) in enumerate([("dense", True, None, 2.0), ("block", False, "Tanh", 0.5)]):
        ops = [["act", 1, None], ["act", 2, one(1), Z(1)], ["act", 3, None, Z(0)], ["act", 4, None, {"dup": [0, 2]}],
               ["act", 5, one(1), {"dup": [0, 1]}], ["act", 6, None, {"onehot": 1}],
               ["act", 7, one(2), {"onehot": 1, "zero": [2]}], ["act", 8, None, {"scale": -24}],
               ["act", 9, one(0), {"scale": -24, "zero": [0]}], ["act", 10, None, {"scale": 8}],
               ["act", 11, None, {"scale": 8, "dup": [1, 2], "zero": [0]}], ["act", 12, None, Z(0, 1, 2)],
               ["learn", 13], ["act", 14, one(0), Z(0)], ["act", 15, [1, 1, 0], Z(0, 1)],
               ["mutate", "arch", 16 + v], ["act", 17, one(1), Z(1)], ["clone"], ["act", 18, one(0), Z(0)],
               ["switch", 0], ["act", 19, None, Z(2)], ["act", 20, one(2), Z(2)], ["reload", "load"],
               ["act", 21, one(2), Z(2)], ["act", 22, None]]
        c = dict(algo=algo, lamb=lamb, gamma=[1.0, 2.0][v], ctx_dim=3, arms=3, ctx_kind=kind, head=[5], layer_norm=ln,
                 activation=["ReLU", "Tanh"][v], seed=780 + 2 * i + v, box=256.0, ops=ops)
        if out_act:
            c["out_act"] = out_act
        out.append(c)
    # a single arm (Discrete(1)): nothing to choose, the matrix still absorbs every decision
    ops = [["act", 1, None], ["act", 2, [1]], ["act", 3, None, Z(0)], ["act", 4, [1], Z(0)], ["act", 5, None, {"onehot": 1}],
           ["act", 6, None, {"scale": -12}], ["act", 7, None, {"scale": 6}], ["learn", 8], ["act", 9, [1], Z(0)],
           ["mutate", "arch", 10], ["act", 11, None], ["clone"], ["act", 12, None, Z(0)], ["switch", 0], ["act", 13, None],
           ["reload", "ckpt_fresh"], ["act", 14, None, Z(0)], ["test", 15, 2], ["act", 16, None]]
    out.append(dict(algo=algo, lamb=[0.5, 2.0][i], gamma=1.0, ctx_dim=3, arms=1, ctx_kind=["dense", "block"][i], head=[4],
                    layer_norm=True, activation="ReLU", seed=790 + i, box=64.0, ops=ops))
    return out


def key_of(case):
    return [case[k] for k in ("algo", "lamb", "gamma", "ctx_dim", "arms", "ctx_kind", "head", "seed")] + \
        [case.get(k) for k in ("out_act", "latent", "enc", "hp", "accel", "box")] + [case["ops"]]


# ----------------------------------------------------------------------------- check
def report(chk: Check, case, tr: Trace, diffs, origin=None):
    """verdict protocol for one failing case"""
    problems = tr.problems

    def still_fails(sub):
        c = dict(case, ops=sub)
        t, d = one_case(chk, c)
        return bool(t.problems) if problems else bool(d)
    ops = case["ops"]
    m = re.match(r"op (\d+) ", (problems or diffs or [""])[0])
    if m and int(m.group(1)) + 1 < len(ops) and still_fails(ops[:int(m.group(1)) + 1]):
        ops = ops[:int(m.group(1)) + 1]          # nothing after the first failing op is needed
    # (long histories: the failure may need its length, e.g. a periodic effect - keep the prefix)
    small_ops = ddmin(ops, still_fails) if 1 < len(ops) <= 40 else ops
    small = dict(case, ops=small_ops)
    t2, d2 = one_case(chk, small)
    if not (t2.problems if problems else d2):
        small, t2, d2 = case, tr, diffs
    replay_obj = dict(small, oracle_problems=t2.problems, disagreements=d2[:10], origin=origin,
                      correspondence="harness/c19.py vs Model/Bandit.lean", theorems=chk.gate["theorems"])
    if problems:
        chk.violation((t2.problems or problems)[0], replay_obj)
    else:
        chk.violation(f"implementation and Bandit model disagree: {(d2 or diffs)[0]}; property oracle holds on "
                      f"this case and its shrinks", replay_obj, no_input=True)


def minimal_ops_for(fid: str, case):
    """the shortest prefix of the history that shows an analysed defect"""
    if fid == F_LAMBDA:
        return []
    for i, op in enumerate(case["ops"]):
        if op[0] == "reload":
            return [["act", 1, None], op, ["act", 2, None]]
    return case["ops"]


def probe_lambda(chk: Check):
    """D16 on exactly lamb != 1: is sigma_inv after init_params the inverse of lamb*I ?"""
    hit = False
    for algo in ("NeuralUCB", "NeuralTS"):
        case = {"algo": algo, "lamb": 2.0, "gamma": 1.0, "ctx_dim": 2, "arms": 2, "ctx_kind": "dense",
                "head": [3], "seed": 1, "ops": []}
        agent = build(case, 1)
        S = agent.sigma_inv.detach().double()
        n = S.shape[0]
        ok = torch.allclose(S @ (2.0 * torch.eye(n, dtype=torch.float64)), torch.eye(n, dtype=torch.float64), atol=1e-6)
        chk.case(["probe-lambda", algo], nontrivial=True, tags=["probe-lambda"])
        if not ok and not hit:
            hit = True
            chk.finding(F_LAMBDA, f"{algo}(lamb=2.0): sigma_inv after init_params is {float(S[0, 0]):g}*I; "
                                  f"sigma_inv @ (lamb*I) = {float(S[0, 0]) * 2.0:g}*I != I", dict(case, finding=F_LAMBDA))
    return hit


def pre_gate(chk: Check) -> None:
    """Regenerate lean/Gen/BanditGen.lean from the source text of the tree under test (before the Lean gate)
    and re-check `generated = model` (Proofs/BanditGenEq.lean) and the theorems over the generated
    definitions (Props/C19.lean)."""
    import common
    import py2lean_bandit
    import py2lean_banditwire
    # both generated files are imported by Props/C19.lean: bring the second one up to date with the tree under test
    # before the first gate builds that module (its own gate below reports a rejected source)
    try:
        py2lean_banditwire.write_if_changed(py2lean_banditwire.translate(common.REPO)[0],
                                            common.LEAN_DIR / "Gen" / "BanditWireGen.lean")
    except py2lean_banditwire.Unsupported:
        pass
    common.translation_gate(chk, py2lean_bandit, "Gen/BanditGen.lean", ["Gen.BanditGen", "Proofs.BanditGenEq", "Props.C19"],
                            "confidence-matrix expressions of NeuralUCB / NeuralTS init_params and get_action")
    common.translation_gate(chk, py2lean_banditwire, "Gen/BanditWireGen.lean",
                            ["Gen.BanditWireGen", "Proofs.BanditWireGenEq", "Props.C19"],
                            "wiring of sigma_inv / numel / exp_layer: which statements of __init__, init_params, get_action, "
                            "learn, mutation_hook, clone, load_checkpoint, load, Mutations.mutation and the five mutation "
                            "methods touch them, in source order")


def run(chk: Check) -> None:
    rng = chk.rng
    torch.set_num_threads(1)
    n_cases = 30 if chk.tier == "quick" else 360
    n_grow = 2 if chk.tier == "quick" else 24
    chk.rule = ("crafted + random histories; besides the ops below: lamb/gamma changed by assignment or by an rl_hp mutation "
                "whose hp_config lists them, explicit init_params, agent.test(env) on a BanditEnv, set_training_mode, "
                "decisions in both modes; network sweep: head output activation none/Sigmoid/Tanh/Softsign/ELU, layer_norm, "
                "latent 2-8, encoder and head widths; (act with/without mask | learn | Mutations.mutation of each of the five kinds | "
                "clone with parent and copies kept alive and deciding alternately | save+load three ways) on real NeuralUCB/NeuralTS agents: context dim 2-4, 1-4 arms, "
                "BanditEnv-style block contexts or dense ones; 30 % of the decisions on a degenerate context matrix (rows exactly zero with the mask "
                "forcing that arm, all rows zero, duplicate rows, unit-vector rows, magnitudes 2^-24..2^8, combinations), 12 % of the agents "
                "with a single arm; lamb in {1,.5,2,.25,4,1.5,.1,3.7}, output layer "
                "3-12 parameters (grow cases: 9 -> 25); distinct = distinct (configuration, op list); "
                "non-trivial = at least two Sherman-Morrison updates and one learn/mutate/clone/reload in between")
    chk.assumptions = [
        "the gradient feature is recomputed by torch.autograd.grad on the same network; autograd is deterministic on CPU",
        f"float32 sigma_inv is compared with the exact rational matrix norm-wise with relative tolerance {TOL}",
        "an initialisation is recognised on the implementation by sigma_inv being exactly c*I with c in {lamb, 1/lamb}",
        "the network, its forward pass and the optimizer are inputs of the model, not modelled",
    ]
    seen_findings: set[str] = set()
    if probe_lambda(chk):
        seen_findings.add(F_LAMBDA)
    cases = []
    for f in sorted((ROOT / "corpus" / "C19").glob("*.json")):
        c = json.loads(f.read_text())
        cases.append((c.get("replay", c), f.name))
    for c in crafted_cases():
        cases.append((c, "crafted history (harness/c19.py crafted_cases)"))
    for i in range(n_cases):
        cases.append((gen_case(rng, chk.tier), None))
    for i in range(n_grow):
        cases.append((gen_case(rng, chk.tier, grow=True), None))
    ndiff = 0
    failing = []
    for case, origin in cases:
        tr, diffs = one_case(chk, case)
        nontrivial = tr.updates >= 2 and any(t.startswith(("learn", "mut-", "clone", "reload")) for t in tr.tags)
        chk.case(key_of(case), nontrivial=nontrivial,
                 sample={"algo": case["algo"], "lamb": case["lamb"], "arms": case["arms"], "ctx": case["ctx_kind"],
                         "head": case["head"], "ops": [o[:2] for o in case["ops"][:10]]},
                 tags=tr.tags + [case["algo"], f"sem-{tr.sem}", "lamb=1" if case["lamb"] == 1.0 else "lamb!=1"])
        for fid, detail in tr.findings.items():
            if fid not in seen_findings:          # one report per analysed defect and run
                seen_findings.add(fid)
                small = dict(case, ops=minimal_ops_for(fid, case), finding=fid)
                chk.finding(fid, detail, small)
        if not tr.problems and not diffs:
            continue
        ndiff += bool(diffs)
        failing.append((case, origin, tr, diffs))
    # failing inputs of the property oracle first (shortest histories first), then pure model disagreements
    failing.sort(key=lambda f: (not f[2].problems, len(f[0]["ops"])))
    for i, (case, origin, tr, diffs) in enumerate(failing):
        if i < 3:
            report(chk, case, tr, diffs, origin)
        else:
            chk.violation((tr.problems or diffs)[0], None, no_input=not tr.problems)
    chk.suite("bandit-histories", len(cases), ndiff)
    if chk.tier == "thorough":
        selftest(chk)


# ----------------------------------------------------------------------------- seeded faults
def faulty_get_action(mode: str):
    """NeuralUCB/NeuralTS.get_action re-typed with one seeded fault in the matrix update"""
    def get_action(self, obs, action_mask=None):
        obs = self.preprocess_observation(obs)
        mu = self.actor(obs)
        g = torch.zeros((self.action_dim, self.numel)).to(self.device)
        for k, fx in enumerate(mu):
            if mode == "zero-row" and not torch.any(obs[k]):
                continue                 # fault: "a padding arm has no features" - they are (h(0), 1), not 0
            if mode == "near-zero-row" and float(obs[k].abs().max()) < 1e-5:
                continue                 # fault: the same with a threshold
            self.optimizer.zero_grad()
            fx.backward(retain_graph=True)
            g[k] = torch.cat([w.grad.detach().flatten() / np.sqrt(self.exp_layer.weight.size(0))
                              for w in self.exp_layer.parameters() if w.requires_grad])
        with torch.no_grad():
            bonus = torch.matmul(torch.matmul(g[:, None, :], self.sigma_inv), g[:, :, None])[:, 0, :]
            values = (self.actor(obs) + self.gamma * torch.sqrt(bonus)).cpu().numpy()
        if action_mask is None:
            action = np.argmax(values)
        else:
            action = np.argmax(np.ma.array(values, mask=1 - action_mask))
        v = g[action].unsqueeze(-1)
        num = self.sigma_inv @ v @ v.T @ self.sigma_inv
        if mode == "sign":
            self.sigma_inv += num / (1 + v.T @ self.sigma_inv @ v)
        elif mode == "denominator":
            self.sigma_inv -= num / (v.T @ self.sigma_inv @ v)
        elif mode in ("zero-row", "near-zero-row") or (mode == "single-arm-skip" and self.action_dim > 1):
            self.sigma_inv -= num / (1 + v.T @ self.sigma_inv @ v)
        elif mode == "single-arm-skip":
            pass                         # fault: "nothing to choose, nothing to record"
        else:
            raise InfraError(mode)
        return action
    return get_action


def selftest(chk: Check) -> None:
    """the suite must notice: update with the wrong sign; denominator without the 1 +; a zero feature for an arm
    whose context row is exactly / nearly zero; no update when there is a single arm; a clone whose
    sigma_inv aliases the parent's; sigma_inv not re-created after an architecture mutation that
    resized the output layer"""
    import agents
    base = {"lamb": 1.0, "gamma": 1.0, "ctx_dim": 3, "arms": 3, "ctx_kind": "dense", "head": [7, 3],
            "layer_norm": True, "activation": "ReLU", "seed": 11}
    for algo in ("NeuralUCB", "NeuralTS"):
        cls = agents.algo_class(algo)
        case = dict(base, algo=algo, ops=[["act", 1, None], ["learn", 2], ["act", 3, None], ["act", 4, None]])
        tr, diffs = one_case(chk, case)
        if tr.problems or diffs:
            raise InfraError(f"C19 self-test: the unpatched {algo} already fails: {(tr.problems or diffs)[0]}")
        for mode in ("sign", "denominator"):
            orig = cls.get_action
            cls.get_action = faulty_get_action(mode)
            try:
                tr, diffs = one_case(chk, case)
            finally:
                cls.get_action = orig
            if not tr.problems or not diffs:
                raise InfraError(f"C19 self-test: seeded fault '{mode}' in {algo}.get_action not noticed "
                                 f"(oracle: {bool(tr.problems)}, correspondence: {bool(diffs)})")
            chk.notes.append(f"self-test: {algo} update fault '{mode}' detected by oracle and correspondence")
        # degenerate contexts: padding arms (rows exactly / nearly zero) chosen, a single arm
        dcases = degenerate_cases(algo, 0)
        for mode, which in (("zero-row", dcases[:2]), ("near-zero-row", dcases[:2]), ("single-arm-skip", dcases[2:])):
            for dc in which:
                tr, diffs = one_case(chk, dc)
                if tr.problems or diffs:
                    raise InfraError(f"C19 self-test: the unpatched {algo} already fails on degenerate contexts: "
                                     f"{(tr.problems or diffs)[0]}")
                orig = cls.get_action
                cls.get_action = faulty_get_action(mode)
                try:
                    tr, diffs = one_case(chk, dc)
                finally:
                    cls.get_action = orig
                if not tr.problems or not diffs:
                    raise InfraError(f"C19 self-test: seeded fault '{mode}' in {algo}.get_action not noticed on "
                                     f"{dc['ctx_kind']} contexts with {dc['arms']} arm(s) "
                                     f"(oracle: {bool(tr.problems)}, correspondence: {bool(diffs)})")
            chk.notes.append(f"self-test: {algo} feature fault '{mode}' on degenerate contexts detected by oracle and "
                             f"correspondence")
        # clone whose matrix is a view of the parent's: decisions of one leak into the other
        orig_clone = cls.clone

        def aliasing_clone(self, *a, _orig=orig_clone, **k):
            c = _orig(self, *a, **k)
            c.sigma_inv = self.sigma_inv.detach()
            return c
        ccase = dict(base, algo=algo, ops=[["act", 1, None], ["clone"], ["act", 2, None], ["switch", 0],
                                           ["act", 3, None], ["switch", 1], ["act", 4, None]])
        tr, diffs = one_case(chk, ccase)
        if tr.problems or diffs:
            raise InfraError(f"C19 self-test: the unpatched {algo} fails beside its clone: {(tr.problems or diffs)[0]}")
        cls.clone = aliasing_clone
        try:
            tr, diffs = one_case(chk, ccase)
        finally:
            cls.clone = orig_clone
        behavioural = [p for p in tr.problems if "bystander" in p]
        if not behavioural or not diffs:
            raise InfraError(f"C19 self-test: clone sharing sigma_inv with its parent in {algo} not noticed on the "
                             f"agents' matrices (oracle: {bool(behavioural)}, correspondence: {bool(diffs)})")
        chk.notes.append(f"self-test: {algo} clone aliasing the parent's sigma_inv detected on the bystander's matrix")
        # a mutation seed that resizes the output layer under the unpatched code
        seed = None
        for s in range(60):
            c = dict(base, algo=algo, ops=[["act", 1, None], ["mutate", "arch", s], ["act", 5, None]])
            tr, diffs = one_case(chk, c)
            if tr.problems or diffs:
                raise InfraError(f"C19 self-test: the unpatched {algo} fails on an architecture mutation: "
                                 f"{(tr.problems or diffs)[0]}")
            if tr.resizes:
                seed = s
                break
        if seed is None:
            raise InfraError("C19 self-test: no architecture mutation resized the output layer")
        orig_init = cls.init_params

        def stale_init(self, _orig=orig_init):
            old = getattr(self, "sigma_inv", None)
            _orig(self)
            if old is not None:
                self.sigma_inv = old            # fault: the matrix is not re-created for the new layer
        stale_init.__name__ = "init_params"     # mutation hooks are looked up by name
        cls.init_params = stale_init
        try:
            c = dict(base, algo=algo, ops=[["act", 1, None], ["mutate", "arch", seed], ["act", 5, None]])
            tr, diffs = one_case(chk, c)
        finally:
            cls.init_params = orig_init
        if not tr.problems or not diffs:
            raise InfraError(f"C19 self-test: stale sigma_inv after resizing the output layer of {algo} not noticed "
                             f"(oracle: {bool(tr.problems)}, correspondence: {bool(diffs)})")
        chk.notes.append(f"self-test: {algo} sigma_inv not resized after an architecture mutation detected")


# ----------------------------------------------------------------------------- replay
def replay(chk: Check, path: str) -> int:
    c = json.loads(open(path).read())
    case = c.get("replay", c)
    if case.get("finding") == F_LAMBDA and not case.get("ops"):
        agent = build(case, case.get("seed", 1))
        S = agent.sigma_inv.detach().double()
        bad = abs(float(S[0, 0]) * float(case["lamb"]) - 1.0) > 1e-6
        print(json.dumps({"sigma_inv_diag": float(S[0, 0]), "lamb": case["lamb"], "is_inverse_of_lamb_I": not bad}))
        if bad:
            print(f"VIOLATION property=C19 replay={path}")
        return 1 if bad else 0
    tr, diffs = one_case(chk, case)
    print(json.dumps({"oracle_problems": tr.problems, "disagreements": diffs[:10], "findings": tr.findings,
                      "updates": tr.updates, "tags": tr.tags}, indent=1))
    if tr.problems or tr.findings:
        print(f"VIOLATION property=C19 replay={path}")
        return 1
    if diffs:
        print(f"VIOLATION property=C19 replay={path} no-failing-input-found")
        return 1
    return 0
