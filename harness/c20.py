"""
C20 — training loops compose end to end and keep step and population accounting right.

Correspondence: the real `train_off_policy`, `train_on_policy`, `train_offline`, `train_bandits`,
`train_multi_agent_off_policy`, `train_multi_agent_on_policy` are run on the scripted, instrumented
environments of `envs_train.py` with populations of tiny real agents, real replay memories
(uniform / n-step / prioritised), real `TournamentSelection` + `Mutations`, real checkpoints (into a
temporary directory).  Hooks installed for the duration of a run (class-level wrappers of
`get_action` / `learn` / `test` / `save_checkpoint`, a wrapper of
`tournament_selection_and_mutation`, the environments' recorder) attribute every environment step
and every learn call to the agent that caused it and cut the history in generations.  The
observations — step counters after every generation, learn calls per agent and generation, memory
fill, whether and how selection ran, indices, fitness/steps list lengths, checkpoint cadence, the
generation in which the loop stopped — are compared line by line with `Model/Loop.lean`, which is
told only what the code leaves open (hyper-parameter values in force, tournament outcome).

Oracle (independent of the model): the function returns; the population keeps its size and distinct
indices; every agent's `steps[-1]` equals the environment steps its lineage took, as counted by the
environment; the budget was unmet before every executed generation and is met afterwards; one
fitness entry per agent and generation; with elitism the best agent arrives in slot 0 with bit-equal
evaluation networks (always through selection; through mutation when `mutate_elite=False`);
checkpoint files exist under the documented names.

Evolution step (suite `evolution-step`): the real `tournament_selection_and_mutation` is called several times in a row
on small real populations (DQN, PPO, MADDPG; 1-6 members; fitness / steps histories of different lengths;
`mutate_elite`, `elitism`, `save_elite`, `elite_path`, explicit `algo` on and off); `tournament.select`, the
population-level `rng.choice` and every mutation method are wrapped (never replaced) to record which objects flow
where.  Compared per member with `Loop.Evo.evoStep` re-stated on the recorded select outcome and draw (position in the
selected population, parent, index, fitness and steps histories, method applied, files written) and with
`Loop.select` / `Loop.mutate` through the driver; oracle: size, distinct indices, the result IS the selected
population (object identity, no member of the old one), every method applied once to the member of its position,
histories untouched, with `mutate_elite=False` member 0 is the elite's clone with `mut == "None"` and bit-equal
evaluation networks.  `Gen/EvoStepGen.lean` is regenerated from utils.py / mutation.py in `pre_gate`.
Further dimensions of the train-loops suite: runs that end by early stop in every loop (steps histories of 98-100
entries), offline datasets smaller than / between 1x and 2x / more than 2x / many times the memory capacity,
degenerate sizes (batch_size 1, num_envs 1, population 1, learn_step 1 with uniform, n-step, prioritised memories) with
a check that every batch handed to `learn()` has `agent.batch_size` rows.

Every training run happens in a worker process watched by the parent: a run that exceeds its
wall-clock allowance is killed and reported ("does not terminate"), it never hangs the harness.
"""
from __future__ import annotations

import contextlib
import copy
import io
import json
import multiprocessing as mp
import os
import shutil
import sys
import tempfile
import time
import traceback
from multiprocessing.connection import wait as mp_wait

from common import ROOT, Check, InfraError

PID = "C20"

BASE = dict(
    loop="off", algo="DQN", family="vector", kind=None, num_envs=2, mem="uniform", pop=2,
    max_steps=60, evo_steps=20, learn_step=2, batch_size=4, delay=0, cap=64, nstep=3,
    tm=False, elitism=True, mutate_elite=True, tsize=2, mut="mixed", ckpt=None, overwrite=False,
    episode_steps=10, eval_steps=3, eval_loop=1, target=None, seed=0, strict=True, fault=None,
    ep_len=7, via="build", timeout=120, ls_spread=0,
    dataset_n=None, hist_len=0,
    budgets=None, start_steps=0, start_spread=0, start_hist=False, bs_spread=0, lr_spread=0.0, ep_mode="stagger", squash=False, indices=None,
)

LOOP_ALGOS = {
    "off": ["DQN", "RainbowDQN", "DDPG", "TD3", "CQN"],
    "on": ["PPO"],
    "offline": ["CQN", "DQN"],
    "bandit": ["NeuralUCB", "NeuralTS"],
    "maoff": ["MADDPG", "MATD3"],
    "maon": ["IPPO"],
}
MEM_OF_LOOP = {"off": "uniform", "on": "none", "offline": "uniform", "bandit": "uniform", "maoff": "ma", "maon": "none"}

#: (id in known_findings.json, configuration the probe runs, what a failure looks like)
FINDING_PROBES = [
    ("C20-off-policy-plain-env-eval", dict(loop="off", algo="DQN", num_envs=None), "raises"),
    ("C20-on-policy-plain-env-dones", dict(loop="on", algo="PPO", num_envs=None, learn_step=4), "raises"),
    ("C20-tuple-obs-replay", dict(loop="off", algo="DQN", family="tuple", num_envs=2), "raises"),
    ("C20-ippo-rollout-length-1", dict(loop="maon", algo="IPPO", kind="box", num_envs=2, learn_step=2), "raises"),
    ("C20-ma-discrete-action-axis", dict(loop="maoff", algo="MATD3", kind="discrete", num_envs=None), "raises"),
    ("C20-ma-discrete-action-axis", dict(loop="maon", algo="IPPO", kind="discrete", num_envs=None, learn_step=4), "raises"),
    ("C20-offline-scalar-observation", dict(loop="offline", algo="CQN", family="discrete"), "raises"),
    ("C20-multidiscrete-flat-action", dict(loop="off", algo="DQN", kind="multidiscrete", num_envs=2), "raises"),
    ("C20-zero-iteration-generation-hangs",
     dict(loop="off", algo="DQN", num_envs=4, evo_steps=3, max_steps=10, timeout=25), "hangs"),
]


def full(cfg: dict) -> dict:
    c = dict(BASE)
    c.update(cfg)
    if c["loop"] in ("on", "maon"):
        c["mem"] = "none"
    elif c["loop"] == "maoff":
        c["mem"] = "ma"
    elif c["mem"] in ("none", "ma"):
        c["mem"] = "uniform"
    return c


# ============================================================================================ worker
class _Rec:
    """worker-side recorder: cuts the history in generations and attributes events to agents"""

    def __init__(self, loop, memory):
        self.loop, self.memory = loop, memory
        self.in_test = False
        self.current = None
        self.phase = "eval"            # the first training event opens generation 1
        self.gens: list[dict] = []
        self.eval_steps = 0
        self.resets = 0
        self.form = None
        self.learn_raised = None
        self.batch_problem = None      # first learn() call whose batch does not have agent.batch_size rows
        self.enabled = True
        self.events = []               # (envs_train.Recorder API)

    # -- generations / slots
    def _gen(self):
        if self.phase == "eval":
            self.phase = "train"
            self.gens.append({"slots": [], "mem": None, "sel": None, "ckpts": [], "selq": False})
        return self.gens[-1]

    def _slot(self, agent, create_gen=True):
        g = self._gen() if create_gen else self.gens[-1]
        for s in g["slots"]:
            if s["id"] == id(agent):
                return s
        s = {"id": id(agent), "index": int(agent.index), "start": int(agent.steps[-1]),
             "ls": int(agent.learn_step), "bs": int(agent.batch_size), "env": 0, "learns": 0,
             "after": None, "fit": None, "hist": None}
        g["slots"].append(s)
        return s

    # -- environment side (API of envs_train.Recorder)
    def log(self, *ev):
        if ev[0] == "reset":
            self.resets += 1
            return
        if ev[0] != "step":
            return
        n = int(ev[1])
        if self.in_test:
            self.eval_steps += n
            return
        a = self.current
        if a is None:
            return
        self._slot(a)["env"] += n
        a.verif_env = int(getattr(a, "verif_env", 0)) + n

    def reset(self):
        pass


def _batch_problem(agent, experiences, kwargs):
    """what the off-policy loops hand to learn(): TensorDict batches (the 1-step batch and, with an n-step memory, the
    n-step batch) of exactly `agent.batch_size` rows, every entry with that leading dimension"""
    from tensordict import TensorDictBase
    bs = int(getattr(agent, "batch_size", 0) or 0)
    if not bs:
        return None
    for name, td in (("experiences", experiences), ("n_experiences", kwargs.get("n_experiences"))):
        if not isinstance(td, TensorDictBase):
            continue
        if tuple(td.batch_size) != (bs,):
            return f"learn() received {name} with batch_size {tuple(td.batch_size)} for agent.batch_size={bs}"
        for k in td.keys(True, True):
            v = td.get(k)
            if hasattr(v, "shape") and (len(v.shape) == 0 or v.shape[0] != bs):
                return f"learn() received {name}[{k!r}] of shape {tuple(v.shape)} for agent.batch_size={bs}"
    return None


def _form_of(experiences, kwargs) -> str:
    from tensordict import TensorDictBase
    if isinstance(experiences, TensorDictBase):
        f = "tensordict"
        for k in ("weights", "idxs"):
            if k in experiences.keys():
                f += "+" + k
    elif isinstance(experiences, (tuple, list)):
        if len(experiences) == 8:
            f = "ma_rollout" if isinstance(experiences[0], dict) else "rollout"
        elif len(experiences) == 5 and isinstance(experiences[0], dict):
            f = "ma_tuple"
        else:
            f = f"tuple{len(experiences)}"
    else:
        f = type(experiences).__name__
    if kwargs.get("n_experiences") is not None:
        f += ",n_experiences"
    return f


def _eval_state(agent):
    """{name: [state_dict clones]} of the evaluation (policy-defining) networks"""
    import torch
    out = {}
    for grp in agent.registry.groups:
        mods = getattr(agent, grp.eval)
        mods = mods if isinstance(mods, list) else [mods]
        out[grp.eval] = [{k: v.detach().clone() for k, v in m.state_dict().items() if isinstance(v, torch.Tensor)}
                         for m in mods]
    return out


def _same_state(a, b) -> bool:
    import torch
    if a.keys() != b.keys():
        return False
    for k in a:
        if len(a[k]) != len(b[k]):
            return False
        for x, y in zip(a[k], b[k]):
            if x.keys() != y.keys():
                return False
            for n in x:
                if x[n].shape != y[n].shape or not torch.equal(x[n], y[n]):
                    return False
    return True


@contextlib.contextmanager
def _hooks(rec: _Rec, cls, train_mod, cfg):
    """install the class-level wrappers and the selection wrapper; always restored"""
    import numpy as np

    o_act, o_learn, o_test, o_save = cls.get_action, cls.learn, cls.test, cls.save_checkpoint

    def get_action(self, *a, **k):
        if not rec.in_test:
            rec.current = self
            rec._slot(self)
        return o_act(self, *a, **k)

    def learn(self, experiences, *a, **k):
        if rec.form is None:
            rec.form = _form_of(experiences, k)
        s = rec._slot(self)
        s["learns"] += 1
        if rec.batch_problem is None and rec.loop in ("off", "offline"):
            try:
                rec.batch_problem = _batch_problem(self, experiences, k)
            except Exception as e:   # noqa: BLE001 - the observation must never change the run
                rec.batch_problem = None
        if rec.loop == "offline":
            self.verif_env = int(getattr(self, "verif_env", 0)) + 1
            s["env"] += 1
        try:
            return o_learn(self, experiences, *a, **k)
        except BaseException as e:
            if rec.learn_raised is None:
                rec.learn_raised = f"{type(e).__name__}: {e}"[:300]
            raise

    def test(self, *a, **k):
        if rec.phase == "train":
            rec.phase = "eval"
        if not rec.gens:
            rec.gens.append({"slots": [], "mem": None, "sel": None, "ckpts": [], "selq": False})
        s = rec._slot(self, create_gen=False)
        s["after"] = int(self.steps[-1])
        g = rec.gens[-1]
        if g["mem"] is None and rec.memory is not None:
            g["mem"] = int(len(rec.memory))
        rec.in_test = True
        try:
            r = o_test(self, *a, **k)
        finally:
            rec.in_test = False
        if cfg.get("fault") == "fitness-twice":
            self.fitness.append(self.fitness[-1])
        s["fit"] = len(self.fitness)
        return r

    def save_checkpoint(self, path, *a, **k):
        r = o_save(self, path, *a, **k)
        if rec.gens:
            rec.gens[-1]["ckpts"].append({"file": os.path.basename(str(path)), "steps": int(self.steps[-1]),
                                          "exists": os.path.exists(str(path))})
        return r

    o_tsm = train_mod.tournament_selection_and_mutation

    def tsm(population, tournament, mutation, *a, **k):
        g = rec.gens[-1]
        pre = list(population)
        for slot, ag in enumerate(pre):
            ag.verif_slot = slot
        snaps = [_eval_state(ag) for ag in pre]
        means = [float(np.mean(ag.fitness[-tournament.eval_loop:])) for ag in pre]
        new = o_tsm(population, tournament, mutation, *a, **k)
        if cfg.get("fault") == "short-selection":
            new = new[:-1]
        parents = [int(getattr(ag, "verif_slot", -1)) for ag in new]
        first = new[0] if new else None
        same = bool(first is not None and 0 <= parents[0] < len(pre) and _same_state(_eval_state(first), snaps[parents[0]]))
        g["sel"] = {
            "parents": parents,
            "mutated": [str(ag.mut) != "None" for ag in new],
            "muts": [str(ag.mut) for ag in new],
            "idx": [int(ag.index) for ag in new],
            "steps": [int(ag.steps[-1]) for ag in new],
            "fit": [len(ag.fitness) for ag in new],
            "hist": [len(ag.steps) for ag in new],
            "elite_same": same,
            "elite_is_best": bool(first is not None and 0 <= parents[0] < len(pre)
                                  and means[parents[0]] >= max(means)),
            "elite_index_kept": bool(first is not None and 0 <= parents[0] < len(pre)
                                     and int(first.index) == int(pre[parents[0]].index)),
            "pre_idx": [int(ag.index) for ag in pre],
        }
        return new

    try:
        cls.get_action, cls.learn, cls.test, cls.save_checkpoint = get_action, learn, test, save_checkpoint
        train_mod.tournament_selection_and_mutation = tsm
        yield
    finally:
        cls.get_action, cls.learn, cls.test, cls.save_checkpoint = o_act, o_learn, o_test, o_save
        train_mod.tournament_selection_and_mutation = o_tsm


def _faulty_train_fn(fn, old: str, new: str):
    """seeded fault: the training function with one source line replaced"""
    import inspect
    import textwrap
    src = textwrap.dedent(inspect.getsource(fn))
    if src.count(old) < 1:
        raise InfraError(f"self-test: {old!r} not found in {fn.__name__}")
    ns = dict(sys.modules[fn.__module__].__dict__)
    exec(compile(src.replace(old, new), f"<faulty {fn.__name__}>", "exec"), ns)
    f = ns[fn.__name__]
    return f, ns


def _build_population(cfg, E):
    import agents
    algo, fam = cfg["algo"], cfg["family"]
    kind = cfg["kind"] or agents.default_action_kind(algo)
    ne = cfg["num_envs"] or 1
    over = dict(batch_size=cfg["batch_size"], learn_step=cfg["learn_step"])
    if algo in ("DDPG", "TD3", "MADDPG", "MATD3"):
        over["vect_noise_dim"] = ne
    pop = []

    def hetero(i):
        """agent i's hyper-parameters: a population as HPO mutations leave it (different learn_step / batch_size / lr)"""
        o = dict(over)
        o["learn_step"] = cfg["learn_step"] + i * cfg["ls_spread"]
        o["batch_size"] = cfg["batch_size"] + i * cfg["bs_spread"]
        if cfg["lr_spread"]:
            f = 1.0 + i * float(cfg["lr_spread"])
            if algo in ("DDPG", "TD3", "MADDPG", "MATD3"):
                o.update(lr_actor=1e-4 * f, lr_critic=1e-3 * f)
            else:
                o["lr"] = 1e-4 * f
        return o

    net_config = copy.deepcopy(agents.default_net_config(algo, "vector" if cfg["loop"] == "bandit" else fam))
    # squash_output: PPO only.  IPPO builds its ValueNetwork critics from the same net_config dict and
    # ValueNetwork rejects the key (TypeError), and IPPO.get_action calls entropy.cpu() on the None entropy of a
    # squashed distribution: the library has no way to run IPPO with squash_output
    if cfg["squash"] and algo == "PPO" and kind == "box":
        net_config["squash_output"] = True
    if cfg["loop"] == "bandit":
        from gymnasium import spaces
        import numpy as np
        benv = E.ScriptedBanditEnv(3, 2)
        o_space, a_space = spaces.Box(0.0, 1.0, benv.context_dim, np.float32), spaces.Discrete(benv.arms)
    elif agents.is_multi_agent(algo):
        o_space, a_space, _ids = agents.spaces_for(algo, fam, kind)
    else:
        o_space, a_space = agents.obs_space(fam), agents.act_space(kind)
    if cfg["via"] == "create_population":
        # the population exactly as the library's own factory hands it out for this environment
        from agilerl.utils.utils import create_population
        init_hp = {"BATCH_SIZE": cfg["batch_size"], "LEARN_STEP": cfg["learn_step"], "NUM_ATOMS": 5,
                   "V_MIN": -2.0, "V_MAX": 2.0, "UPDATE_EPOCHS": 2, "AGENT_IDS": list(agents.AGENT_IDS),
                   "LR": 1e-4, "GAMMA": 0.99, "GAE_LAMBDA": 0.95, "ACTION_STD_INIT": 0.6, "CLIP_COEF": 0.2,
                   "ENT_COEF": 0.01, "VF_COEF": 0.5, "MAX_GRAD_NORM": 0.5, "TARGET_KL": None}
        agents.seed_all(cfg["seed"])
        pop = create_population(
            "Rainbow DQN" if algo == "RainbowDQN" else algo, o_space, a_space, net_config, init_hp,
            hp_config=agents.default_hp_config(algo), population_size=cfg["pop"], num_envs=ne, device="cpu")
        if len(pop) != cfg["pop"]:
            raise RuntimeError(f"create_population({algo!r}) returned {len(pop)} agents for population_size={cfg['pop']}")
        for i, a in enumerate(pop):               # members that an HPO mutation has moved apart
            a.learn_step = cfg["learn_step"] + i * cfg["ls_spread"]
            a.batch_size = cfg["batch_size"] + i * cfg["bs_spread"]
    elif cfg["loop"] == "bandit":
        for i in range(cfg["pop"]):
            agents.seed_all(cfg["seed"] + i)
            pop.append(agents.algo_class(algo)(o_space, a_space, index=i, hp_config=agents.default_hp_config(algo),
                                               net_config=copy.deepcopy(net_config), device="cpu", **hetero(i)))
    else:
        for i in range(cfg["pop"]):
            pop.append(agents.build(algo, fam, seed=cfg["seed"] + i, index=i, action_kind=kind,
                                    hp_config=agents.default_hp_config(algo), net_config=copy.deepcopy(net_config),
                                    **hetero(i)))
    return pop, kind


MUT_PRESETS = {
    "mixed": dict(no_mutation=0.4, architecture=0.2, new_layer_prob=0.2, parameters=0.2, activation=0.1, rl_hp=0.1),
    "hp": dict(no_mutation=0.2, architecture=0.0, new_layer_prob=0.2, parameters=0.0, activation=0.0, rl_hp=0.8),
    "none": dict(no_mutation=1.0, architecture=0.0, new_layer_prob=0.2, parameters=0.0, activation=0.0, rl_hp=0.0),
    "params": dict(no_mutation=0.0, architecture=0.0, new_layer_prob=0.2, parameters=1.0, activation=0.0, rl_hp=0.0),
}


def execute(cfg: dict) -> dict:
    """run one training configuration in this process; returns a JSON-able observation record"""
    import random

    import numpy as np
    import torch

    torch.set_num_threads(1)
    if cfg.get("task") == "evo":
        return execute_evo(cfg)
    if cfg.get("task") == "evo-accel":
        return execute_evo_accel(cfg)
    import envs_train as E

    cfg = full(cfg)
    res: dict = {"status": "ok", "cfg": cfg}
    tmp = tempfile.mkdtemp(prefix="c20_")
    old_rec = E.REC
    try:
        random.seed(cfg["seed"]); np.random.seed(cfg["seed"] % (2 ** 32)); torch.manual_seed(cfg["seed"])
        from agilerl.components.multi_agent_replay_buffer import MultiAgentReplayBuffer
        from agilerl.components.replay_buffer import MultiStepReplayBuffer, PrioritizedReplayBuffer, ReplayBuffer
        pop, kind = _build_population(cfg, E)
        if cfg["indices"]:
            # a population as a user supplies it: indices unordered / non-contiguous / not starting at 0
            for a, ix in zip(pop, cfg["indices"]):
                a.index = int(ix)
        for a in pop:
            a.verif_env = 0
        loop, algo, fam = cfg["loop"], cfg["algo"], cfg["family"]
        tourn = mut = None
        if cfg["tm"]:
            from agilerl.hpo.mutation import Mutations
            from agilerl.hpo.tournament import TournamentSelection
            tourn = TournamentSelection(cfg["tsize"], bool(cfg["elitism"]), cfg["pop"], cfg["eval_loop"])
            mut = Mutations(**MUT_PRESETS[cfg["mut"]], mutate_elite=bool(cfg["mutate_elite"]),
                            rand_seed=cfg["seed"], device="cpu")
        kw = dict(max_steps=cfg["max_steps"], evo_steps=cfg["evo_steps"], eval_steps=cfg["eval_steps"],
                  eval_loop=cfg["eval_loop"], tournament=tourn, mutation=mut, wb=False, verbose=False,
                  target=cfg["target"])
        if cfg["ckpt"]:
            kw.update(checkpoint=int(cfg["ckpt"]), checkpoint_path=os.path.join(tmp, "ck"),
                      overwrite_checkpoints=bool(cfg["overwrite"]))
        memory = None
        args: tuple
        if loop == "off":
            from agilerl.training import train_off_policy as tm_
            fn = tm_.train_off_policy
            env = E.make_single_env(fam, kind, cfg["num_envs"], cfg["ep_len"], cfg["ep_mode"])
            per = cfg["mem"] in ("per", "per_nstep")
            memory = PrioritizedReplayBuffer(cfg["cap"], alpha=0.6) if per else ReplayBuffer(cfg["cap"])
            nsm = MultiStepReplayBuffer(cfg["cap"], n_step=cfg["nstep"], gamma=0.99) if cfg["mem"] in ("nstep", "per_nstep") else None
            args = (env, "scripted", algo, pop, memory)
            kw.update(n_step=nsm is not None, per=per, n_step_memory=nsm, learning_delay=cfg["delay"])
        elif loop == "on":
            from agilerl.training import train_on_policy as tm_
            fn = tm_.train_on_policy
            env = E.make_single_env(fam, kind, cfg["num_envs"], cfg["ep_len"], cfg["ep_mode"])
            args = (env, "scripted", algo, pop)
        elif loop == "offline":
            from agilerl.training import train_offline as tm_
            fn = tm_.train_offline
            env = E.make_single_env(fam, kind, cfg["num_envs"], cfg["ep_len"], cfg["ep_mode"])
            memory = ReplayBuffer(cfg["cap"])
            dataset = E.offline_dataset(fam, kind, int(cfg["dataset_n"])) if cfg["dataset_n"] else E.offline_dataset(fam, kind)
            args = (env, "scripted", dataset, algo, pop, memory)
        elif loop == "bandit":
            from agilerl.training import train_bandits as tm_
            fn = tm_.train_bandits
            env = E.ScriptedBanditEnv(3, 2)
            memory = ReplayBuffer(cfg["cap"])
            args = (env, "scripted", algo, pop, memory)
            kw.update(episode_steps=cfg["episode_steps"])
        elif loop == "maoff":
            from agilerl.training import train_multi_agent_off_policy as tm_
            fn = tm_.train_multi_agent_off_policy
            env = E.make_multi_env(fam, kind, cfg["num_envs"], cfg["ep_len"], cfg["ep_mode"])
            memory = MultiAgentReplayBuffer(cfg["cap"], field_names=["state", "action", "reward", "next_state", "done"],
                                            agent_ids=list(E.AGENT_IDS))
            args = (env, "scripted", algo, pop, memory)
            kw.update(learning_delay=cfg["delay"])
        elif loop == "maon":
            from agilerl.training import train_multi_agent_on_policy as tm_
            fn = tm_.train_multi_agent_on_policy
            env = E.make_multi_env(fam, kind, cfg["num_envs"], cfg["ep_len"], cfg["ep_mode"])
            args = (env, "scripted", algo, pop)
        else:
            raise InfraError(f"unknown loop {loop}")
        target_mod = tm_
        if cfg["fault"] == "steps+1":
            fn, ns = _faulty_train_fn(fn, "steps += num_envs", "steps += 1")
            target_mod = _NS(ns)
        elif cfg["fault"] == "early-stop-drops-row":
            # the generation in which the early stop fires loses its fitness row
            fn, ns = _faulty_train_fn(fn, "pop_fitnesses.append(fitnesses)",
                                      "pop_fitnesses.append(fitnesses) if len(pop[0].steps) < 99 else None")
            target_mod = _NS(ns)
        elif cfg["fault"] == "offline-load-overflow":
            # loading the dataset fails once it no longer fits the memory twice
            fn, ns = _faulty_train_fn(fn, "dataset_length = dataset[\"rewards\"].shape[0]",
                                      "dataset_length = dataset[\"rewards\"].shape[0]\n"
                                      "        assert dataset_length - 1 <= 2 * memory.max_size, 'dataset does not fit'")
            target_mod = _NS(ns)
        elif cfg["fault"] == "nstep-unbatched":
            # a batch of one n-step transition loses its batch axis
            def _unbatched(self_, idxs, _o=MultiStepReplayBuffer.sample_from_indices):
                out = _o(self_, idxs)
                return out[0] if out.batch_size and out.batch_size[0] == 1 else out
            nsm_fault = kw.get("n_step_memory")
            if nsm_fault is not None:
                nsm_fault.sample_from_indices = _unbatched.__get__(nsm_fault)
        cls = type(pop[0])
        pop_pos = 4 if loop == "offline" else 3
        nsm_ = kw.get("n_step_memory")
        # agents that were trained before / restored from a checkpoint: non-zero step counters on entry
        if cfg["start_steps"]:
            for i, a in enumerate(pop):
                s0 = int(cfg["start_steps"]) + i * int(cfg["start_spread"])
                a.steps = [0, s0] if cfg["start_hist"] else [s0]
                a.verif_env = s0
        # agents that bring a long `steps` history along (a population trained for many generations before): the
        # early-stop test `len(pop[0].steps) >= 100` can fire in the first generations of this call
        if cfg["hist_len"]:
            for a in pop:
                a.steps = [0] * max(0, int(cfg["hist_len"]) - len(a.steps)) + list(a.steps)
        budgets = list(cfg["budgets"]) if cfg["budgets"] else [cfg["max_steps"]]
        segs = []
        for ci, budget in enumerate(budgets):
            seg: dict = {"status": "ok", "cfg": dict(cfg, max_steps=int(budget)), "call": ci}
            kw["max_steps"] = int(budget)
            rec = _Rec(loop, memory)
            E.REC = rec
            seg["initial"] = [{"index": int(a.index), "steps": [int(x) for x in a.steps], "fit": len(a.fitness),
                               "env": int(getattr(a, "verif_env", 0))} for a in pop]
            seg["mem0"] = [int(len(memory)) if memory is not None else 0,
                           int(getattr(memory, "counter", 0)) if memory is not None else 0,
                           len(nsm_.n_step_buffer) if nsm_ is not None else 0]
            sink = io.StringIO()
            t0 = time.time()
            out_pop = fits = None
            try:
                with _hooks(rec, cls, target_mod, cfg), contextlib.redirect_stdout(sink), contextlib.redirect_stderr(sink):
                    import warnings
                    with warnings.catch_warnings():
                        warnings.simplefilter("ignore")
                        a_ = list(args)
                        a_[pop_pos] = pop
                        out_pop, fits = fn(*a_, **kw)
            except BaseException as e:   # noqa: BLE001 — any exception of the training function is an observation
                tb = traceback.extract_tb(e.__traceback__)
                loc = [f"{os.path.basename(fr.filename)}:{fr.lineno}" for fr in tb if "agilerl" in fr.filename][-3:]
                seg.update(status="exception", exc=f"{type(e).__name__}: {str(e)[:300]}", where=loc)
            seg["wall"] = round(time.time() - t0, 2)
            seg["form"] = rec.form
            seg["learn_raised"] = rec.learn_raised
            seg["batch_problem"] = rec.batch_problem
            seg["gens"] = [{k: v for k, v in g.items()} for g in rec.gens]
            for g in seg["gens"]:
                for s in g["slots"]:
                    s.pop("id", None)
            seg["eval_env_steps"] = rec.eval_steps
            if out_pop is not None:
                seg["final"] = [{"index": int(a.index), "steps": [int(x) for x in a.steps], "fit": len(a.fitness),
                                 "env": int(getattr(a, "verif_env", -1)), "ls": int(a.learn_step),
                                 "bs": int(a.batch_size)} for a in out_pop]
                seg["fits_len"] = len(fits)
                seg["fits_rows"] = [len(f) if hasattr(f, "__len__") else -1 for f in fits]
                seg["mem_len"] = int(len(memory)) if memory is not None else None
            if cfg["ckpt"]:
                seg["ckpt_files"] = sorted(os.listdir(tmp))
            segs.append(seg)
            if out_pop is None:
                break
            pop = out_pop
        res["segs"] = segs
        bad = next((g for g in segs if g["status"] != "ok"), None)
        if bad is not None:
            res.update(status=bad["status"], exc=bad.get("exc"), where=bad.get("where"))
        res["wall"] = round(sum(g["wall"] for g in segs), 2)
        res["form"], res["learn_raised"] = segs[0]["form"], segs[0]["learn_raised"]
        res["gens"] = [g for sg in segs for g in sg["gens"]]
        if "final" in segs[-1]:
            res["final"] = segs[-1]["final"]
    except InfraError:
        raise
    except BaseException as e:   # noqa: BLE001 — construction problems are reported, not raised
        res.update(status="setup-exception", exc=f"{type(e).__name__}: {str(e)[:300]}",
                   trace=traceback.format_exc()[-1500:])
    finally:
        E.REC = old_rec
        shutil.rmtree(tmp, ignore_errors=True)
    return res


class _NS:
    """module-like view of the namespace a faulty training function was compiled in"""

    def __init__(self, ns):
        object.__setattr__(self, "_ns", ns)

    def __getattr__(self, k):
        return self._ns[k]

    def __setattr__(self, k, v):
        self._ns[k] = v


def _worker_main(conn):
    try:
        import threading

        import torch
        import tqdm
        torch.set_num_threads(1)
        tqdm.tqdm.set_lock(threading.RLock())     # no multiprocessing semaphore that a killed worker would leak
        import agilerl.algorithms  # noqa: F401  warm-up: the heavy imports happen once per worker
        import agilerl.training.train_off_policy  # noqa: F401
        import agents  # noqa: F401
        import envs_train  # noqa: F401
        import agilerl
        import common
        if not os.path.abspath(agilerl.__file__).startswith(os.path.abspath(str(common.REPO)) + os.sep):
            conn.send(("dead", f"worker imported agilerl from {agilerl.__file__}, not from {common.REPO}"))
            return
        conn.send(("ready", None))
    except BaseException as e:   # noqa: BLE001
        conn.send(("dead", f"{type(e).__name__}: {e}"))
        return
    while True:
        try:
            msg = conn.recv()
        except EOFError:
            return
        if msg is None:
            return
        key, cfg = msg
        try:
            out = execute(cfg)
        except BaseException as e:   # noqa: BLE001
            out = {"status": "infra", "exc": f"{type(e).__name__}: {e}", "trace": traceback.format_exc()[-1500:]}
        conn.send((key, out))


class Pool:
    """persistent worker processes with a per-task wall-clock guard (a hung worker is killed)"""

    def __init__(self, n: int):
        # forkserver: the heavy imports (torch, agilerl) happen once, in the fork server; workers and
        # the replacements of killed workers are forked from it in milliseconds
        # (the fork server takes its module search path from PYTHONPATH, not from our sys.path)
        import common
        here = os.path.dirname(os.path.abspath(__file__))
        os.environ["PYTHONPATH"] = os.pathsep.join(
            [str(common.REPO), here] + [p for p in os.environ.get("PYTHONPATH", "").split(os.pathsep) if p])
        self.ctx = mp.get_context("forkserver")
        self.ctx.set_forkserver_preload(["common", "torch", "agilerl.algorithms", "agilerl.training.train_off_policy",
                                         "agilerl.training.train_on_policy", "agilerl.training.train_offline",
                                         "agilerl.training.train_bandits",
                                         "agilerl.training.train_multi_agent_off_policy",
                                         "agilerl.training.train_multi_agent_on_policy",
                                         "agilerl.hpo.mutation", "agilerl.hpo.tournament", "agents", "envs_train"])
        self.n = n
        self.workers: list[dict] = []

    def _spawn(self):
        parent, child = self.ctx.Pipe()
        p = self.ctx.Process(target=_worker_main, args=(child,), daemon=True)
        p.start()
        child.close()
        return {"proc": p, "conn": parent, "task": None, "deadline": None, "ready": False, "born": time.time()}

    def __enter__(self):
        self.workers = [self._spawn() for _ in range(self.n)]
        return self

    def __exit__(self, *exc):
        for w in self.workers:
            try:
                w["conn"].send(None)
            except Exception:
                pass
        for w in self.workers:
            w["proc"].join(timeout=2)
            if w["proc"].is_alive():
                w["proc"].kill()
        return False

    def map(self, tasks: list[tuple]) -> dict:
        """tasks: (key, cfg); returns {key: result}; cfg['timeout'] is the wall-clock allowance"""
        todo = list(tasks)[::-1]
        results: dict = {}
        pending = len(todo)
        while pending:
            for i, w in enumerate(self.workers):
                if w["ready"] and w["task"] is None and todo:
                    key, cfg = todo.pop()
                    w["task"], w["deadline"] = (key, cfg), time.time() + float(full(cfg)["timeout"])
                    w["conn"].send((key, cfg))
            conns = [w["conn"] for w in self.workers]
            for c in mp_wait(conns, timeout=0.5):
                w = next(x for x in self.workers if x["conn"] is c)
                try:
                    key, out = c.recv()
                except (EOFError, OSError):
                    key, out = None, None
                if key == "ready":
                    w["ready"] = True
                    continue
                if key == "dead":
                    raise InfraError(f"C20 worker could not import the implementation: {out}")
                if w["task"] is None:
                    if key is None:    # an idle worker died
                        self.workers[self.workers.index(w)] = self._spawn()
                    continue
                tkey, tcfg = w["task"]
                if key is None:        # worker died
                    results[tkey] = {"status": "crash", "cfg": full(tcfg), "exc": "worker process died"}
                    self.workers[self.workers.index(w)] = self._spawn()
                else:
                    results[tkey] = out
                    w["task"], w["deadline"] = None, None
                pending -= 1
            now = time.time()
            for i, w in enumerate(self.workers):
                if w["task"] is not None and now > w["deadline"]:
                    tkey, tcfg = w["task"]
                    w["proc"].kill()
                    w["proc"].join(timeout=5)
                    results[tkey] = {"status": "timeout", "cfg": full(tcfg),
                                     "exc": f"no return within {full(tcfg)['timeout']} s: does not terminate"}
                    self.workers[i] = self._spawn()
                    pending -= 1
                elif not w["ready"] and now - w["born"] > 600:
                    raise InfraError("C20 worker did not come up within 600 s")
        return results


# ============================================================================================ evolution step
EVO_BASE = dict(task="evo", algo="DQN", pop=3, gens=2, elitism=True, mutate_elite=False, save_elite=False,
                elite_path=None, pass_algo=False, tsize=2, eval_loop=2, mut="mixed", seed=0, fault=None, timeout=120)
EVO_FAULTS = {
    # the classic slip: the selected population is dropped, the OLD one is mutated and returned
    "evo-old-population": ("elite, population = tournament.select(population)", "elite, _sel = tournament.select(population)"),
    # the returned list is not the whole mutated population
    "evo-short-population": ("        population = mutation.mutation(population)\n\n    if save_elite",
                      "        mutation.mutation(population)\n        population = population[:-1]\n\n    if save_elite"),
}


def execute_evo(cfg: dict) -> dict:
    """several calls in a row of the real `tournament_selection_and_mutation` on a small real population whose members
    have fitness / steps histories of different lengths; `tournament.select`, `rng.choice` and every mutation method
    are wrapped to record what flowed where (object identities), nothing is replaced"""
    import random

    import numpy as np
    import torch

    import agents
    c = dict(EVO_BASE)
    c.update(cfg)
    res: dict = {"status": "ok", "cfg": c, "steps": []}
    tmp = tempfile.mkdtemp(prefix="c20evo_")
    cwd = os.getcwd()
    try:
        os.chdir(tmp)
        seed = int(c["seed"])
        random.seed(seed); np.random.seed(seed % (2 ** 32)); torch.manual_seed(seed)
        import agilerl.utils.utils as U
        from agilerl.hpo.mutation import Mutations
        from agilerl.hpo.tournament import TournamentSelection
        algo, n = c["algo"], int(c["pop"])
        rng = random.Random(seed * 7919 + 13)
        pop = [agents.build(algo, "vector", seed=seed + i, index=i, hp_config=agents.default_hp_config(algo))
               for i in range(n)]
        for i, a in enumerate(pop):
            # distinct dyadic fitness histories of different lengths (the first entry names the lineage)
            a.fitness = [float(i) + 0.5] + [rng.randrange(-8, 9) / 4.0 for _ in range(rng.randrange(0, 4))]
            a.steps = [0] + sorted(rng.randrange(1, 50) for _ in range(rng.randrange(0, 3)))
        tourn = TournamentSelection(int(c["tsize"]), bool(c["elitism"]), n, int(c["eval_loop"]))
        mut = Mutations(**MUT_PRESETS[c["mut"]], mutate_elite=bool(c["mutate_elite"]), rand_seed=seed, device="cpu")
        fn = U.tournament_selection_and_mutation
        if c["fault"]:
            fn, _ns = _faulty_train_fn(fn, *EVO_FAULTS[c["fault"]])
        rec: dict = {}

        def wrap_method(name, f):
            def g(individual, *a, **k):
                rec["calls"].append((name, id(individual)))
                out = f(individual, *a, **k)
                rec["returned"].append(id(out))
                return out
            g.verif_name = name
            return g
        names = [f.__name__ for f in mut.mut_options]
        mut.mut_options = tuple(wrap_method(f.__name__, f) for f in mut.mut_options)
        if not hasattr(mut.no_mutation, "verif_name"):
            mut.no_mutation = wrap_method("no_mutation", mut.no_mutation)
        real_select, real_choice = tourn.select, mut.rng.choice

        def select(population):
            rec["select_in"] = [id(a) for a in population]
            elite, new = real_select(population)
            rec["elite"], rec["selected"] = elite, list(new)
            return elite, new

        class _Rng:
            def __getattr__(self, k):
                return getattr(mut_rng, k)

            def choice(self, options, size=None, p=None, **kw):
                out = real_choice(options, size, p=p, **kw)
                if "draw" not in rec and len(options) and all(hasattr(f, "verif_name") for f in options):
                    # the population-level draw (the mutation methods make draws of their own)
                    rec["draw"] = [getattr(f, "verif_name", "?") for f in out]
                    rec["draw_n"], rec["n_options"] = size, len(options)
                return out
        mut_rng = mut.rng
        mut.rng = _Rng()
        tourn.select = select
        for g in range(int(c["gens"])):
            rec.clear()
            rec.update(calls=[], returned=[])
            old = list(pop)
            old_ids = [id(a) for a in old]
            pre = [dict(index=int(a.index), fitness=list(a.fitness), steps=list(a.steps), state=_eval_state(a)) for a in old]
            kw = dict(env_name="Env", elite_path=c["elite_path"], save_elite=bool(c["save_elite"]))
            if c["pass_algo"]:
                kw["algo"] = "Custom"
            before = set(os.listdir(tmp))
            with contextlib.redirect_stdout(io.StringIO()):
                new = fn(old, tourn, mut, **kw)
            sel = rec.get("selected") or []
            key = [tuple(p_["fitness"]) for p_ in pre]

            def parent_of(a):
                t = tuple(a.fitness)
                return key.index(t) if t in key else -1
            st = dict(
                n_in=len(old), n_out=len(new),
                select_in_is_old=rec.get("select_in") == old_ids,
                old=[dict(index=p_["index"], fitness=p_["fitness"], steps=p_["steps"]) for p_ in pre],
                elite_parent=parent_of(rec["elite"]) if "elite" in rec else -1,
                sel_parents=[parent_of(a) for a in sel], sel_index=[int(a.index) for a in sel],
                draw=rec.get("draw"), draw_n=rec.get("draw_n"), option_names=names,
                calls=[(nm, [id(a) for a in sel].index(i) if i in [id(a) for a in sel] else
                        (-2 - old_ids.index(i) if i in old_ids else -1)) for nm, i in rec["calls"]],
                out=[dict(index=int(a.index), fitness=list(a.fitness), steps=list(a.steps), mut=str(a.mut),
                          is_selected=([id(x) for x in sel].index(id(a)) if id(a) in [id(x) for x in sel] else -1),
                          is_old=id(a) in old_ids, parent=parent_of(a),
                          same_weights=(parent_of(a) >= 0 and _same_state(_eval_state(a), pre[parent_of(a)]["state"])))
                     for a in new],
                files=sorted(set(os.listdir(tmp)) - before),
            )
            res["steps"].append(st)
            for f in st["files"]:
                os.remove(os.path.join(tmp, f))
            pop = list(new)
            # what a generation of training does to the bookkeeping before the next call
            for i, a in enumerate(pop):
                a.steps[-1] += 10 * (i + 1)
                a.fitness.append(float(100 * (g + 1) + i) + rng.randrange(0, 4) / 4.0)
                a.steps.append(a.steps[-1])
    except BaseException as e:   # noqa: BLE001
        res["status"] = "raised"
        res["exc"] = f"{type(e).__name__}: {e}"
        res["where"] = traceback.format_exc()[-900:]
    finally:
        os.chdir(cwd)
        shutil.rmtree(tmp, ignore_errors=True)
    return res


def execute_evo_accel(cfg: dict) -> dict:
    """the accelerator paths of the real `tournament_selection_and_mutation` with a stub accelerator, stub selection /
    mutation objects and duck-typed agents (no torch): which objects are returned, what is saved and loaded where, on the
    main process and on another process, with `save_elite` on and off"""
    res: dict = {"status": "ok", "cfg": dict(cfg), "runs": []}
    tmp = tempfile.mkdtemp(prefix="c20acc_")
    cwd = os.getcwd()
    try:
        os.chdir(tmp)
        import agilerl.utils.utils as U
        for main in (True, False):
            for save_elite in (False, True):
                log: list = []

                class A:
                    def __init__(self, name):
                        self.name = name

                    def unwrap_models(self):
                        log.append(("unwrap", self.name))

                    def wrap_models(self):
                        log.append(("wrap", self.name))

                    def load_checkpoint(self, p):
                        log.append(("load", self.name, p))

                    def save_checkpoint(self, p):
                        log.append(("save", self.name, p))

                class Acc:
                    is_main_process = main

                    def wait_for_everyone(self):
                        pass

                class T:
                    def select(self, population):
                        log.append(("select", [a.name for a in population]))
                        return A("elite"), [A(f"sel{i}") for i in range(len(population))]

                class Mu:
                    def mutation(self, population):
                        log.append(("mutate", [a.name for a in population]))
                        return population
                pop = [A(f"old{i}") for i in range(int(cfg.get("pop", 3)))]
                run = {"main": main, "save_elite": save_elite}
                try:
                    with contextlib.redirect_stdout(io.StringIO()):
                        out = U.tournament_selection_and_mutation(pop, T(), Mu(), "Env", algo="Algo", save_elite=save_elite,
                                                                  accelerator=Acc())
                    run.update(out=[a.name for a in out], log=[list(x) for x in log])
                except BaseException as e:   # noqa: BLE001
                    run.update(exc=f"{type(e).__name__}: {e}", log=[list(x) for x in log])
                res["runs"].append(run)
    except BaseException as e:   # noqa: BLE001
        res["status"] = "raised"
        res["exc"] = f"{type(e).__name__}: {e}"
    finally:
        os.chdir(cwd)
        shutil.rmtree(tmp, ignore_errors=True)
    return res


def probe_accel(chk: Check, pool: Pool) -> None:
    """`Loop.Evo.evoStep` on the accelerator paths, as far as duck-typed agents can show it: the main process returns
    the mutated selected members and saves the temporary files, then (iff save_elite) the elite `select` returned; every
    other process returns its old members reloaded from those files and saves nothing.  A raise on a process that is
    not the main one with save_elite=True is the (fixed) finding C20-save-elite-non-main-process."""
    n = 3
    r = pool.map([("acc", dict(task="evo-accel", pop=n))])["acc"]
    if r["status"] != "ok":
        raise InfraError(f"C20 accelerator probe could not run: {r.get('exc')} {r.get('trace', '')}")
    bad = 0
    for run in r["runs"]:
        key = ["evo-accel", run["main"], run["save_elite"]]
        chk.case(key, nontrivial=True, tags=["evo:accelerator"])
        replay = {"cfg": {"task": "evo-accel", "pop": n}, "run": run,
                  "correspondence": "harness/c20.py accelerator probe vs Loop.Evo.evoStep (Model/Loop.lean)"}
        if "exc" in run:
            if not run["main"] and run["save_elite"] and "UnboundLocalError" in run["exc"]:
                chk.finding("C20-save-elite-non-main-process", run["exc"], replay)
            else:
                chk.violation(f"tournament_selection_and_mutation with an accelerator (main process: {run['main']}, "
                              f"save_elite: {run['save_elite']}) raised {run['exc']}", replay)
            bad += 1
            continue
        temp = [f"models/Env/Algo_{i}.pt" for i in range(n)]
        if run["main"]:
            want_out = [f"sel{i}" for i in range(n)]
            want_log = ([["unwrap", f"old{i}"] for i in range(n)] + [["select", [f"old{i}" for i in range(n)]],
                        ["mutate", want_out]] + [["save", f"sel{i}", temp[i]] for i in range(n)]
                        + [["wrap", f"sel{i}"] for i in range(n)]
                        + ([["save", "elite", "Env-elite_Algo.pt"]] if run["save_elite"] else []))
        else:
            want_out = [f"old{i}" for i in range(n)]
            want_log = ([["unwrap", f"old{i}"] for i in range(n)] + [["load", f"old{i}", temp[i]] for i in range(n)]
                        + [["wrap", f"old{i}"] for i in range(n)])
        if len(run["out"]) != n:
            chk.violation(f"accelerator path (main process: {run['main']}): population of {n} came back with "
                          f"{len(run['out'])} members", replay)
            bad += 1
        elif run["out"] != want_out or run["log"] != want_log:
            chk.violation(f"accelerator path (main process: {run['main']}, save_elite: {run['save_elite']}) differs from "
                          f"Loop.Evo.evoStep: returned {run['out']} / model {want_out}; events {run['log']} / model {want_log}",
                          replay, no_input=(run["out"] == want_out))
            bad += 1
    chk.suite("evolution-step-accelerator", len(r["runs"]), bad)


def evo_expected(c: dict, st: dict) -> dict:
    """`Loop.Evo.evoStep` (no accelerator) re-stated on the recorded inputs — outcome of `select` (parents), the draw:
    per member of the result (parent, index, applied method, fitness, steps), the files written"""
    me = bool(c["mutate_elite"])
    draw = list(st["draw"] or [])
    applied = draw if me else (["no_mutation"] + draw[1:] if draw else None)      # `applied`
    out = []
    if applied is not None:
        for i, (m, p, ix) in enumerate(zip(applied, st["sel_parents"], st["sel_index"])):   # `mutateWith` = zipWith
            par = st["old"][p] if p >= 0 else None
            out.append(dict(sel=i, parent=p, index=ix, method=m,
                            fitness=par["fitness"] if par else None, steps=par["steps"] if par else None))
    algo = "Custom" if c["pass_algo"] else c["algo"]
    files = []
    if c["save_elite"]:
        ep = c["elite_path"]
        files = [((ep.split(".pt")[0] if ep is not None else f"Env-elite_{algo}") + ".pt")]
    return dict(out=out, files=files)


def evo_judge(chk: Check, res: dict):
    """(oracle problems, model/impl disagreement or None)"""
    c = res["cfg"]
    if res["status"] != "ok":
        return [f"tournament_selection_and_mutation raised {res.get('exc')}"], None
    problems, diff = [], None
    for g, st in enumerate(res["steps"]):
        w = f"call {g + 1}: "
        out = st["out"]
        # ---- the property itself, on the implementation's own outputs
        if st["n_out"] != st["n_in"]:
            problems.append(w + f"population of {st['n_in']} came back with {st['n_out']} members")
        idx = [o["index"] for o in out]
        if len(set(idx)) != len(idx):
            problems.append(w + f"indices not distinct after the evolution step: {idx}")
        if any(o["is_old"] for o in out):
            problems.append(w + "a member of the OLD population was returned (the result must be the mutated selected population)")
        if [o["is_selected"] for o in out] != list(range(len(out))):
            problems.append(w + f"the result is not the selected population in order: positions {[o['is_selected'] for o in out]}")
        if [k for _, k in st["calls"]] != list(range(len(st["sel_parents"]))):
            problems.append(w + f"the mutation methods were not applied once to each selected member in order: {st['calls']}")
        for i, o in enumerate(out):
            p = o["parent"]
            if p < 0 or o["fitness"] != st["old"][p]["fitness"] or o["steps"] != st["old"][p]["steps"]:
                problems.append(w + f"member {i}: fitness / steps history is not its parent's (bookkeeping touched)")
                break
        if c["elitism"] and not c["mutate_elite"] and out:
            o = out[0]
            if not (o["parent"] == st["elite_parent"] and o["index"] == st["old"][o["parent"]]["index"]
                    and o["mut"] == "None" and o["same_weights"]):
                problems.append(w + f"mutate_elite=False but member 0 is not the unmutated elite "
                                    f"(parent {o['parent']} vs elite {st['elite_parent']}, mut {o['mut']!r}, "
                                    f"weights equal {o['same_weights']})")
        # ---- the model on the recorded inputs
        exp = evo_expected(c, st)
        got = [dict(sel=o["is_selected"], parent=o["parent"], index=o["index"], fitness=o["fitness"], steps=o["steps"]) for o in out]
        want = [{k: e[k] for k in ("sel", "parent", "index", "fitness", "steps")} for e in exp["out"]]
        called = [nm for nm, _ in st["calls"]]
        if diff is None and got != want:
            diff = w + f"members differ from Loop.Evo.evoStep: impl {got} model {want}"
        if diff is None and called != [e["method"] for e in exp["out"]]:
            diff = w + f"methods applied {called}, model {[e['method'] for e in exp['out']]} (draw {st['draw']})"
        if diff is None and st["draw_n"] != st["n_in"]:
            diff = w + f"rng.choice drew {st['draw_n']} methods for {st['n_in']} members"
        if diff is None and sorted(st["files"]) != sorted(exp["files"]):
            diff = w + f"files written {st['files']}, model {exp['files']}"
        for i, o in enumerate(out):
            if i < len(called) and called[i] == "no_mutation" and not (o["mut"] == "None" and o["same_weights"]):
                problems.append(w + f"member {i} went through no_mutation only but mut={o['mut']!r}, weights equal {o['same_weights']}")
        # ---- Model/Loop.lean through the driver: select + mutate on the same outcome
        e = st["elite_parent"]
        parents = st["sel_parents"][1:] if c["elitism"] else st["sel_parents"]
        if diff is None and e >= 0 and all(p >= 0 for p in parents):
            flags = [int(m != "no_mutation") for m in (exp["out"] and [x["method"] for x in exp["out"]])]
            if not c["mutate_elite"] and flags:
                flags[0] = 0
            lines = ["reset", f"loop cfg off 1000000 10 1 0 64 0 0 0 {int(bool(c['elitism']))} {int(bool(c['mutate_elite']))}"]
            for a in st["old"]:
                lines.append(f"loop agent {a['index']} {len(a['fitness'])} " + " ".join(str(int(x)) for x in a["steps"]))
            lines.append(f"loop sel {e} " + " ".join(map(str, parents)) + " | " + " ".join(map(str, flags)))
            ans = chk.driver.run(lines)[-1]
            mine = ("idx " + " ".join(str(o["index"]) for o in out) + " | steps " + " ".join(str(int(o["steps"][-1])) for o in out)
                    + " | fit " + " ".join(str(len(o["fitness"])) for o in out)
                    + " | hist " + " ".join(str(len(o["steps"])) for o in out))
            if not ans.startswith(mine + " | elite-carried"):
                diff = w + f"Loop.select/mutate: model {ans!r} impl {mine!r}"
            elif c["elitism"] and ans.endswith("elite-carried 1") and out and not out[0]["same_weights"]:
                problems.append(w + "the model carries the elite unchanged, the implementation changed its evaluation networks")
    return problems, diff


def evo_cases(rng, tier: str) -> list[dict]:
    cases = []
    n = 14 if tier == "quick" else 40
    sizes = [1, 2, 3, 4, 5, 6]
    for k in range(n):
        algo = ["DQN", "PPO", "MADDPG"][k % 3]
        cases.append(dict(task="evo", algo=algo, pop=sizes[(k // 3 + k) % 6] if algo != "MADDPG" else sizes[k % 4],
                          gens=rng.choice([2, 3]), elitism=rng.random() < 0.8, mutate_elite=bool(k % 2),
                          save_elite=rng.random() < 0.5, elite_path=rng.choice([None, "best.pt", "sub.pt.bak.pt", "plain"]),
                          pass_algo=rng.random() < 0.3, tsize=rng.choice([1, 2, 3]), eval_loop=rng.choice([1, 2, 3]),
                          mut=rng.choice(["mixed", "mixed", "hp", "none", "params"]), seed=rng.randrange(10 ** 6)))
    return cases


def run_evo(chk: Check, pool: Pool, cases: list[dict], expect_detect: bool = False) -> int:
    results = pool.map([(i, c) for i, c in enumerate(cases)])
    ndiff = detected = 0
    for i, c in enumerate(cases):
        res = results[i]
        if res["status"] in ("infra", "crash", "timeout"):
            raise InfraError(f"C20 evolution-step case did not run: {res.get('exc')} {res.get('trace', '')}")
        problems, diff = evo_judge(chk, res)
        if not expect_detect:
            st0 = res["steps"][0] if res.get("steps") else {}
            chk.case(c, nontrivial=len(res.get("steps", [])) >= 2,
                     tags=["evo:" + c["algo"], f"evo:pop{c['pop']}", "evo:mutate_elite" if c["mutate_elite"] else "evo:keep_elite",
                           "evo:save_elite" if c["save_elite"] else "evo:no_save"],
                     sample={"evo": {k: v for k, v in c.items() if EVO_BASE.get(k) != v}, "draw": st0.get("draw"),
                             "parents": st0.get("sel_parents"), "files": st0.get("files")})
        if not problems and diff is None:
            continue
        if expect_detect:
            detected += 1
            continue
        ndiff += diff is not None
        small = dict(c)
        for k, v in (("gens", 1), ("save_elite", False), ("pass_algo", False), ("pop", 2), ("pop", 1), ("mut", "none")):
            t = dict(small, **{k: v})
            r = pool.map([("s", t)])["s"]
            p2, d2 = evo_judge(chk, r) if r["status"] not in ("infra", "crash", "timeout") else ([], None)
            if bool(p2) == bool(problems) and (p2 or d2 is not None):
                small, res, problems, diff = t, r, p2, d2
        replay = {"cfg": small, "status": res["status"], "exc": res.get("exc"), "where": res.get("where"),
                  "oracle_problems": problems, "diff": diff, "steps": res.get("steps"),
                  "correspondence": "harness/c20.py evolution step vs Loop.Evo.evoStep (Model/Loop.lean)",
                  "theorems": chk.gate["theorems"]}
        if problems:
            chk.violation(problems[0], replay)
        else:
            chk.violation(f"implementation and the evolution-step model disagree: {diff}; the property oracle holds on "
                          f"this configuration and its shrinks", replay, no_input=True)
    if not expect_detect:
        chk.suite("evolution-step", len(cases), ndiff)
    return detected



# ============================================================================================ model
def model_lines(res: dict) -> tuple[list[str], list[str]]:
    """(driver ops, what the implementation showed for each op), all calls one after the other"""
    if "segs" not in res:
        return model_lines_seg(res) if "initial" in res else ([], [])
    ops, impl = [], []
    for sg in res["segs"]:
        o, i = model_lines_seg(sg)
        ops += o
        impl += i
    return ops, impl


def model_lines_seg(res: dict) -> tuple[list[str], list[str]]:
    c = res["cfg"]
    ne = c["num_envs"] or 1
    nstep = c["nstep"] if c["mem"] in ("nstep", "per_nstep") else 0
    ops = [f"loop cfg {c['loop']} {c['max_steps']} {c['evo_steps']} {ne} {c['delay']} {c['cap']} {nstep} "
           f"{c['episode_steps']} {c['ckpt'] or 0} {int(bool(c['elitism']))} {int(bool(c['mutate_elite']))}"]
    impl = ["ok"]
    for a in res["initial"]:      # every agent with the history it brings along
        ops.append(f"loop agent {a['index']} {a['fit']} " + " ".join(map(str, a["steps"])))
        impl.append("ok")
    mem0 = res["mem0"] if c["loop"] in ("off", "bandit", "maoff") else [0, 0, 0]   # other loops never add to a memory
    ops.append("loop mem " + " ".join(map(str, mem0)))
    impl.append("ok")
    above = int(c["target"] is not None)
    gens = res["gens"]
    has_mem = c["loop"] in ("off", "bandit", "maoff")
    for gi, g in enumerate(gens):
        slots = g["slots"]
        complete = all(s["after"] is not None and s["fit"] is not None for s in slots) and len(slots) == c["pop"]
        if not complete:
            break            # the run raised inside this generation: nothing canonical to compare
        ops.append(f"loop gen {above} " + " ".join(f"{s['ls']} {s['bs']}" for s in slots))
        last = gi == len(gens) - 1
        early = bool(last and res["status"] == "ok" and c["target"] is not None and res.get("stopped_early"))
        mem = g["mem"] if has_mem else 0
        impl.append(("early " if early else "") + "steps " + " ".join(str(s["after"]) for s in slots) +
                    " | learns " + " ".join(str(s["learns"]) for s in slots) + f" | mem {mem}" +
                    " | fit " + " ".join(str(s["fit"]) for s in slots))
        if early:
            break
        if c["tm"]:
            ops.append("loop selq")
            impl.append("1" if g["sel"] is not None else "0")
            if g["sel"] is not None:
                s = g["sel"]
                par = s["parents"]
                if c["elitism"]:
                    e, rest = par[0], par[1:]
                else:
                    e, rest = 0, par
                flags = list(s["mutated"])
                if flags:
                    flags[0] = not s["elite_same"]          # slot 0: did the weights actually change
                ops.append(f"loop sel {e} " + " ".join(map(str, rest)) + " | " + " ".join(str(int(f)) for f in flags))
                impl.append("idx " + " ".join(map(str, s["idx"])) + " | steps " + " ".join(map(str, s["steps"])) +
                            " | fit " + " ".join(map(str, s["fit"])) + " | hist " + " ".join(map(str, s["hist"])) +
                            f" | elite-carried {int(bool(c['elitism']) and s['elite_same'])}")
        if c["ckpt"]:
            ops.append("loop ckpt")
            n = c["pop"]
            saves = g["ckpts"][:n]
            impl.append("save " + " ".join(str(k["steps"]) for k in saves) if saves else "nosave")
    if res["status"] == "ok":
        if not res.get("stopped_early"):
            ops.append("loop gen 0 " + " ".join(f"{a['ls']} {a['bs']}" for a in res["final"]))
            impl.append("stop")
        ops.append("loop dump")
        f = res["final"]
        impl.append("idx " + " ".join(str(a["index"]) for a in f) + " | steps " + " ".join(str(a["steps"][-1]) for a in f) +
                    " | fit " + " ".join(str(a["fit"]) for a in f) + " | hist " + " ".join(str(len(a["steps"])) for a in f) +
                    f" | gens {len(gens)} | ckpts {sum(1 for g in gens if g['ckpts'])}" +
                    " | lists " + " ; ".join(" ".join(map(str, a["steps"])) for a in f))
        # closed formulas against the first rollout of the run
        if gens and gens[0]["slots"]:
            s0 = gens[0]["slots"][0]
            ops.append(f"loop iters {s0['ls']}")
            its = s0["env"] // (1 if c["loop"] in ("offline", "bandit") else ne)
            impl.append(f"{its} {s0['env']}")
            if c["loop"] == "off" and nstep < 2:
                ops.append(f"loop learncalls {s0['ls']} {s0['bs']} {mem0[0]}")
                impl.append(str(s0["learns"]))
    return ops, impl


def oracle(res: dict) -> list[str]:
    """the property itself, on the implementation's own outputs (every call of the training function)"""
    if "segs" not in res:
        return oracle_seg(res)
    out = []
    many = len(res["segs"]) > 1
    for sg in res["segs"]:
        out += [(f"call {sg['call'] + 1} (max_steps={sg['cfg']['max_steps']}): " if many else "") + p
                for p in oracle_seg(sg)]
    return out


def oracle_seg(res: dict) -> list[str]:
    c = res["cfg"]
    if res["status"] == "timeout":
        return [f"training does not terminate: {res['exc']}"]
    if res["status"] in ("exception", "setup-exception", "crash"):
        return [f"{c['loop']} x {c['algo']} raised {res.get('exc')} at {res.get('where')}"]
    if res["status"] != "ok":
        raise InfraError(f"C20 worker failure: {res.get('exc')} {res.get('trace', '')}")
    out = []
    if res.get("batch_problem"):
        out.append(f"{c['loop']} x {c['algo']} x {c['mem']}: {res['batch_problem']}")
    f, gens, n = res["final"], res["gens"], c["pop"]
    G = len(gens)
    init = res.get("initial") or []
    f0 = init[0]["fit"] if init else 0          # fitness entries the agents brought along
    if init and not gens and [a["steps"] for a in f] != [a["steps"] for a in init]:
        out.append(f"no generation was run but the step lists changed: {[a['steps'] for a in init]} -> {[a['steps'] for a in f]}")
    if len(f) != n:
        out.append(f"population size {len(f)} returned for a population of {n}")
    idx = [a["index"] for a in f]
    if len(set(idx)) != len(idx):
        out.append(f"indices not distinct: {idx}")
    for a in f:
        if a["steps"][-1] != a["env"]:
            out.append(f"agent {a['index']}: steps[-1]={a['steps'][-1]} but its lineage took {a['env']} environment steps")
            break
    for gi, g in enumerate(gens):
        for s in g["slots"]:
            if s["after"] is not None and s["after"] - s["start"] != s["env"]:
                out.append(f"generation {gi + 1}, agent {s['index']}: counter moved by {s['after'] - s['start']} "
                           f"but {s['env']} environment steps were taken")
                break
    # budget: unmet before every executed generation, met at the end
    def met(vals):
        return (sum(vals) >= c["max_steps"]) if c["loop"] == "maon" else any(v >= c["max_steps"] for v in vals)
    for gi, g in enumerate(gens):
        starts = [s["start"] for s in g["slots"]]
        if len(starts) == n and met(starts):
            out.append(f"generation {gi + 1} was run although the budget was already met: steps {starts}, max_steps {c['max_steps']}")
            break
    if init and not gens and not met([a["steps"][-1] for a in init]):
        out.append(f"no generation was run although the budget was not met: steps {[a['steps'][-1] for a in init]}, "
                   f"max_steps {c['max_steps']}")
    early = bool(c["target"] is not None and f and len(f[0]["steps"]) >= 100 and not met([a["steps"][-1] for a in f]))
    res["stopped_early"] = early
    if not early and not met([a["steps"][-1] for a in f]):
        out.append(f"returned before the budget was met: steps {[a['steps'][-1] for a in f]}, max_steps {c['max_steps']}")
    # one fitness per agent and generation
    for a in f:
        if a["fit"] != f0 + G:
            out.append(f"agent {a['index']} has {a['fit'] - f0} new fitness entries after {G} generations")
            break
    if res["fits_len"] != G:
        out.append(f"returned fitness list has {res['fits_len']} entries after {G} generations")
    elif any(r != n for r in res["fits_rows"]):
        out.append(f"returned fitness rows have lengths {res['fits_rows']} for a population of {n}")
    for gi, g in enumerate(gens):
        if any(s["fit"] is not None and s["fit"] != f0 + gi + 1 for s in g["slots"]):
            out.append(f"generation {gi + 1}: fitness list lengths {[s['fit'] for s in g['slots']]}")
            break
        s = g["sel"]
        if s is None:
            continue
        if len(s["idx"]) != n:
            out.append(f"generation {gi + 1}: selection returned {len(s['idx'])} agents for a population of {n}")
        if len(set(s["idx"])) != len(s["idx"]):
            out.append(f"generation {gi + 1}: indices after selection not distinct: {s['idx']}")
        if c["elitism"]:
            if not s["elite_is_best"]:
                out.append(f"generation {gi + 1}: slot 0 after selection does not descend from the fittest agent")
            if not s["elite_index_kept"]:
                out.append(f"generation {gi + 1}: the elite changed its index")
            if (not c["mutate_elite"] or s["muts"][0] == "None") and not s["elite_same"]:
                out.append(f"generation {gi + 1}: the elite's evaluation networks changed on the way into the "
                           f"next generation (mutate_elite={c['mutate_elite']}, mut={s['muts'][0]})")
    if c["ckpt"]:
        for g in gens:
            for k in g["ckpts"]:
                if not k["exists"]:
                    out.append(f"checkpoint {k['file']} was reported but not written")
        names = {k["file"] for g in gens for k in g["ckpts"]}
        if not names <= set(res.get("ckpt_files", [])) and not c["overwrite"]:
            out.append(f"checkpoint files {sorted(names - set(res.get('ckpt_files', [])))} missing")
        if not c["overwrite"]:
            for g in gens:
                for i, k in enumerate(g["ckpts"][:n]):
                    if k["file"] != f"ck_{i}_{k['steps']}.pt":
                        out.append(f"checkpoint file name {k['file']} does not carry slot and steps ({i}, {k['steps']})")
    return out


# ============================================================================================ cases
def gen_cases(rng, tier: str) -> list[dict]:
    cases: list[dict] = []

    def add(**kw):
        kw.setdefault("seed", rng.randrange(1 << 16))
        if finding_class(kw) is None:        # those are probed once, through chk.finding (FINDING_PROBES)
            cases.append(kw)

    fam_s = ["vector", "image", "dict", "discrete"]
    # --- off-policy: every claimed algorithm, num_envs <, =, > learn_step
    for algo in ["DQN", "RainbowDQN", "DDPG", "TD3", "CQN"]:
        ne = rng.choice([1, 2, 3, 4])
        add(loop="off", algo=algo, family=rng.choice(fam_s), num_envs=ne, learn_step=rng.choice([1, 2, 3, 5, 8]),
            evo_steps=rng.choice([20, 22, 30]), max_steps=rng.choice([60, 70, 90]), batch_size=rng.choice([4, 8]),
            tm=rng.random() < 0.6, mutate_elite=rng.random() < 0.5, delay=rng.choice([0, 0, 10]),
            ckpt=rng.choice([None, 20, 45]), via=rng.choice(["build", "create_population"]),
            ls_spread=rng.choice([0, 0, 1, 3]), bs_spread=rng.choice([0, 0, 2]), lr_spread=rng.choice([0.0, 0.5]))
    add(loop="off", algo="DQN", num_envs=2, learn_step=2, tm=True, mutate_elite=False, mut="params", pop=3)
    add(loop="off", algo="DDPG", num_envs=4, learn_step=1, tm=True, mut="hp", cap=32)
    add(loop="off", algo="TD3", num_envs=2, learn_step=7, tm=True, elitism=False)
    # every memory combination x both learn-scheduling branches of train_off_policy (num_envs < learn_step,
    # num_envs == learn_step, num_envs > learn_step), each run long enough to learn
    for mem in ["uniform", "per", "nstep", "per_nstep"]:
        for ne, ls in ((rng.choice([1, 2]), rng.choice([3, 5])), (rng.choice([2, 3]), None), (4, rng.choice([1, 2, 3]))):
            add(loop="off", algo="RainbowDQN", mem=mem, num_envs=ne, learn_step=ls or ne, evo_steps=20, max_steps=40,
                batch_size=4, tm=rng.random() < 0.3, mutate_elite=False, bs_spread=rng.choice([0, 1]),
                via=rng.choice(["build", "create_population"]))
    # --- populations as users supply them: indices unordered, non-contiguous, starting above 0, the largest index
    #     first (a saved elite put in front of fresh agents); tournament + mutation on, several generations
    for lp, algo, idx in (("off", "DQN", [3, 0, 1, 2]), ("on", "PPO", [2, 1, 0]), ("off", "DDPG", [7, 2, 5]),
                          (rng.choice(["bandit", "offline", "maoff"]), None, rng.choice([[9, 4, 5], [5, 1, 0, 3], [4, 5, 6]]))):
        kw = dict(loop=lp, algo=algo or {"bandit": "NeuralUCB", "offline": "CQN", "maoff": "MADDPG"}[lp], indices=idx,
                  pop=len(idx), tm=True, elitism=True, mut="none", mutate_elite=rng.random() < 0.5, tsize=2,
                  evo_steps=10, max_steps=40, learn_step=2 if lp != "on" else 4)
        if lp == "maoff":
            kw["kind"] = "box"
        if lp == "offline":
            kw.update(evo_steps=4, max_steps=16)
        if lp == "bandit":
            kw.update(episode_steps=5, evo_steps=5, max_steps=20, eval_steps=3)
        add(**kw)
    # --- on-policy
    for kind in ["discrete", "box", "multidiscrete", "multibinary"]:
        ne = rng.choice([1, 2, 4])
        add(loop="on", algo="PPO", kind=kind, family=rng.choice(fam_s + ["tuple"]), num_envs=ne,
            learn_step=rng.choice([2, 4, 5, 8]), evo_steps=rng.choice([16, 20, 25]), tm=rng.random() < 0.6,
            mut=rng.choice(["mixed", "hp"]), mutate_elite=rng.random() < 0.5, ckpt=rng.choice([None, 30]),
            via=rng.choice(["build", "create_population"]))
    add(loop="on", algo="PPO", num_envs=2, learn_step=3, ls_spread=2, evo_steps=20, max_steps=rng.choice([60, 70]),
        tm=rng.random() < 0.5, mut="none")
    # --- offline
    add(loop="offline", algo="CQN", family=rng.choice(["vector", "image", "dict"]), evo_steps=rng.choice([5, 8]),
        max_steps=rng.choice([20, 24]), tm=True, mutate_elite=False, ckpt=10)
    add(loop="offline", algo="CQN", evo_steps=6, max_steps=15, num_envs=rng.choice([1, 3]))
    add(loop="offline", algo="DQN", evo_steps=7, max_steps=20, tm=rng.random() < 0.5)
    # --- bandits
    for algo in ["NeuralUCB", "NeuralTS"]:
        add(loop="bandit", algo=algo, episode_steps=rng.choice([6, 10]), evo_steps=rng.choice([10, 20, 25]),
            max_steps=rng.choice([30, 40]), learn_step=rng.choice([1, 2, 3]), tm=rng.random() < 0.7,
            mutate_elite=rng.random() < 0.5, ckpt=rng.choice([None, 15]), eval_steps=4)
    add(loop="bandit", algo="NeuralUCB", episode_steps=5, evo_steps=10, max_steps=30, tm=True, mutate_elite=False, eval_steps=3)
    # --- multi-agent off-policy
    add(loop="maoff", algo="MADDPG", kind="discrete", num_envs=rng.choice([None, 2]), learn_step=rng.choice([1, 2, 5]),
        family=rng.choice(["vector", "image", "dict", "tuple"]), tm=rng.random() < 0.6, mutate_elite=False)
    add(loop="maoff", algo="MADDPG", kind="box", num_envs=3, learn_step=2, delay=12, tm=rng.random() < 0.5)
    add(loop="maoff", algo="MATD3", kind="box", num_envs=rng.choice([None, 2, 4]), learn_step=rng.choice([1, 3, 6]),
        tm=rng.random() < 0.6, ckpt=rng.choice([None, 25]))
    # --- multi-agent on-policy (incl. rollouts of length 1: num_envs >= learn_step, fixed finding C20-ippo-rollout-length-1)
    add(loop="maon", algo="IPPO", kind="box", num_envs=2, learn_step=rng.choice([1, 2]), evo_steps=rng.choice([8, 12]),
        max_steps=rng.choice([40, 60]), tm=rng.random() < 0.5, mut="none")
    add(loop="maon", algo="IPPO", kind="box", num_envs=None, learn_step=rng.choice([3, 4, 8]), evo_steps=rng.choice([12, 20]),
        tm=rng.random() < 0.6, mutate_elite=False, mut="none")
    add(loop="maon", algo="IPPO", kind=rng.choice(["box", "multidiscrete", "multibinary"]), num_envs=2,
        ls_spread=rng.choice([0, 3]), learn_step=rng.choice([4, 5, 8]), evo_steps=rng.choice([12, 20]), max_steps=rng.choice([60, 100]),
        tm=rng.random() < 0.6, mut="none")
    # --- early stopping: len(steps) reaches 100 long before the budget
    add(loop="off", algo="DQN", num_envs=2, evo_steps=2, max_steps=1000, eval_steps=1, target=-1.0, learn_step=2,
        batch_size=4, timeout=150)
    # --- runs that END BY EARLY STOP, every loop: the population already carries a `steps` history of 98 / 99 / 100
    #     entries (the early-stop test needs len(steps) >= 100: it fires in generation 2 / 1 / 1) and the target is
    #     exceeded from the first evaluation on; one fitness row per evaluated generation, also for the last one
    early_kw = {
        "off": dict(algo=rng.choice(["DQN", "DDPG", "RainbowDQN"]), num_envs=2, evo_steps=10, learn_step=2),
        "on": dict(algo="PPO", num_envs=2, evo_steps=10, learn_step=4),
        "offline": dict(algo="CQN", evo_steps=5),
        "bandit": dict(algo=rng.choice(["NeuralUCB", "NeuralTS"]), episode_steps=6, evo_steps=12, eval_steps=3),
        "maoff": dict(algo="MADDPG", kind="box", num_envs=2, evo_steps=10, learn_step=2),
        "maon": dict(algo="IPPO", kind="box", num_envs=2, evo_steps=10, learn_step=4),
    }
    for lp, kw in early_kw.items():
        add(loop=lp, target=-1000.0, hist_len=rng.choice([98, 99, 100]), max_steps=400, tm=rng.random() < 0.4, mut="none",
            ckpt=rng.choice([None, 7]), **kw)
    # --- offline datasets of every size relative to the memory capacity: smaller, equal, between 1x and 2x,
    #     exactly 2x, more than 2x, many times (train_offline loads dataset_length - 1 transitions before training)
    cap_o = rng.choice([8, 16])
    for n_rows in (cap_o - 3, cap_o + 1, cap_o + cap_o // 2, 2 * cap_o + 1, 3 * cap_o + 2, 5 * cap_o + 1):
        add(loop="offline", algo=rng.choice(["CQN", "DQN"]), cap=cap_o, dataset_n=n_rows, batch_size=rng.choice([2, 4]),
            evo_steps=3, max_steps=6, pop=rng.choice([1, 2]))
    # --- degenerate but legal sizes: batch_size 1, num_envs 1, population 1, learn_step 1 - with the uniform, n-step
    #     and prioritised memories (what learn() receives must still be batches of batch_size rows)
    for mem_ in ("uniform", "nstep", "per", "per_nstep"):
        add(loop="off", algo="RainbowDQN", mem=mem_, batch_size=1, num_envs=rng.choice([1, 2]), learn_step=1,
            pop=rng.choice([1, 2]), evo_steps=8, max_steps=16, nstep=rng.choice([2, 3]))
    add(loop="off", algo=rng.choice(["DQN", "DDPG", "TD3"]), batch_size=1, num_envs=1, learn_step=1, pop=1, evo_steps=6, max_steps=12)
    add(loop="offline", algo="CQN", batch_size=1, pop=1, evo_steps=3, max_steps=6)
    add(loop="maoff", algo="MADDPG", kind="box", batch_size=1, num_envs=None, learn_step=1, pop=1, evo_steps=6, max_steps=12)
    add(loop="bandit", algo="NeuralUCB", batch_size=1, pop=1, learn_step=1, episode_steps=4, evo_steps=8, max_steps=8, eval_steps=2)
    # --- populations that already carry steps: every training function is called again on the population it
    #     returned (larger budget, then an already exhausted one -> 0 generations), and on agents whose `steps`
    #     are non-zero on entry (as after loading a checkpoint), equal or unequal across the population
    resumed = {
        "off": dict(algo=rng.choice(["DQN", "DDPG", "TD3", "RainbowDQN"]), num_envs=2, evo_steps=10, learn_step=rng.choice([1, 2, 4])),
        "on": dict(algo="PPO", num_envs=2, evo_steps=10, learn_step=4),
        "offline": dict(algo="CQN", evo_steps=5),
        "bandit": dict(algo=rng.choice(["NeuralUCB", "NeuralTS"]), episode_steps=6, evo_steps=12, eval_steps=3),
        "maoff": dict(algo="MADDPG", kind="box", num_envs=rng.choice([None, 2]), evo_steps=10, learn_step=2),
        "maon": dict(algo="IPPO", kind="box", num_envs=rng.choice([None, 2]), evo_steps=10, learn_step=4),
    }
    per_gen = {"off": 10, "on": 12, "offline": 5, "bandit": 6, "maoff": 10, "maon": 24}
    for lp, kw in resumed.items():
        d = per_gen[lp]
        b1, b2 = 2 * d, 2 * d + rng.choice([2, 3]) * d
        add(loop=lp, budgets=[b1, b2, rng.choice([b2, b2 - d, b1])], tm=rng.random() < 0.4, mut="none",
            ckpt=rng.choice([None, d + 1]), **kw)
        s0 = rng.choice([d, 3 * d + 1])
        spread = rng.choice([0, d, 2 * d])
        add(loop=lp, start_steps=s0, start_spread=spread, start_hist=rng.random() < 0.5,
            max_steps=rng.choice([s0 + 2 * d, s0 + spread, s0 + spread + 2 * d]), tm=rng.random() < 0.4, mut="none", **kw)
    # --- populations as the library builds them: agilerl.utils.utils.create_population for every algorithm string
    #     it supports, for the vector environment they are then trained on (num_envs 2..4), with episodes ending in
    #     every sub-environment index - also ONLY in a non-zero one - and at staggered times
    modes = ["last-only", "reverse", "middle-only", "stagger", "first-only"]
    for k, (lp, algo) in enumerate([("off", "TD3"), ("off", "DDPG"), ("maoff", "MATD3"), ("maoff", "MADDPG"),
                                    ("off", "DQN"), ("off", "RainbowDQN"), ("off", "CQN"), ("on", "PPO"),
                                    ("maon", "IPPO"), ("offline", "CQN"), ("bandit", "NeuralUCB"), ("bandit", "NeuralTS")]):
        kw = dict(loop=lp, algo=algo, via="create_population", num_envs=rng.choice([2, 3, 4]),
                  ep_mode=modes[k % 4] if k < 4 else rng.choice(modes), ep_len=rng.choice([2, 3]),   # episodes end within every rollout
                  evo_steps=rng.choice([20, 24]), max_steps=40,
                  learn_step=rng.choice([1, 2, 4]) if lp not in ("on", "maon") else 4, ls_spread=rng.choice([0, 1]),
                  bs_spread=rng.choice([0, 2]), tm=rng.random() < 0.4, mutate_elite=rng.random() < 0.5)
        if lp in ("maoff", "maon"):
            kw["kind"] = "box"
        if lp == "offline":
            kw.update(evo_steps=5, max_steps=12)
        if lp == "bandit":
            kw.update(episode_steps=6, evo_steps=12, max_steps=18, eval_steps=3)
        add(**kw)
    # --- squashed continuous policies in the on-policy loop (StochasticActor.scale_action on numpy actions);
    #     IPPO cannot be run with squash_output at all (see _build_population)
    add(loop="on", algo="PPO", kind="box", squash=True, num_envs=rng.choice([2, 3]), learn_step=rng.choice([3, 4, 8]),
        ep_mode=rng.choice(modes), ep_len=3, tm=rng.random() < 0.5, via=rng.choice(["build", "create_population"]))
    add(loop="on", algo="PPO", kind="box", squash=True, num_envs=1, learn_step=rng.choice([2, 5]), evo_steps=16, max_steps=40,
        family=rng.choice(["vector", "dict"]))
    # --- learn scheduling classes of learn_step vs num_envs that the integer divisions treat differently:
    #     num_envs < learn_step < 2*num_envs (learn_step // num_envs == 1), learn_step < num_envs not dividing it,
    #     learn_step an exact multiple, learn_step > 2*num_envs not a multiple
    add(loop="maoff", algo="MADDPG", kind="box", num_envs=2, learn_step=3, evo_steps=20, max_steps=40)
    add(loop="maoff", algo="MATD3", kind="box", num_envs=4, learn_step=rng.choice([5, 6, 7]), evo_steps=20, max_steps=40,
        ls_spread=rng.choice([0, 1]))
    add(loop="off", algo="DQN", num_envs=3, learn_step=rng.choice([4, 5]), evo_steps=21, max_steps=42)
    add(loop="off", algo="DDPG", num_envs=4, learn_step=3, evo_steps=20, max_steps=40, ls_spread=rng.choice([0, 4]))
    if rng.random() < 0.5:
        add(loop="off", algo="TD3", num_envs=2, learn_step=rng.choice([4, 5, 7]), evo_steps=20, max_steps=40)
    else:
        add(loop="maoff", algo="MADDPG", kind="box", num_envs=2, learn_step=rng.choice([4, 5, 7]), evo_steps=20, max_steps=40)
    # --- populations as HPO mutations leave them: members with different learn_step take a different number of
    #     environment steps per generation in the on-policy loops; the budget is placed in the gap between what
    #     slot 0 alone suggests and what the documented rule says (any agent / sum over the population)
    def on_steps(evo, ls, ne):
        return -(-evo // ls) * -(-ls // ne) * ne

    for lp, algo, kind in (("maon", "IPPO", "box"), ("on", "PPO", None)):
        for slow_first in (True, False):
            for _try in range(50):
                ne = rng.choice([1, 2, 3])
                evo = rng.choice([12, 20, 25])
                l0, l1 = rng.choice([2, 4, 5, 8]), rng.choice([6, 9, 12, 16])
                d0, d1 = on_steps(evo, l0, ne), on_steps(evo, l1, ne)
                if d0 != d1:
                    break
            if (d0 > d1) == slow_first:
                l0, l1, d0, d1 = l1, l0, d1, d0          # slot 0 is the slower stepper iff slow_first
            g = rng.choice([1, 2])
            if lp == "maon":
                lo, hi, prev = 2 * g * min(d0, d1), g * (d0 + d1), (g - 1) * (d0 + d1)
            else:
                lo, hi, prev = g * min(d0, d1), g * max(d0, d1), (g - 1) * max(d0, d1)
            mx = rng.randint(max(lo, prev) + 1, hi)
            add(loop=lp, algo=algo, kind=kind, num_envs=ne if lp == "on" else rng.choice([None, ne]) if ne == 1 else ne,
                evo_steps=evo, learn_step=l0, ls_spread=l1 - l0, max_steps=mx, bs_spread=rng.choice([0, 2]),
                lr_spread=rng.choice([0.0, 0.5]), tm=False)
    # --- bandits: when does the shared memory first hold a batch - inside the first agent's episode, between two
    #     agents of one generation, exactly at an episode / generation boundary, or only in a later generation
    for algo, bs, ep, n, spread in (("NeuralUCB", 8, 5, 2, 0), ("NeuralTS", 8, 3, 3, 0), ("NeuralUCB", 5, 5, 2, 0),
                                    ("NeuralTS", 10, 5, 2, 0), ("NeuralTS", 6, 5, 2, 0), ("NeuralUCB", 18, 5, 2, 0),
                                    ("NeuralUCB", 4, 5, 2, 5), ("NeuralTS", 9, 4, 3, -3)):
        add(loop="bandit", algo=algo, batch_size=bs, bs_spread=spread, episode_steps=ep, pop=n, evo_steps=2 * ep,
            max_steps=rng.choice([3, 4]) * ep, learn_step=rng.choice([1, 2]), ls_spread=rng.choice([0, 1]),
            eval_steps=3, tm=rng.random() < 0.4, mut="none", lr_spread=rng.choice([0.0, 0.5]))
    extra = 6 if tier == "quick" else 200
    for _ in range(extra):
        loop = rng.choice(["off", "off", "off", "on", "on", "offline", "bandit", "maoff", "maon"])
        algo = rng.choice(LOOP_ALGOS[loop])
        kw = dict(loop=loop, algo=algo, tm=rng.random() < 0.6, mutate_elite=rng.random() < 0.5,
                  elitism=rng.random() < 0.85, mut=rng.choice(["mixed", "mixed", "hp", "params", "none"]),
                  pop=rng.choice([2, 2, 3]), ckpt=rng.choice([None, None, 15, 40]), overwrite=rng.random() < 0.3,
                  batch_size=rng.choice([2, 4, 8]), cap=rng.choice([16, 64]))
        if loop in ("off", "maoff"):
            kw.update(num_envs=rng.choice([1, 2, 3, 4] if loop == "off" else [None, 2, 3]),
                      learn_step=rng.choice([1, 2, 3, 4, 5, 8]), evo_steps=rng.choice([8, 15, 20, 33]),
                      max_steps=rng.choice([40, 60, 100]), delay=rng.choice([0, 0, 7, 30]))
            if loop == "off":
                kw["family"] = rng.choice(fam_s)
                if algo == "RainbowDQN":
                    kw["mem"] = rng.choice(["uniform", "per", "nstep", "per_nstep"])
            else:
                kw["kind"] = "box" if algo == "MATD3" else rng.choice(["box", "discrete"])
                kw["family"] = rng.choice(["vector", "image", "dict", "tuple"])
        elif loop in ("on", "maon"):
            ne = rng.choice([1, 2, 3, 4]) if loop == "on" else rng.choice([None, 2, 3])
            ls = rng.choice([2, 3, 4, 6, 8]) if loop == "on" else rng.choice([1, 2, 4, 6, 8])
            kw.update(num_envs=ne, learn_step=ls, evo_steps=rng.choice([7, 12, 20, 25]), max_steps=rng.choice([40, 60, 100]),
                      ls_spread=rng.choice([0, 0, 1, 3]))
            if loop == "on":
                kw.update(kind=rng.choice(["discrete", "box", "multidiscrete", "multibinary"]), family=rng.choice(fam_s + ["tuple"]))
            else:
                kw.update(kind=rng.choice(["box", "multidiscrete", "multibinary"]), mut=rng.choice(["none", "params"]))
        elif loop == "offline":
            kw.update(evo_steps=rng.choice([3, 5, 8]), max_steps=rng.choice([10, 20, 24]), family=rng.choice(["vector", "image", "dict"]))
        else:
            kw.update(episode_steps=rng.choice([4, 6, 10]), evo_steps=rng.choice([8, 10, 20]), max_steps=rng.choice([20, 30, 40]),
                      learn_step=rng.choice([1, 2, 3]), eval_steps=3)
        if kw["tm"] and rng.random() < 0.4:
            ids = rng.sample(range(0, 12), kw["pop"])
            if rng.random() < 0.5:
                ids.sort(reverse=True)
            kw["indices"] = ids
        kw["ep_mode"] = rng.choice(["stagger", "stagger", "reverse", "last-only", "middle-only", "first-only"])
        kw["ep_len"] = rng.choice([2, 3, 5, 7])
        kw["via"] = rng.choice(["build", "create_population"])
        if loop == "on" and kw.get("kind") == "box":
            kw["squash"] = rng.random() < 0.5
        if rng.random() < 0.5:
            kw.update(bs_spread=rng.choice([0, 1, 3]), lr_spread=rng.choice([0.0, 0.5, 2.0]))
            if loop in ("off", "maoff", "bandit"):
                kw["ls_spread"] = rng.choice([0, 1, 2])
        if loop == "bandit":
            ep, n = kw["episode_steps"], kw["pop"]
            kw["batch_size"] = max(2, rng.choice([ep - 1, ep, ep + 1, n * ep - 1, n * ep, n * ep + 1, n * ep + ep + 2, 4]))
        r = rng.random()
        if r < 0.2:
            m = kw["max_steps"]
            kw["budgets"] = [m, m + rng.choice([10, 25, 40]), rng.choice([m, m + 10])]
        elif r < 0.4:
            kw.update(start_steps=rng.choice([5, 17, 30]), start_spread=rng.choice([0, 0, 8, 25]), start_hist=rng.random() < 0.5)
        if loop == "maoff" and kw.get("family") in ("image", "dict", "tuple"):
            kw.update(max_steps=40, evo_steps=min(kw["evo_steps"], 15))      # multi-input critics are slow
        add(**kw)
    return cases


def table_tasks() -> list[tuple]:
    rows = []
    for algo in ["DQN", "RainbowDQN", "DDPG", "TD3", "CQN"]:
        rows.append(("off", algo, "uniform"))
    for mem in ["per", "nstep", "per_nstep"]:
        rows.append(("off", "RainbowDQN", mem))
    for algo in ["DQN", "DDPG"]:
        for mem in ["per", "nstep"]:
            rows.append(("off", algo, mem))
    rows += [("on", "PPO", "none"), ("offline", "CQN", "uniform"), ("offline", "DQN", "uniform"),
             ("bandit", "NeuralUCB", "uniform"), ("bandit", "NeuralTS", "uniform"),
             ("maoff", "MADDPG", "ma"), ("maoff", "MATD3", "ma"), ("maon", "IPPO", "none")]
    tasks = []
    for lp, algo, mem in rows:
        cfg = dict(loop=lp, algo=algo, mem=mem, max_steps=16, evo_steps=16, num_envs=2, learn_step=4, batch_size=4,
                   episode_steps=8, eval_steps=2, seed=1)
        if lp in ("maoff", "maon") or algo in ("DDPG", "TD3"):
            cfg["kind"] = "box"
        if lp == "offline":
            cfg.update(evo_steps=4, max_steps=4)
        tasks.append((("row", lp, algo, mem), cfg))
    return tasks


# ============================================================================================ check
def judge(chk: Check, res: dict):
    """(oracle problems, index of the first model/implementation difference or None, ops, impl, model)"""
    problems = oracle(res)
    ops, impl = model_lines(res)
    model = chk.driver.run(["reset"] + ops)[1:]
    chk.corr["model_lines"] += len(ops)
    diff = next((i for i, (a, b) in enumerate(zip(impl, model)) if a != b), None)
    return problems, diff, ops, impl, model


DEFAULT_KIND = {"DQN": "discrete", "RainbowDQN": "discrete", "CQN": "discrete", "NeuralUCB": "discrete",
                "NeuralTS": "discrete", "DDPG": "box", "TD3": "box", "PPO": "discrete", "IPPO": "discrete",
                "MADDPG": "discrete", "MATD3": "discrete"}


def finding_class(cfg: dict) -> str | None:
    """the open known finding a configuration runs into by construction (such configurations are probed
    once, through chk.finding, and are never generated, shrunk into, or reported as something else)"""
    c = full(cfg)
    kind = c["kind"] or DEFAULT_KIND[c["algo"]]
    lp = c["loop"]
    if lp in ("off", "maoff") and c["evo_steps"] < (c["num_envs"] or 1):
        return "C20-zero-iteration-generation-hangs"
    if lp in ("off", "offline") and c["num_envs"] is None:
        return "C20-off-policy-plain-env-eval"
    if lp == "on" and c["num_envs"] is None:
        return "C20-on-policy-plain-env-dones"
    if kind == "multidiscrete" and c["algo"] in ("DQN", "RainbowDQN", "CQN", "MADDPG", "MATD3"):
        return "C20-multidiscrete-flat-action"
    if kind == "discrete" and c["algo"] in ("MATD3", "IPPO"):
        return "C20-ma-discrete-action-axis"
    if lp in ("off", "offline") and c["family"] == "tuple":
        return "C20-tuple-obs-replay"
    if lp == "offline" and c["family"] == "discrete":
        return "C20-offline-scalar-observation"
    return None


def signature(problem: str) -> str:
    """what kind of failure a problem line reports (numbers and call prefixes removed)"""
    import re
    p = re.sub(r"^call \d+ \(max_steps=\d+\): ", "", problem)
    if " raised " in p:
        return "raised " + p.split(" raised ", 1)[1].split(":", 1)[0]
    return re.sub(r"[-\d\[\], .]+", "#", p)[:48]


def shrink(chk: Check, pool: Pool, cfg: dict, still_fails) -> dict:
    """greedy delta debugging over configuration dimensions: reset to the baseline value whatever can
    be reset while the failure persists (at most 14 further runs)"""
    cur = dict(cfg)
    budget = 14
    keys = [k for k in cur if k in BASE and cur[k] != BASE[k] and k not in ("loop", "algo", "seed", "timeout", "fault")]
    for k in keys:
        if budget <= 0:
            break
        if k == "mem" and cur["loop"] in ("on", "maon", "maoff"):
            continue
        cand = dict(cur)
        cand[k] = BASE[k]
        if finding_class(cand) is not None:      # never shrink into the territory of a known finding
            continue
        budget -= 1
        r = pool.map([("shrink", cand)])["shrink"]
        try:
            if still_fails(r):
                cur = cand
        except InfraError:
            pass
    return cur


def tags_of(res: dict) -> list[str]:
    c = res["cfg"]
    ne = c["num_envs"]
    t = [f"loop-{c['loop']}", f"algo-{c['algo']}", f"mem-{c['mem']}", f"obs-{c['family']}",
         "env-plain" if ne is None else ("env-vec1" if ne == 1 else "env-vec")]
    if c["loop"] in ("off", "maoff", "on", "maon"):
        n = ne or 1
        t.append("numenvs<learnstep" if n < c["learn_step"] else ("numenvs=learnstep" if n == c["learn_step"] else "numenvs>learnstep"))
        if c["loop"] in ("off", "maoff") and c["evo_steps"] % n:
            t.append("numenvs-does-not-divide-evosteps")
    if c["tm"]:
        t.append("tournament+mutation")
        t.append("mutate_elite" if c["mutate_elite"] else "elite-protected")
        if any(g["sel"] and any(m not in ("None",) for m in g["sel"]["muts"]) for g in res.get("gens", [])):
            t.append("real-mutation-drawn")
    if any(len({s["after"] for s in g["slots"]}) > 1 for g in res.get("gens", [])):
        t.append("step-counters-diverged")
    t.append(f"population-via-{c['via']}")
    if c.get("indices"):
        t.append("user-supplied-indices")
        if c["indices"][-1] != max(c["indices"]):
            t.append("largest-index-not-last")
    if ne and ne > 1:
        t.append(f"episodes-end-{c['ep_mode']}")
    if c.get("squash") and c["algo"] == "PPO":
        t.append("squash_output")
    if c.get("budgets"):
        t.append("called-again-on-returned-population")
        if any(not sg["gens"] for sg in res.get("segs", [])[1:]):
            t.append("call-with-exhausted-budget-0-generations")
    if c.get("start_steps"):
        t.append("nonzero-steps-on-entry")
        if c.get("start_spread"):
            t.append("unequal-steps-on-entry")
    if c["ckpt"]:
        t.append("checkpoints")
    if c["target"] is not None:
        t.append("early-stop")
    t.append(f"generations-{min(len(res.get('gens', [])), 5)}")
    return t


def run_cases(chk: Check, pool: Pool, cases: list[dict], suite: str, expect_detect: bool = False) -> int:
    results = pool.map([(i, c) for i, c in enumerate(cases)])
    # a run killed by the wall-clock guard gets one more chance with four times the allowance, so that a
    # slow machine is not reported as "does not terminate"
    slow = [i for i, c in enumerate(cases) if results[i]["status"] == "timeout"]
    if slow and not expect_detect:
        again = pool.map([(i, dict(cases[i], timeout=4 * full(cases[i])["timeout"])) for i in slow])
        for i in slow:
            results[i] = again[i]
            chk.notes.append(f"case {i} needed the extended wall-clock allowance")
    ndiff = detected = 0
    for i, c in enumerate(cases):
        res = results[i]
        problems, diff, ops, impl, model = judge(chk, res)
        G = len(res.get("gens", []))
        if not expect_detect:
            chk.case(c, nontrivial=G >= 2, tags=tags_of(res),
                     sample={"cfg": {k: v for k, v in res["cfg"].items() if BASE.get(k) != v},
                             "generations": G, "final_steps": [a["steps"][-1] for a in res.get("final", [])],
                             "learn_calls_gen1": [s["learns"] for s in res["gens"][0]["slots"]] if G else []})
        if not problems and diff is None:
            continue
        if expect_detect:
            detected += 1
            continue
        ndiff += diff is not None

        fid = finding_class(res["cfg"])
        if fid is not None and problems:
            # by construction this configuration can only show that known finding: route it there
            chk.finding(fid, problems[0], {"cfg": res["cfg"], "status": res["status"], "exc": res.get("exc"),
                                           "where": res.get("where")})
            continue

        def still_fails(r, had_problem=bool(problems), sig=signature(problems[0]) if problems else None):
            p, d, *_ = judge(chk, r)          # the *same kind* of failure must persist
            return any(signature(x) == sig for x in p) if had_problem else (d is not None and not p)
        small = shrink(chk, pool, res["cfg"], still_fails)
        r2 = pool.map([("final", small)])["final"]
        p2, d2, ops2, impl2, model2 = judge(chk, r2)
        if not (p2 or d2 is not None):
            small, r2, p2, d2, ops2, impl2, model2 = res["cfg"], res, problems, diff, ops, impl, model
        replay = {"cfg": {k: v for k, v in small.items()}, "status": r2["status"], "exc": r2.get("exc"),
                  "where": r2.get("where"), "oracle_problems": p2, "diff_at": d2, "ops": ops2, "impl": impl2,
                  "model": model2, "correspondence": "harness/c20.py vs Model/Loop.lean",
                  "theorems": chk.gate["theorems"]}
        if p2:
            chk.violation(p2[0], replay)
        else:
            chk.violation(f"implementation and Loop model disagree at op {ops2[d2]!r}: impl={impl2[d2]!r} "
                          f"model={model2[d2]!r}; the property oracle holds on this configuration and its shrinks",
                          replay, no_input=True)
    if not expect_detect:
        chk.suite(suite, len(cases), ndiff)
    return detected


def compat_table(chk: Check, pool: Pool) -> None:
    tasks = table_tasks()
    results = pool.map(tasks)
    ops, rows = [], []
    for key, cfg in tasks:
        r = results[key]
        if r["status"] not in ("ok", "exception", "timeout"):
            raise InfraError(f"C20 table extraction failed for {key}: {r.get('exc')} {r.get('trace', '')}")
        accepted = r["status"] == "ok"
        form = r.get("form") or "none"
        rows.append((key, cfg, form, accepted, r))
        ops.append(f"loop row {key[1]} {key[2]} {key[3]} {form} {int(accepted)}")
    ops.append("loop table")
    out = chk.driver.run(["reset"] + ops)[1:]
    chk.corr["model_lines"] += len(ops)
    ndiff = 0
    for (key, cfg, form, accepted, r), line in zip(rows, out):
        chk.case(["row", *key[1:]], nontrivial=True, tags=["compat-row", f"form-{form}", "accepted" if accepted else "rejected"])
        w = line.split()
        claimed, ok, snap = w[1] == "1", w[3] == "1", w[5] == "1"
        replay = {"cfg": full(cfg), "row": [key[1], key[2], key[3], form, accepted], "model": line,
                  "exc": r.get("exc"), "where": r.get("where"), "theorems": ["C20_compat_table"]}
        if claimed and not ok:
            chk.violation(f"{key[1]} x {key[2]} x {key[3]}: the loop hands learn() a {form} batch and the run fails: "
                          f"{r.get('exc')} at {r.get('where')}", replay)
        elif not snap:
            ndiff += 1
            chk.violation(f"compatibility row {key[1:]} = ({form}, accepted={accepted}) differs from the table "
                          f"Props/C20.lean proves about (Loop.extractedTable)", replay, no_input=True)
    if "complete 1" not in out[-1]:
        raise InfraError(f"C20: extracted table incomplete: {out[-1]}")
    chk.suite("compat-table", len(rows), ndiff)


def probes(chk: Check, pool: Pool) -> None:
    tasks = [((i, fid), dict(cfg)) for i, (fid, cfg, _) in enumerate(FINDING_PROBES)]
    results = pool.map(tasks)
    for (key, cfg), (fid, _, how) in zip(tasks, FINDING_PROBES):
        r = results[key]
        chk.case(["probe", fid, cfg], nontrivial=False, tags=["finding-probe"])
        failed = r["status"] == "timeout" if how == "hangs" else r["status"] in ("exception", "timeout")
        if r["status"] in ("setup-exception", "crash", "infra"):
            raise InfraError(f"C20 probe {fid} could not be set up: {r.get('exc')} {r.get('trace', '')}")
        if failed:
            chk.finding(fid, f"{r.get('exc')} at {r.get('where')}", {"cfg": full(cfg), "status": r["status"],
                                                                   "exc": r.get("exc"), "where": r.get("where")})
        else:
            chk.notes.append(f"probe {fid} {cfg}: no longer fails on this tree")
    # the model side of the hang: with evo_steps // num_envs == 0 no generation moves a counter
    out = chk.driver.run(["reset", "loop cfg off 10 3 4 0 64 0 0 0 1 1", "loop pop 0 0 1 0",
                          "loop gen 0 2 4 2 4", "loop gen 0 2 4 2 4", "loop gen 0 2 4 2 4", "loop cond"])
    if out[3:] != ["steps 0 0 | learns 0 0 | mem 0 | fit 1 1", "steps 0 0 | learns 0 0 | mem 0 | fit 2 2",
                   "steps 0 0 | learns 0 0 | mem 0 | fit 3 3", "1"]:
        raise InfraError(f"C20: driver does not reproduce the non-termination witness: {out}")


def selftest(chk: Check, pool: Pool) -> None:
    faults = [
        ("steps+1", dict(loop="off", algo="DQN", num_envs=2, fault="steps+1", max_steps=30, evo_steps=10)),
        ("fitness-twice", dict(loop="off", algo="DQN", num_envs=2, fault="fitness-twice")),
        ("short-selection", dict(loop="off", algo="DQN", num_envs=2, fault="short-selection", tm=True, pop=3, mut="none")),
        ("early-stop-drops-row", dict(loop="off", algo="DQN", num_envs=2, fault="early-stop-drops-row", target=-1000.0,
                                      hist_len=99, evo_steps=10, max_steps=400)),
        ("offline-load-overflow", dict(loop="offline", algo="CQN", fault="offline-load-overflow", cap=8, dataset_n=26,
                                       batch_size=2, evo_steps=3, max_steps=6)),
        ("nstep-unbatched", dict(loop="off", algo="RainbowDQN", mem="nstep", batch_size=1, num_envs=1, learn_step=1,
                                 fault="nstep-unbatched", evo_steps=8, max_steps=16)),
    ]
    for name, cfg in faults:
        if run_cases(chk, pool, [cfg], "selftest", expect_detect=True) != 1:
            raise InfraError(f"C20 self-test: seeded fault {name!r} was not noticed")
        chk.notes.append(f"self-test: seeded fault {name} detected")
    for name in EVO_FAULTS:
        cfg = dict(task="evo", algo="DQN", pop=3, gens=2, mutate_elite=False, mut="params", fault=name, seed=5)
        if run_evo(chk, pool, [cfg], expect_detect=True) != 1:
            raise InfraError(f"C20 self-test: seeded fault {name!r} of the evolution step was not noticed")
        chk.notes.append(f"self-test: seeded fault {name} detected")


def pre_gate(chk: Check) -> None:
    """Regenerate lean/Gen/LoopGen.lean from the source text of the six training functions of the tree under test
    (before the Lean gate) and re-check `generated = model` (Proofs/LoopGenEq.lean) and the theorems restated over
    the generated loops (Props/C20.lean, `C20_source_translation_*`).  A rejected source or a broken equality is a
    gate problem naming the declaration; the train-loops suite below supplies the failing input."""
    import common
    import py2lean_loop
    common.translation_gate(chk, py2lean_loop, "Gen/LoopGen.lean", ["Gen.LoopGen", "Proofs.LoopGenEq", "Props.C20"],
                            "counter slice of the six training functions: loop structure, integer counters, budget "
                            "test, learn scheduling, events in order")
    import py2lean_evostep
    common.translation_gate(chk, py2lean_evostep, "Gen/EvoStepGen.lean",
                            ["Gen.EvoStepGen", "Proofs.EvoStepGenEq", "Props.C20"],
                            "tournament_selection_and_mutation (both accelerator paths, save_elite) and the "
                            "population-level skeleton of Mutations.mutation")


def run(chk: Check) -> None:
    chk.rule = ("real train_* functions on scripted instrumented environments: every claimed (loop, algorithm) pair, "
                "uniform / n-step / prioritised memories, plain, 1-env and multi-env vector environments with num_envs "
                "<, =, > learn_step and not dividing evo_steps, with and without tournament+mutation, checkpoints, "
                "early stopping; budgets crossing 2-4 generations; distinct = distinct configuration; non-trivial = "
                "at least two generations were executed")
    chk.assumptions = [
        "an environment step is attributed to the agent whose get_action was called last (class-level hook)",
        "generation boundaries are recognised by the first agent.test() call after training events",
        "vector environments are in-process (gymnasium SyncVectorEnv / a stand-in for AsyncPettingZooVecEnv)",
        "the tournament outcome and mutated hyper-parameters are read from the real run and given to the model",
    ]
    chk.trusted_extra = ["harness/envs_train.py scripted environments and their step counters"]
    corpus = sorted((ROOT / "corpus" / PID).glob("*.json"))
    cases = [json.loads(f.read_text()) for f in corpus]
    cases = [c.get("cfg", c) for c in cases]
    cases += gen_cases(chk.rng, chk.tier)
    workers = max(2, min(12, (os.cpu_count() or 4) - 2))
    with Pool(workers) as pool:
        compat_table(chk, pool)
        run_cases(chk, pool, [c for c in cases if c.get("task") != "evo"], "train-loops")
        run_evo(chk, pool, [c for c in cases if c.get("task") == "evo"] + evo_cases(chk.rng, chk.tier))
        probe_accel(chk, pool)
        probes(chk, pool)
        if chk.tier == "thorough":
            selftest(chk, pool)


def replay(chk: Check, path: str) -> int:
    c = json.loads(open(path).read())
    c = c.get("replay", c)
    cfg = c.get("cfg", c)
    if cfg.get("task") == "evo":
        with Pool(1) as pool:
            res = pool.map([("r", cfg)])["r"]
        problems, diff = evo_judge(chk, res)
        print(json.dumps({"status": res["status"], "exc": res.get("exc"), "oracle_problems": problems, "diff": diff,
                          "steps": res.get("steps")}, indent=1, default=str))
        if problems:
            print(f"VIOLATION property={PID} replay={path}")
            return 1
        if diff is not None:
            print(f"VIOLATION property={PID} replay={path} no-failing-input-found")
            return 1
        return 0
    with Pool(1) as pool:
        res = pool.map([("r", cfg)])["r"]
    problems, diff, ops, impl, model = judge(chk, res)
    print(json.dumps({"status": res["status"], "exc": res.get("exc"), "where": res.get("where"),
                      "oracle_problems": problems, "diff_at": diff, "impl": impl, "model": model}, indent=1))
    if "row" in c:
        lp, algo, mem = c["row"][:3]
        line = chk.driver.run(["reset", f"loop row {lp} {algo} {mem} {res.get('form') or 'none'} {int(res['status'] == 'ok')}"])[1]
        print(line)
        if " ok 0" in line:
            problems = problems or [f"claimed row {lp} x {algo} x {mem} is not accepted"]
    if problems:
        print(f"VIOLATION property={PID} replay={path}")
        return 1
    if diff is not None:
        print(f"VIOLATION property={PID} replay={path} no-failing-input-found")
        return 1
    return 0
