"""
Shared machinery of every check: Lean gate (build + axiom audit + source scan), the compiled
model driver, evidence writer, known-findings protocol, violation reporting, ddmin shrinker.

Run with /venv/bin/python; the real implementation is imported from REPO (default /repo).
"""
from __future__ import annotations

import hashlib
import json
import os
import random
import re
import subprocess
import sys
import time
from collections import Counter
from fractions import Fraction
from pathlib import Path

ROOT = Path(__file__).resolve().parent.parent
LEAN_DIR = ROOT / "lean"
REPO = Path(os.environ.get("VERIF_REPO", "/repo"))
EVIDENCE_DIR = ROOT / "evidence"
REPLAY_DIR = EVIDENCE_DIR / "replays"
KNOWN_FILE = ROOT / "known_findings.json"
ALLOWED_AXIOMS = {"propext", "Classical.choice", "Quot.sound"}
FORBIDDEN = re.compile(
    r"\bsorry\b|\badmit\b|^\s*axiom\s|native_decide|bv_decide|implemented_by|\bunsafe\s|maxHeartbeats\s+0\b",
    re.M,
)

os.environ.setdefault("AGILERL_VERIF", "1")
os.environ.setdefault("CUDA_VISIBLE_DEVICES", "")
os.environ.setdefault("OMP_NUM_THREADS", "2")
os.environ.setdefault("MKL_NUM_THREADS", "2")
os.environ.setdefault("WANDB_MODE", "disabled")
if str(REPO) not in sys.path:
    sys.path.insert(0, str(REPO))


class InfraError(Exception):
    """something in the verification machinery itself is broken (exit 2, never a violation)"""


def frac(x) -> str:
    """exact rational text of a python number (floats via their exact dyadic value)"""
    if isinstance(x, bool):
        x = int(x)
    if isinstance(x, int):
        return str(x)
    f = Fraction(x)
    return str(f.numerator) if f.denominator == 1 else f"{f.numerator}/{f.denominator}"


def strip_lean_comments(src: str) -> str:
    out, i, depth, n = [], 0, 0, len(src)
    while i < n:
        if src.startswith("/-", i):
            depth += 1
            i += 2
        elif depth and src.startswith("-/", i):
            depth -= 1
            i += 2
        elif depth:
            i += 1
        elif src.startswith("--", i):
            j = src.find("\n", i)
            i = n if j < 0 else j
        else:
            out.append(src[i])
            i += 1
    return "".join(out)


def lean_import_closure(module: str) -> list[Path]:
    """local .lean files (Model/Proofs/Props) reachable from `module`"""
    seen, todo, files = set(), [module], []
    while todo:
        m = todo.pop()
        if m in seen:
            continue
        seen.add(m)
        p = LEAN_DIR / (m.replace(".", "/") + ".lean")
        if not p.exists():
            continue
        files.append(p)
        for line in p.read_text().splitlines():
            mm = re.match(r"\s*import\s+([\w.]+)", line)
            if mm and mm.group(1).split(".")[0] in ("Model", "Proofs", "Props", "Gen"):
                todo.append(mm.group(1))
    return files


class Driver:
    """the compiled Lean model behind the line protocol"""

    def __init__(self):
        self.exe = LEAN_DIR / ".lake" / "build" / "bin" / "driver"

    def run(self, lines: list[str]) -> list[str]:
        if not lines:
            return []
        for _ in range(30):                      # another lake process may be relinking it right now
            if self.exe.exists():
                break
            time.sleep(1)
        else:
            raise InfraError("driver executable missing (setup_cmd not run?)")
        for ln in lines:
            if "\n" in ln:
                raise InfraError("newline inside a driver op")
        p = subprocess.run(
            [str(self.exe)], input="\n".join(lines) + "\n", capture_output=True, text=True, timeout=600
        )
        if p.returncode != 0:
            raise InfraError(f"driver exited {p.returncode}: {p.stderr[-400:]}")
        out = p.stdout.split("\n")
        if out and out[-1] == "":
            out.pop()
        if len(out) != len(lines):
            raise InfraError(f"driver answered {len(out)} lines for {len(lines)} ops")
        return out


def ddmin(items: list, fails) -> list:
    """delta debugging: a 1-minimal sublist of `items` on which `fails` is still true"""
    items = list(items)
    n = 2
    budget = 400
    while len(items) >= 2 and budget > 0:
        chunk = max(1, len(items) // n)
        reduced = False
        for i in range(0, len(items), chunk):
            cand = items[:i] + items[i + chunk:]
            budget -= 1
            try:
                bad = bool(cand) and fails(cand)
            except Exception:
                bad = False
            if bad:
                items, n, reduced = cand, max(n - 1, 2), True
                break
            if budget <= 0:
                break
        if not reduced:
            if chunk == 1:
                break
            n = min(len(items), n * 2)
    return items


def translation_gate(chk, translator, out_rel: str, build_targets: list[str], what: str) -> None:
    """Shared `pre_gate` of the source->Lean translators (C11 has its own, older copy of this logic).

    `translator` is a module with REL_SOURCE, Unsupported, translate(repo) -> (lean text, sha256 of the
    source), strip_sha(text), write_if_changed(text, path).  The generated file lean/<out_rel> is rewritten
    from the source text of the tree under test, then `build_targets` (the generated module, the module
    proving `generated = model`, the property module restating theorems over the generated definitions) are
    rebuilt.  A rejected source or a proof that stops checking is recorded as a gate problem naming the
    declaration; the correspondence and oracle suites then look for the failing input."""
    import hashlib
    out = LEAN_DIR / out_rel
    info = {"source": str(REPO / translator.REL_SOURCE), "generated": out_rel}
    chk.corr.setdefault("source_translation", {})[out_rel] = info
    msg = f"source translation of {translator.REL_SOURCE} ({what}) no longer matches the model: "
    try:
        text, sha = translator.translate(REPO)
    except translator.Unsupported as e:
        info["status"] = "translator-failed"
        chk.gate.setdefault("problems", []).append(
            msg + f"the translator rejects the source ({e}); the equalities generated = model are unchecked for this tree")
        return
    info["source_sha256"] = sha
    info["translation_sha256"] = hashlib.sha256(translator.strip_sha(text).encode()).hexdigest()
    info["rewritten"] = translator.write_if_changed(text, out)
    b = subprocess.run(["lake", "build", *build_targets], cwd=LEAN_DIR, capture_output=True, text=True)
    if b.returncode == 0:
        info["status"] = "equal-to-model"
        return
    log = b.stdout + b.stderr
    errs = [ln.strip() for ln in log.splitlines() if re.search(r"\berror\b", ln)]
    first = errs[0] if errs else (log.strip().splitlines()[-1] if log.strip() else "lake build failed")
    where = None
    m = re.search(r"((?:Proofs|Props|Gen)/[\w]+)\.lean:(\d+):", first)
    if m:
        f = LEAN_DIR / (m.group(1) + ".lean")
        if f.exists():
            for i, ln in enumerate(f.read_text().splitlines(), 1):
                mm = re.match(r"\s*(?:theorem|def|lemma)\s+([\w.']+)", ln)
                if mm:
                    if i > int(m.group(2)):
                        break
                    where = mm.group(1)
    info["status"] = "differs-from-model"
    info["first_error"] = first[:400]
    info["broken_declaration"] = where
    chk.gate.setdefault("problems", []).append(msg + (f"{where} does not check any more: " if where else "") + first[:400])


class Check:
    def __init__(self, pid: str, tier: str, seed: int, props_module: str | None = None):
        self.pid, self.tier, self.seed = pid, tier, seed
        self.props_module = props_module or f"Props.{pid}"
        self.t0 = time.time()
        self.rng = random.Random((seed * 1000003) ^ int(hashlib.sha1(pid.encode()).hexdigest()[:8], 16))
        self.driver = Driver()
        self.evaluations = 0
        self.nontrivial: set[str] = set()
        self.samples: list = []
        self.dist: Counter = Counter()
        self.violations: list[dict] = []
        self.known_hits: list[str] = []
        self.notes: list[str] = []
        self.gate = {"obligations": 0, "discharged": 0, "problems": [], "theorems": []}
        self.rule = ""
        self.assumptions: list[str] = []
        self.trusted_extra: list[str] = []
        self.corr = {"suites": {}, "model_lines": 0}
        self._known = self._load_known()
        REPLAY_DIR.mkdir(parents=True, exist_ok=True)

    # ---------------------------------------------------------------- known findings
    def _load_known(self):
        if not KNOWN_FILE.exists():
            return {}
        data = json.loads(KNOWN_FILE.read_text())
        return {e["id"]: e for e in data.get("findings", []) if e.get("property") == self.pid}

    def finding(self, fid: str, detail: str, replay_obj) -> None:
        """the probe for a specific, previously analysed defect failed on the implementation"""
        e = self._known.get(fid)
        if e is not None and e.get("status") == "open":
            if fid not in self.known_hits:
                self.known_hits.append(fid)
                print(f"KNOWN-FINDING: property={self.pid} {fid}: {e.get('what', detail)}")
        else:
            self.violation(f"{fid}: {detail}", replay_obj)

    # ---------------------------------------------------------------- accounting
    def case(self, key, nontrivial: bool = True, sample=None, tags=()):
        self.evaluations += 1
        if nontrivial:
            h = hashlib.sha1(json.dumps(key, sort_keys=True, default=str).encode()).hexdigest()
            self.nontrivial.add(h)
        for t in tags:
            self.dist[t] += 1
        if sample is not None and len(self.samples) < 6:
            self.samples.append(sample)

    def suite(self, name: str, cases: int, diffs: int):
        s = self.corr["suites"].setdefault(name, {"cases": 0, "disagreements": 0})
        s["cases"] += cases
        s["disagreements"] += diffs

    # ---------------------------------------------------------------- violations
    def violation(self, what: str, replay_obj, no_input: bool = False) -> None:
        if len(self.violations) >= 5:
            self.violations.append({"what": what, "replay": None, "no_input": no_input})
            return
        name = f"{self.pid}_{self.tier}_{self.seed}_{len(self.violations)}.json"
        path = REPLAY_DIR / name
        path.write_text(json.dumps({"property": self.pid, "what": what, "seed": self.seed,
                                    "tier": self.tier, "no_failing_input_found": no_input,
                                    "replay": replay_obj}, indent=1, default=str))
        self.violations.append({"what": what, "replay": str(path), "no_input": no_input})
        tail = " no-failing-input-found" if no_input else ""
        print(f"VIOLATION property={self.pid} replay={path}{tail}")
        print(f"  -> {what}"[:600])

    # ---------------------------------------------------------------- Lean gate
    def lean_gate(self) -> bool:
        """build the property's theorems and the driver, audit axioms, scan sources"""
        mod = self.props_module
        src = LEAN_DIR / (mod.replace(".", "/") + ".lean")
        problems = []
        if not src.exists():
            raise InfraError(f"{src} missing")
        t = time.time()
        if self.tier == "thorough":
            # force re-elaboration of the property module
            for ext in ("olean", "ilean", "trace", "olean.hash", "ilean.hash"):
                f = LEAN_DIR / ".lake/build/lib/lean" / (mod.replace(".", "/") + "." + ext)
                if f.exists():
                    f.unlink()
        b = subprocess.run(["lake", "build", mod, "driver"], cwd=LEAN_DIR, capture_output=True, text=True)
        if b.returncode != 0:
            problems.append("lake build failed: " + (b.stdout + b.stderr)[-1500:])
        text = src.read_text()
        code = strip_lean_comments(text)
        names = re.findall(rf"^\s*theorem\s+({self.pid}_[\w']+)", code, re.M)
        spaces = re.findall(r"^\s*namespace\s+([\w.]+)", code, re.M)
        self.gate["theorems"] = names
        self.gate["obligations"] = len(names)
        discharged = 0
        axioms_seen = set()
        if b.returncode == 0 and names:
            audit = LEAN_DIR / "Audit" / f"{self.pid}_audit.lean"
            audit.parent.mkdir(exist_ok=True)
            body = [f"import {mod}"] + [f"open {s}" for s in dict.fromkeys(spaces)]
            body += [f"#print axioms {n}" for n in names]
            audit.write_text("\n".join(body) + "\n")
            a = subprocess.run(["lake", "env", "lean", str(audit)], cwd=LEAN_DIR, capture_output=True, text=True)
            out = a.stdout + a.stderr
            if a.returncode != 0:
                problems.append("axiom audit failed: " + out[-1500:])
            # one record per theorem
            recs = re.findall(r"'([\w.']+)' (depends on axioms: \[([^\]]*)\]|does not depend on any axioms)", out)
            got = {}
            for full, _, axs in recs:
                short = full.split(".")[-1]
                got[short] = {x.strip() for x in axs.replace("\n", " ").split(",") if x.strip()}
            for n in names:
                if n not in got:
                    problems.append(f"no axiom report for {n}")
                    continue
                axioms_seen |= got[n]
                bad = got[n] - ALLOWED_AXIOMS
                if bad:
                    problems.append(f"{n} depends on non-standard axioms {sorted(bad)}")
                else:
                    discharged += 1
        # source scan over the import closure + the models the driver is built from
        files = set(lean_import_closure(mod)) | set((LEAN_DIR / "Model").glob("*.lean")) | {LEAN_DIR / "Driver.lean"}
        for f in sorted(files):
            hit = FORBIDDEN.search(strip_lean_comments(f.read_text()))
            if hit:
                problems.append(f"forbidden token {hit.group(0)!r} in {f.relative_to(LEAN_DIR)}")
        if self.tier == "thorough" and b.returncode == 0:
            c = subprocess.run(["lake", "env", "leanchecker", mod], cwd=LEAN_DIR, capture_output=True, text=True)
            if c.returncode != 0:
                problems.append("leanchecker rejected: " + (c.stdout + c.stderr)[-800:])
            self.gate["leanchecker"] = c.returncode == 0
        problems = list(self.gate.get("problems") or []) + problems      # keep what pre_gate recorded
        self.gate["discharged"] = discharged if not [p for p in problems if "forbidden" in p or "build failed" in p] else 0
        self.gate["axioms"] = sorted(axioms_seen)
        self.gate["problems"] = problems
        self.gate["wall_s"] = round(time.time() - t, 2)
        return not problems

    # ---------------------------------------------------------------- finish
    def finish(self) -> int:
        gate_ok = not self.gate["problems"] and self.gate["obligations"] > 0 \
            and self.gate["discharged"] == self.gate["obligations"]
        if not gate_ok and not self.violations:
            # a proof obligation no longer checks and no failing input was found
            self.violation("Lean gate: " + "; ".join(self.gate["problems"] or ["no theorems found"]),
                           {"theorems": self.gate["theorems"], "problems": self.gate["problems"]},
                           no_input=True)
        checker = f"cd lean && lake build {self.props_module} driver && lake env lean Audit/{self.pid}_audit.lean"
        if self.tier == "thorough":
            checker += f" && lake env leanchecker {self.props_module}"
        cov = {
            "obligations": self.gate["obligations"],
            "discharged": self.gate["discharged"],
            "checker_cmd": checker,
            "trusted_base": [
                "Lean 4.33 kernel" + (" + leanchecker re-check" if self.tier == "thorough" else ""),
                "axioms used by the property theorems: " + (", ".join(self.gate.get("axioms", [])) or "none"),
                "hand-written model in lean/Model (tied to /repo by the correspondence run below, not by translation)",
                "harness/*.py generators, canonicalisers and the driver's parser",
                "Python/torch/numpy semantics; float arithmetic bridged by dyadic inputs or stated tolerances",
            ] + self.trusted_extra,
            "theorems": self.gate["theorems"],
            "evaluations": self.evaluations,
            "distinct_nontrivial": len(self.nontrivial),
            "rule": self.rule,
            "samples": self.samples[:6] or ["(no case generated)"],
            "traces_validated_against_impl": sum(s["cases"] for s in self.corr["suites"].values()),
            "correspondence": self.corr,
            "distribution": dict(self.dist),
            "known_findings_hit": self.known_hits,
            "gate": {k: v for k, v in self.gate.items() if k not in ("theorems",)},
            "notes": self.notes,
        }
        ev = {
            "property_id": self.pid,
            "tier": self.tier,
            "seed": self.seed,
            "level": "proof",
            "coverage": cov,
            "assumptions": self.assumptions,
            "wall_s": round(time.time() - self.t0, 2),
            "violations": len(self.violations),
        }
        EVIDENCE_DIR.mkdir(exist_ok=True)
        (EVIDENCE_DIR / f"{self.pid}.json").write_text(json.dumps(ev, indent=1, default=str))
        print(f"[{self.pid}] tier={self.tier} seed={self.seed} theorems={self.gate['discharged']}/"
              f"{self.gate['obligations']} cases={self.evaluations} distinct={len(self.nontrivial)} "
              f"violations={len(self.violations)} known={len(self.known_hits)} "
              f"wall={ev['wall_s']}s")
        return 1 if self.violations else 0
