"""
Scripted, fully deterministic PettingZoo `ParallelEnv`s for the process-level checks (C12).

Every number an environment hands out encodes where it comes from, so the provenance of every
element of every returned array is visible:

* observation chunk of (env e, episode p, step t, agent a, key k, salt z) with flat size n:
      flat[j] = ([e, p, t, a, k, z][j % 6] + j // 6) % 100        (row-major, then reshaped)
  (values stay below 100, so they are exact in int8 … float64);
* reward  = action_code + 100*t + 10000*a + 100000*e   (python float, exact);
* info    = {"prov": int64[e, p, t, a], "acode": float}  after a step,
            {"prov": int64[e, p, 0, a], "seed": int}     after a reset (seed −1 = "no seed given");
* action_code = n for a Discrete action n, Σ_j (j+1)·x_j for a Box action x (send dyadic x).

Parameters are plain python data (`cfg` dict) so that `functools.partial(ScriptedParallelEnv, cfg)`
is picklable for worker subprocesses under every multiprocessing start method.

cfg = {
  "env_id": int,
  "agents": ["agent_0", ...],
  "lens":   [L1, L2, ...]      episode p (1-based) lasts lens[(p-1) % len] steps,
  "kinds":  ["term"|"trunc"|"mixed"|"both", ...]   how episode p ends (cycled like lens);
            mixed = even-indexed agents terminated, odd-indexed truncated,
  "leave":  [k_a ...]          agent a leaves at step k_a (flagged done there, absent from every
                               dict afterwards) when 0 < k_a < episode length; 0 = stays,
  "leaves": [[k_a ...], ...]   optional: per-episode leave vectors, cycled by episode like lens (episode p uses
                               leaves[(p-1) % len]) — the ORDER in which the agents finish differs between
                               episodes; absent / empty = "leave" applies to every episode,
  "agents_attr": "prune" | "fixed" | "keep-last"
                               what the environment does with its `agents` attribute (the flags in the returned
                               dicts are the same under all three): "prune" (default) = only the agents that are
                               not done, so the list is empty when the episode is over; "fixed" = the full team
                               from reset() to reset(), the end of an episode is signalled through the
                               termination / truncation flags only; "keep-last" = early leavers are removed, the
                               agents finishing on the last step stay listed until reset(),
  "obs":    [ {"kind": "vector"|"image"|"dict"|"tuple", "parts": [[key, shape, dtype], ...]} per agent ],
  "act":    [0 | k | -1 ...]   per agent: 0 = Discrete(5), k > 0 = Box(-1, 1, (k,), float32),
                               -1 = Box(-1, 1, (), float32) (a scalar continuous action),
  "rev_dicts": bool            build the truncation / reward dicts in reversed agent order
                               (dict order is not part of the PettingZoo API),
  "layout":  "c" | "transposed" | "moveaxis" | "fortran" | "strided" | "negstride"
                               memory layout of every observation array handed out: same shape, dtype and
                               values, but a non-C-contiguous VIEW (what `frame.transpose(2, 0, 1)`, `.T`,
                               `x[..., ::2]`, `x[::-1]` produce in real environments),
  "delay_ms": float            the environment sleeps that long in every step() (so that the completion
                               order of the worker processes can be scripted),
}
"""
from __future__ import annotations

import time

import numpy as np
from gymnasium import spaces
from pettingzoo import ParallelEnv

KINDS = ("term", "trunc", "mixed", "both")
AGENTS_ATTR = ("prune", "fixed", "keep-last")
N_DISCRETE = 5


def chunk_values(e: int, p: int, t: int, a: int, k: int, z: int, n: int) -> list[int]:
    base = (e, p, t, a, k, z)
    return [(base[j % 6] + j // 6) % 100 for j in range(n)]


def decode_chunk(flat) -> tuple | None:
    """inverse of `chunk_values`: the provenance tuple (e, p, t, a, k, z) or None if the pattern is broken.
    Needs n >= 6 to be fully determined; shorter chunks return the known prefix padded with -1."""
    vals = [int(v) for v in flat]
    if any(float(v) != int(v) for v in flat):
        return None
    n = len(vals)
    base = [vals[j] if j < n else -1 for j in range(6)]
    for j in range(n):
        if vals[j] != (base[j % 6] + j // 6) % 100:
            return None
    return tuple(base)


LAYOUTS = ("c", "transposed", "moveaxis", "fortran", "strided", "negstride")


def lay_out(arr: np.ndarray, layout: str) -> np.ndarray:
    """the same array (shape, dtype, values) as a view with another memory layout"""
    if layout in (None, "c") or arr.ndim == 0:
        return arr
    if layout == "transposed":                       # Fortran-ordered view, like `x.T` of a C array
        out = np.ascontiguousarray(arr.T).T
    elif layout == "moveaxis":                       # channels moved to the front of an HWC frame
        out = arr if arr.ndim < 2 else np.moveaxis(np.ascontiguousarray(np.moveaxis(arr, 0, -1)), -1, 0)
    elif layout == "fortran":
        out = np.asfortranarray(arr)
    elif layout == "strided":                        # every second element of a wider buffer
        buf = np.zeros(arr.shape[:-1] + (2 * arr.shape[-1],), dtype=arr.dtype)
        buf[..., ::2] = arr
        out = buf[..., ::2]
    elif layout == "negstride":                      # negative stride along the first axis
        out = np.ascontiguousarray(arr[::-1])[::-1]
    else:
        raise ValueError(layout)
    assert out.shape == arr.shape and out.dtype == arr.dtype and np.array_equal(out, arr)
    return out


def flag_pair(kind: str, a: int) -> tuple[bool, bool]:
    if kind == "term":
        return True, False
    if kind == "trunc":
        return False, True
    if kind == "both":
        return True, True
    if kind == "mixed":
        return (True, False) if a % 2 == 0 else (False, True)
    raise ValueError(kind)


def action_code(action) -> float:
    x = np.asarray(action, dtype=np.float64).reshape(-1)
    if x.size == 1:
        return float(x[0])
    return float(sum((j + 1) * float(v) for j, v in enumerate(x)))


def part_space(shape, dtype) -> spaces.Box:
    dt = np.dtype(dtype)
    lo = 0 if dt.kind == "u" else -1
    return spaces.Box(low=lo, high=100, shape=tuple(shape), dtype=dt.type)


def agent_space(spec) -> spaces.Space:
    kind, parts = spec["kind"], spec["parts"]
    if kind in ("vector", "image"):
        _, shape, dtype = parts[0]
        return part_space(shape, dtype)
    if kind == "dict":
        return spaces.Dict({key: part_space(shape, dtype) for key, shape, dtype in parts})
    if kind == "tuple":
        return spaces.Tuple(tuple(part_space(shape, dtype) for _, shape, dtype in parts))
    raise ValueError(kind)


class ScriptedParallelEnv(ParallelEnv):
    metadata = {"render_modes": [], "name": "scripted_v0"}

    def __init__(self, cfg: dict, render_mode=None):
        self.cfg = cfg
        self.env_id = int(cfg["env_id"])
        self.possible_agents = list(cfg["agents"])
        self.agents = []
        self.render_mode = render_mode
        self.lens = [max(1, int(x)) for x in cfg["lens"]]
        self.kinds = list(cfg["kinds"])
        self.leave = [int(x) for x in cfg.get("leave", [0] * len(self.possible_agents))]
        self.leaves = [[int(x) for x in v] for v in (cfg.get("leaves") or [])]
        self.agents_attr = cfg.get("agents_attr", "prune")
        if self.agents_attr not in AGENTS_ATTR:
            raise ValueError(self.agents_attr)
        self.rev = bool(cfg.get("rev_dicts", False))
        self.layout = cfg.get("layout", "c")
        self.delay = float(cfg.get("delay_ms", 0) or 0) / 1000.0
        self._obs_spaces = {ag: agent_space(s) for ag, s in zip(self.possible_agents, cfg["obs"])}
        self._act_spaces = {
            ag: (spaces.Discrete(N_DISCRETE) if k == 0
                 else spaces.Box(-1.0, 1.0, (int(k),) if k > 0 else (), np.float32))
            for ag, k in zip(self.possible_agents, cfg["act"])
        }
        self.episode = 0
        self.t = 0
        self.salt = 0
        self.log = []          # (episode, step, {agent: action code}) — what this env really received

    # ------------------------------------------------------------------ spaces
    def observation_space(self, agent):
        return self._obs_spaces[agent]

    def action_space(self, agent):
        return self._act_spaces[agent]

    # ------------------------------------------------------------------ script
    def ep_len(self) -> int:
        return self.lens[(self.episode - 1) % len(self.lens)]

    def ep_kind(self) -> str:
        return self.kinds[(self.episode - 1) % len(self.kinds)]

    def leave_of(self, a: int) -> int:
        """the step at which agent a leaves the current episode (0 = stays)"""
        if not self.leaves:
            return self.leave[a]
        v = self.leaves[(self.episode - 1) % len(self.leaves)]
        return v[a] if a < len(v) else 0

    def present(self, a: int, t: int) -> bool:
        k = self.leave_of(a)
        return not (0 < k < self.ep_len() and t > k)

    def make_obs(self, a: int):
        spec = self.cfg["obs"][a]
        arrs = []
        for k, (_, shape, dtype) in enumerate(spec["parts"]):
            n = int(np.prod(shape)) if len(shape) else 1
            vals = chunk_values(self.env_id, self.episode, self.t, a, k, self.salt, n)
            arrs.append(lay_out(np.array(vals, dtype=np.dtype(dtype)).reshape(tuple(shape)), self.layout))
        if spec["kind"] in ("vector", "image"):
            return arrs[0]
        if spec["kind"] == "dict":
            # member order deliberately differs from the space's order
            return {key: arr for (key, _, _), arr in reversed(list(zip(spec["parts"], arrs)))}
        return tuple(arrs)

    def prov(self, a: int):
        return np.array([self.env_id, self.episode, self.t, a], dtype=np.int64)

    # ------------------------------------------------------------------ API
    def reset(self, seed=None, options=None):
        if seed is not None:
            self.salt = int(seed) % 50
        self.episode += 1
        self.t = 0
        self.agents = list(self.possible_agents)
        obs = {ag: self.make_obs(a) for a, ag in enumerate(self.possible_agents)}
        infos = {ag: {"prov": self.prov(a), "seed": int(seed) if seed is not None else -1}
                 for a, ag in enumerate(self.possible_agents)}
        return obs, infos

    def step(self, actions):
        if self.delay:
            time.sleep(self.delay)
        self.t += 1
        t, L, kind = self.t, self.ep_len(), self.ep_kind()
        order = [(a, ag) for a, ag in enumerate(self.possible_agents) if self.present(a, t)]
        obs, rew, term, trunc, info, codes = {}, {}, {}, {}, {}, {}
        for a, ag in order:
            code = action_code(actions[ag])
            codes[ag] = code
            obs[ag] = self.make_obs(a)
            info[ag] = {"prov": self.prov(a), "acode": code}
        for a, ag in (reversed(order) if self.rev else order):
            rew[ag] = codes[ag] + 100.0 * t + 10000.0 * a + 100000.0 * self.env_id
            leaving = 0 < self.leave_of(a) < L and t == self.leave_of(a)
            tr = flag_pair(kind, a) if (t >= L or leaving) else (False, False)
            trunc[ag] = tr[1]
        for a, ag in order:
            leaving = 0 < self.leave_of(a) < L and t == self.leave_of(a)
            term[ag] = flag_pair(kind, a)[0] if (t >= L or leaving) else False
        self.log.append((self.episode, t, dict(codes)))
        if self.agents_attr == "prune":
            self.agents = [ag for a, ag in order if not (term[ag] or trunc[ag])]
        elif self.agents_attr == "keep-last":
            self.agents = [ag for a, ag in order if t >= L or not (term[ag] or trunc[ag])]
        # "fixed": the team listed by reset() stays listed until the next reset()
        return obs, rew, term, trunc, info

    def get_log(self):
        return list(self.log)

    def render(self):
        return None

    def close(self):
        pass


def make_env(cfg: dict) -> ScriptedParallelEnv:
    """top-level factory (picklable through functools.partial)"""
    return ScriptedParallelEnv(cfg)
