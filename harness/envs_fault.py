"""
Scripted fault-injecting PettingZoo ParallelEnv for C13 (top-level, picklable).

`FaultEnv(index, faults)`: `faults` is a list of (command, k, kind, arg) — at the k-th
(0-based) occurrence of `command` in {"reset", "step", "call", "set_attr"} inside THIS
sub-environment do `kind`:
  "raise"  raise the exception class named `arg` (see EXC)
  "sleep"  sleep `arg` seconds (longer than every timeout used by the harness), then go on
  "kill"   os.kill(os.getpid(), SIGKILL) — the worker process dies without any reply
Only the sub-environment whose `index` matches a fault's worker gets that fault (the factory
`make_fn` filters).  Episodes never end, so the worker never auto-resets (an auto-reset would be
an extra, uncounted `reset`).
"""
from __future__ import annotations

import os
import signal
import time

import numpy as np
from gymnasium import spaces
from pettingzoo import ParallelEnv


class CustomFault(Exception):
    """a user-defined exception type (not a builtin) that must survive the trip to the caller"""


EXC = {"ValueError": ValueError, "IndexError": IndexError, "RuntimeError": RuntimeError,
       "ZeroDivisionError": ZeroDivisionError, "CustomFault": CustomFault}


class FaultEnv(ParallelEnv):
    metadata = {"name": "fault_env_v0", "render_modes": []}
    render_mode = None

    def __init__(self, index: int = 0, faults=()):
        self.index = index
        self.faults = [tuple(f) for f in faults]
        self.possible_agents = ["a0", "a1"]
        self.agents = self.possible_agents[:]
        self.counts = {"reset": 0, "step": 0, "call": 0, "set_attr": 0}
        self._armed = True
        object.__setattr__(self, "_ready", True)

    # ---- fault machinery
    def _hit(self, command: str) -> None:
        k = self.counts[command]
        self.counts[command] = k + 1
        for (cmd, at, kind, arg) in self.faults:
            if cmd == command and at == k:
                if kind == "raise":
                    raise EXC[arg](f"scripted fault in env {self.index} at {command}#{k}")
                if kind == "sleep":
                    time.sleep(float(arg))
                elif kind == "kill":
                    os.kill(os.getpid(), signal.SIGKILL)
                    time.sleep(60)

    def __setattr__(self, name, value):
        # `set_attr("knob", v)` of the vector env arrives here as setattr(env, "knob", v)
        if name == "knob" and self.__dict__.get("_ready"):
            self._hit("set_attr")
        object.__setattr__(self, name, value)

    # ---- ParallelEnv API
    def observation_space(self, agent):
        return spaces.Box(-1e6, 1e6, (2,), np.float32)

    def action_space(self, agent):
        return spaces.Discrete(2)

    def _obs(self):
        v = np.array([self.index, self.counts["step"]], dtype=np.float32)
        return {a: v.copy() for a in self.possible_agents}

    def reset(self, seed=None, options=None):
        self._hit("reset")
        self.agents = self.possible_agents[:]
        return self._obs(), {a: {} for a in self.possible_agents}

    def step(self, actions):
        self._hit("step")
        z = {a: False for a in self.possible_agents}
        return (self._obs(), {a: 1.0 for a in self.possible_agents}, dict(z), dict(z),
                {a: {} for a in self.possible_agents})

    def probe(self):
        """target of `call_async("probe")`"""
        self._hit("call")
        return self.index

    def close(self):
        pass


class EnvFn:
    """picklable factory: env `index` gets only the faults scripted for worker `index`"""

    def __init__(self, index: int, script):
        self.index = index
        self.faults = [(cmd, at, kind, arg) for (w, cmd, at, kind, arg) in script if w == index]

    def __call__(self):
        return FaultEnv(self.index, self.faults)


def make_fns(num_envs: int, script):
    return [EnvFn(i, script) for i in range(num_envs)]
