"""
Scripted fault-injecting PettingZoo ParallelEnv for C13 (top-level, picklable).

`FaultEnv(index, faults)`: `faults` is a list of (command, k, kind, arg) — at the k-th
(0-based) occurrence of `command` in {"reset", "step", "call", "set_attr"} inside THIS
sub-environment do `kind`:
  "raise"  raise the exception class named `arg` (see EXC)
  "sleep"  sleep `arg` seconds (longer than every timeout used by the harness), then go on
  "stuck"  sleep for an hour: the sub-environment never comes back within any test
  "kill"   os.kill(os.getpid(), SIGKILL) — the worker process dies without any reply
  "busykill"  stay busy for `arg` seconds (longer than every short timeout), then die without any reply:
           the death happens while the parent is doing something else (e.g. waiting for the `close`
           acknowledgement with the `close` command still unread in the dead worker's socket)
`command` may also be "close": the fault fires inside the sub-environment's OWN `close()`, which the
worker runs when it leaves its loop — after it reported an exception, or after it acknowledged the
parent's `close` command (the worker is then outside the request / reply protocol but still a process).
Only the sub-environment whose `index` matches a fault's worker gets that fault (the factory
`make_fn` filters).  Episodes never end, so the worker never auto-resets (an auto-reset would be
an extra, uncounted `reset`).

Provenance: every observation is `[index, steps so far]`, every reward is `steps so far`, and the
remote targets (`probe()`, the property `gauge`, `render()`) return `(index, calls so far)`, so a
result that belongs to another call (stale, off by one) is visible in its value.
"""
from __future__ import annotations

import os
import signal
import threading
import time

import numpy as np
from gymnasium import spaces
from pettingzoo import ParallelEnv


class CustomFault(Exception):
    """a user-defined exception type (not a builtin) that must survive the trip to the caller"""


class TwoArgsFault(Exception):
    """constructor does not accept the single positional argument `exctype(value)` passes"""

    def __init__(self, code, msg):
        super().__init__(f"{code}: {msg}")
        self.code = code


class KwOnlyFault(Exception):
    def __init__(self, *, msg):
        super().__init__(msg)


class UnpicklableFault(Exception):
    """carries something that cannot be pickled (a lambda)"""

    def __init__(self, msg):
        super().__init__(msg, lambda: 0)


# ---- exception CLASSES that cannot be pickled by reference (pickle stores module + qualified name)
def _closure_class():
    class LocalClassFault(Exception):
        """defined inside a function: `envs_fault._closure_class.<locals>.LocalClassFault` is not importable"""
    return LocalClassFault


def _dynamic_class():
    # created with type(): its qualified name does not resolve to an attribute of this module
    return type("DynamicTypeFault", (Exception,), {"__doc__": "class object made at run time"})


class ShadowedClassFault(Exception):
    """the importable class of this name — NOT the one that is raised (see `_shadowed_class`)"""


def _shadowed_class():
    # same module and qualified name as the importable class above, but another object:
    # pickle refuses ("not the same object as envs_fault.ShadowedClassFault")
    return type("ShadowedClassFault", (Exception,), {"__module__": __name__, "__qualname__": "ShadowedClassFault"})


# ---- importable classes whose INSTANCES do not survive pickling
class UnpicklableStateFault(Exception):
    """picklable arguments, but the instance dictionary holds a lock"""

    def __init__(self, msg):
        super().__init__(msg)
        self.guard = threading.Lock()


class ReduceRaisesFault(Exception):
    """pickling the instance itself raises"""

    def __reduce__(self):
        raise RuntimeError("this exception refuses to be pickled")


class LoadFailsFault(Exception):
    """pickles, but cannot be rebuilt on the other side (its reduce recipe is wrong)"""

    def __reduce__(self):
        return (LoadFailsFault, ())

    def __init__(self, msg):
        super().__init__(msg)


EXC = {"ValueError": ValueError, "IndexError": IndexError, "RuntimeError": RuntimeError,
       "ZeroDivisionError": ZeroDivisionError, "CustomFault": CustomFault,
       "KeyboardInterrupt": KeyboardInterrupt, "FileNotFoundError": FileNotFoundError,
       "TwoArgsFault": lambda m: TwoArgsFault(7, m), "KwOnlyFault": lambda m: KwOnlyFault(msg=m),
       "UnpicklableFault": UnpicklableFault,
       "LocalClassFault": lambda m: _closure_class()(m), "DynamicTypeFault": lambda m: _dynamic_class()(m),
       "ShadowedClassFault": lambda m: _shadowed_class()(m), "UnpicklableStateFault": UnpicklableStateFault,
       "ReduceRaisesFault": ReduceRaisesFault, "LoadFailsFault": LoadFailsFault}
STUCK_S = 3600.0


class FaultEnv(ParallelEnv):
    metadata = {"name": "fault_env_v0", "render_modes": []}
    render_mode = None

    def __init__(self, index: int = 0, faults=(), home_pid: int = -1):
        self.index = index
        self.home_pid = home_pid     # the process that built the vector env: its probing instance has no faults
        self.faults = [tuple(f) for f in faults]
        self.possible_agents = ["a0", "a1"]
        self.agents = self.possible_agents[:]
        self.counts = {"reset": 0, "step": 0, "call": 0, "set_attr": 0, "close": 0}
        self._armed = True
        object.__setattr__(self, "_ready", True)

    # ---- fault machinery
    def _hit(self, command: str) -> None:
        k = self.counts[command]
        self.counts[command] = k + 1
        for (cmd, at, kind, arg) in self.faults:
            if cmd == command and at == k:
                if kind == "raise":
                    raise EXC[arg](f"scripted fault in env {self.index} at {command}#{k}")
                if kind == "sleep":
                    time.sleep(float(arg))
                elif kind == "stuck":
                    time.sleep(STUCK_S)
                elif kind == "kill":
                    os.kill(os.getpid(), signal.SIGKILL)
                    time.sleep(60)
                elif kind == "busykill":
                    time.sleep(float(arg))
                    os.kill(os.getpid(), signal.SIGKILL)
                    time.sleep(60)

    def __setattr__(self, name, value):
        # `set_attr("knob", v)` of the vector env arrives here as setattr(env, "knob", v)
        if name == "knob" and self.__dict__.get("_ready"):
            self._hit("set_attr")
        object.__setattr__(self, name, value)

    # ---- ParallelEnv API
    def observation_space(self, agent):
        return spaces.Box(-1e6, 1e6, (2,), np.float32)

    def action_space(self, agent):
        return spaces.Discrete(2)

    def _obs(self):
        v = np.array([self.index, self.counts["step"]], dtype=np.float32)
        return {a: v.copy() for a in self.possible_agents}

    def reset(self, seed=None, options=None):
        self._hit("reset")
        self.agents = self.possible_agents[:]
        return self._obs(), {a: {} for a in self.possible_agents}

    def step(self, actions):
        self._hit("step")
        z = {a: False for a in self.possible_agents}
        return (self._obs(), {a: float(self.counts["step"]) for a in self.possible_agents}, dict(z), dict(z),
                {a: {} for a in self.possible_agents})

    def probe(self):
        """target of `call_async("probe")` / `call("probe")`"""
        self._hit("call")
        return (self.index, self.counts["call"])

    @property
    def gauge(self):
        """target of `get_attr("gauge")`: a non-callable attribute whose evaluation is a `call`"""
        self._hit("call")
        return (self.index, self.counts["call"])

    def render(self):
        """target of `render()`"""
        self._hit("call")
        return (self.index, self.counts["call"])

    def close(self):
        """the sub-environment's own clean-up: the worker calls it when it leaves its loop
        (the vector env's constructor also builds and closes a throw-away instance in the PARENT to read the
        spaces: that one is not a sub-environment and never faults)"""
        if os.getpid() != self.home_pid:
            self._hit("close")


class EnvFn:
    """picklable factory: env `index` gets only the faults scripted for worker `index`"""

    def __init__(self, index: int, script):
        self.index = index
        self.faults = [(cmd, at, kind, arg) for (w, cmd, at, kind, arg) in script if w == index]
        self.home_pid = os.getpid()

    def __call__(self):
        return FaultEnv(self.index, self.faults, self.home_pid)


def make_fns(num_envs: int, script):
    return [EnvFn(i, script) for i in range(num_envs)]
