"""
Scripted fault-injecting PettingZoo ParallelEnv for C13 (top-level, picklable).

`FaultEnv(index, faults)`: `faults` is a list of (command, k, kind, arg) — at the k-th
(0-based) occurrence of `command` in {"reset", "step", "call", "set_attr"} inside THIS
sub-environment do `kind`:
  "raise"  raise the exception class named `arg` (see EXC)
  "sleep"  sleep `arg` seconds (longer than every timeout used by the harness), then go on
  "stuck"  sleep for an hour: the sub-environment never comes back within any test
  "kill"   os.kill(os.getpid(), SIGKILL) — the worker process dies without any reply
Only the sub-environment whose `index` matches a fault's worker gets that fault (the factory
`make_fn` filters).  Episodes never end, so the worker never auto-resets (an auto-reset would be
an extra, uncounted `reset`).

Provenance: every observation is `[index, steps so far]`, every reward is `steps so far`, and the
remote targets (`probe()`, the property `gauge`, `render()`) return `(index, calls so far)`, so a
result that belongs to another call (stale, off by one) is visible in its value.
"""
from __future__ import annotations

import os
import signal
import time

import numpy as np
from gymnasium import spaces
from pettingzoo import ParallelEnv


class CustomFault(Exception):
    """a user-defined exception type (not a builtin) that must survive the trip to the caller"""


class TwoArgsFault(Exception):
    """constructor does not accept the single positional argument `exctype(value)` passes"""

    def __init__(self, code, msg):
        super().__init__(f"{code}: {msg}")
        self.code = code


class KwOnlyFault(Exception):
    def __init__(self, *, msg):
        super().__init__(msg)


class UnpicklableFault(Exception):
    """carries something that cannot be pickled (a lambda)"""

    def __init__(self, msg):
        super().__init__(msg, lambda: 0)


EXC = {"ValueError": ValueError, "IndexError": IndexError, "RuntimeError": RuntimeError,
       "ZeroDivisionError": ZeroDivisionError, "CustomFault": CustomFault,
       "KeyboardInterrupt": KeyboardInterrupt, "FileNotFoundError": FileNotFoundError,
       "TwoArgsFault": lambda m: TwoArgsFault(7, m), "KwOnlyFault": lambda m: KwOnlyFault(msg=m),
       "UnpicklableFault": UnpicklableFault}
STUCK_S = 3600.0


class FaultEnv(ParallelEnv):
    metadata = {"name": "fault_env_v0", "render_modes": []}
    render_mode = None

    def __init__(self, index: int = 0, faults=()):
        self.index = index
        self.faults = [tuple(f) for f in faults]
        self.possible_agents = ["a0", "a1"]
        self.agents = self.possible_agents[:]
        self.counts = {"reset": 0, "step": 0, "call": 0, "set_attr": 0}
        self._armed = True
        object.__setattr__(self, "_ready", True)

    # ---- fault machinery
    def _hit(self, command: str) -> None:
        k = self.counts[command]
        self.counts[command] = k + 1
        for (cmd, at, kind, arg) in self.faults:
            if cmd == command and at == k:
                if kind == "raise":
                    raise EXC[arg](f"scripted fault in env {self.index} at {command}#{k}")
                if kind == "sleep":
                    time.sleep(float(arg))
                elif kind == "stuck":
                    time.sleep(STUCK_S)
                elif kind == "kill":
                    os.kill(os.getpid(), signal.SIGKILL)
                    time.sleep(60)

    def __setattr__(self, name, value):
        # `set_attr("knob", v)` of the vector env arrives here as setattr(env, "knob", v)
        if name == "knob" and self.__dict__.get("_ready"):
            self._hit("set_attr")
        object.__setattr__(self, name, value)

    # ---- ParallelEnv API
    def observation_space(self, agent):
        return spaces.Box(-1e6, 1e6, (2,), np.float32)

    def action_space(self, agent):
        return spaces.Discrete(2)

    def _obs(self):
        v = np.array([self.index, self.counts["step"]], dtype=np.float32)
        return {a: v.copy() for a in self.possible_agents}

    def reset(self, seed=None, options=None):
        self._hit("reset")
        self.agents = self.possible_agents[:]
        return self._obs(), {a: {} for a in self.possible_agents}

    def step(self, actions):
        self._hit("step")
        z = {a: False for a in self.possible_agents}
        return (self._obs(), {a: float(self.counts["step"]) for a in self.possible_agents}, dict(z), dict(z),
                {a: {} for a in self.possible_agents})

    def probe(self):
        """target of `call_async("probe")` / `call("probe")`"""
        self._hit("call")
        return (self.index, self.counts["call"])

    @property
    def gauge(self):
        """target of `get_attr("gauge")`: a non-callable attribute whose evaluation is a `call`"""
        self._hit("call")
        return (self.index, self.counts["call"])

    def render(self):
        """target of `render()`"""
        self._hit("call")
        return (self.index, self.counts["call"])

    def close(self):
        pass


class EnvFn:
    """picklable factory: env `index` gets only the faults scripted for worker `index`"""

    def __init__(self, index: int, script):
        self.index = index
        self.faults = [(cmd, at, kind, arg) for (w, cmd, at, kind, arg) in script if w == index]

    def __call__(self):
        return FaultEnv(self.index, self.faults)


def make_fns(num_envs: int, script):
    return [EnvFn(i, script) for i in range(num_envs)]
