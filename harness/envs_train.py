"""
Scripted, instrumented environments for the end-to-end training-loop check (C20).

Everything here is deterministic (no RNG): observation, reward and episode end are functions of
(env id, episode number, step number).  Every environment reports what is done to it to the module
level recorder ``REC`` (one per process): ``("reset", n)`` / ``("step", n)`` where ``n`` is the number
of sub-environment steps the call stands for (``num_envs`` for a vector env, 1 otherwise).  The harness
adds ``("act", agent)``, ``("learn", agent)``, ``("test", agent)`` … events of its own, so that every
environment step can be attributed to the agent that asked for it.

Classes are top-level and picklable.  Vectorisation is in-process (``gymnasium.vector.SyncVectorEnv``
for Gymnasium environments, ``ScriptedVecParallelEnv`` for PettingZoo-style ones, which reproduces the
interface and the batching conventions of ``agilerl.vector.AsyncPettingZooVecEnv``: dicts keyed by
agent id of arrays with leading dimension ``num_envs``, sub-environments reset automatically once every
agent is done).

Strictness: like the reference Gymnasium environments (e.g. CartPole) ``ScriptedEnv.step`` asserts
``action_space.contains(action)``; an environment that swallowed a batched action where a single one
is due would hide exactly the incompatibilities C20 is about.
"""
from __future__ import annotations

import functools
from typing import Any

import numpy as np

AGENT_IDS = ["agent_0", "agent_1", "other_0"]


# --------------------------------------------------------------------------------------- recorder
class Recorder:
    """per-process event log; the harness installs attribution hooks on top of it"""

    def __init__(self):
        self.reset()

    def reset(self):
        self.events: list[tuple] = []
        self.enabled = True

    def log(self, *ev):
        if self.enabled:
            self.events.append(tuple(ev))


REC = Recorder()


# --------------------------------------------------------------------------------------- spaces
def obs_space(family: str):
    from gymnasium import spaces

    if family == "vector":
        return spaces.Box(-1.0, 1.0, (4,), np.float32)
    if family == "image":
        return spaces.Box(0, 255, (3, 8, 8), np.uint8)
    if family == "dict":
        return spaces.Dict({"vec": spaces.Box(-1.0, 1.0, (3,), np.float32),
                            "img": spaces.Box(0.0, 1.0, (1, 6, 6), np.float32)})
    if family == "tuple":
        return spaces.Tuple((spaces.Box(0.0, 1.0, (1, 6, 6), np.float32),
                             spaces.Box(-1.0, 1.0, (3,), np.float32)))
    if family == "discrete":
        return spaces.Discrete(5)
    raise KeyError(family)


def act_space(kind: str, variant: int = 0):
    from gymnasium import spaces

    if kind == "discrete":
        return spaces.Discrete(3 if variant == 0 else 2)
    if kind == "multidiscrete":
        return spaces.MultiDiscrete([2, 3] if variant == 0 else [3, 2, 2])
    if kind == "multibinary":
        return spaces.MultiBinary(3 if variant == 0 else 2)
    if kind == "box":
        return spaces.Box(-1.0, 1.0, (2 if variant == 0 else 3,), np.float32)
    raise KeyError(kind)


def scripted_obs(space, k: int):
    """a member of `space` determined by the integer k (dyadic fractions of the range)"""
    from gymnasium import spaces

    if isinstance(space, spaces.Box):
        low = np.where(np.isfinite(space.low), space.low, -1.0).astype(np.float64)
        high = np.where(np.isfinite(space.high), space.high, 1.0).astype(np.float64)
        if np.issubdtype(space.dtype, np.integer):
            x = low + (k % 17) * np.ones(space.shape)
            return np.minimum(x, high).astype(space.dtype)
        frac = (k % 16) / 16.0
        return (low + frac * (high - low)).astype(space.dtype)
    if isinstance(space, spaces.Discrete):
        return np.int64(k % int(space.n))
    if isinstance(space, spaces.MultiDiscrete):
        return (k % np.asarray(space.nvec)).astype(np.int64)
    if isinstance(space, spaces.MultiBinary):
        return np.full((int(space.n),), k % 2, dtype=np.int8)
    if isinstance(space, spaces.Dict):
        return {key: scripted_obs(s, k + i) for i, (key, s) in enumerate(space.spaces.items())}
    if isinstance(space, spaces.Tuple):
        return tuple(scripted_obs(s, k + i) for i, s in enumerate(space.spaces))
    raise TypeError(type(space))


def scripted_reward(env_id: int, episode: int, t: int) -> float:
    return float((env_id + episode + 3 * t) % 5) / 4.0          # dyadic, in [0, 1]


# --------------------------------------------------------------------------------------- single agent
def _gym_env_base():
    import gymnasium as gym
    return gym.Env


class ScriptedEnv(_gym_env_base()):
    """Gymnasium environment with a fixed episode length; even episodes terminate, odd ones truncate"""

    metadata = {"render_modes": []}

    def __init__(self, family: str = "vector", action_kind: str = "discrete", ep_len: int = 7,
                 env_id: int = 0, strict: bool = True, record: bool = True):
        self.family, self.action_kind = family, action_kind
        self.observation_space = obs_space(family)
        self.action_space = act_space(action_kind)
        self.ep_len, self.env_id, self.strict, self.record = int(ep_len), int(env_id), strict, record
        self.episode, self.t, self.over = 0, 0, True
        self.n_steps = 0
        self.n_resets = 0
        self.steps_after_end = 0

    def _obs(self):
        return scripted_obs(self.observation_space, 31 * self.episode + 7 * self.t + 3 * self.env_id)

    def reset(self, *, seed=None, options=None):
        self.episode += 1
        self.t, self.over = 0, False
        self.n_resets += 1
        if self.record:
            REC.log("reset", 1)
        return self._obs(), {}

    def step(self, action):
        if self.strict:
            assert self.action_space.contains(action), \
                f"{action!r} ({type(action)}) invalid for {self.action_space}"
        if self.over:
            self.steps_after_end += 1
        self.t += 1
        self.n_steps += 1
        if self.record:
            REC.log("step", 1)
        end = self.t >= self.ep_len
        term = bool(end and self.episode % 2 == 0)
        trunc = bool(end and self.episode % 2 == 1)
        if end:
            self.over = True
        return self._obs(), scripted_reward(self.env_id, self.episode, self.t), term, trunc, {}


LONG = 10 ** 6      # an episode that does not end within any budget used here


def episode_lengths(ep_len, num_envs: int, mode: str = "stagger") -> list[int]:
    """per sub-environment episode lengths: where and when episodes end inside a vector environment
    stagger    : sub-env i ends after ep_len + i steps (index 0 first, everybody at a different time)
    reverse    : the highest index ends first
    last-only  : only the last sub-environment ever finishes an episode
    first-only : only sub-environment 0 ever finishes an episode
    middle-only: only sub-environment num_envs // 2 does"""
    if isinstance(ep_len, (list, tuple)):
        return [int(x) for x in ep_len]
    n = int(num_envs)
    if mode == "stagger":
        return [ep_len + i for i in range(n)]
    if mode == "reverse":
        return [ep_len + (n - 1 - i) for i in range(n)]
    if mode == "last-only":
        return [LONG] * (n - 1) + [ep_len]
    if mode == "first-only":
        return [ep_len] + [LONG] * (n - 1)
    if mode == "middle-only":
        return [ep_len if i == n // 2 else LONG for i in range(n)]
    raise KeyError(mode)


def _make_sub(family, action_kind, ep_len, env_id):
    # sub-environments of a vector env do not record: the vector env records num_envs per call
    return ScriptedEnv(family, action_kind, ep_len, env_id, strict=True, record=False)


def _sync_vector_base():
    from gymnasium.vector import SyncVectorEnv
    return SyncVectorEnv


class CountingSyncVectorEnv(_sync_vector_base()):
    """SyncVectorEnv that reports every reset/step to REC (a step stands for num_envs env steps)"""

    def __init__(self, family: str = "vector", action_kind: str = "discrete", num_envs: int = 2, ep_len=7,
                 mode: str = "stagger"):
        lens = episode_lengths(ep_len, num_envs, mode)
        fns = [functools.partial(_make_sub, family, action_kind, lens[i], i) for i in range(num_envs)]
        super().__init__(fns)
        self.episode_lengths = lens
        self.family, self.action_kind, self.ep_len = family, action_kind, ep_len
        self.n_vector_steps = 0

    def reset(self, *, seed=None, options=None):
        REC.log("reset", self.num_envs)
        return super().reset(seed=seed, options=options)

    def step(self, actions):
        self.n_vector_steps += 1
        REC.log("step", self.num_envs)
        return super().step(actions)


def make_single_env(family: str, action_kind: str, num_envs: int | None, ep_len: int = 7, mode: str = "stagger"):
    """num_envs=None -> a plain (non-vectorised) Gymnasium env; otherwise an in-process vector env"""
    if num_envs is None:
        return ScriptedEnv(family, action_kind, ep_len, 0)
    return CountingSyncVectorEnv(family, action_kind, num_envs, ep_len, mode)


# --------------------------------------------------------------------------------------- bandits
class ScriptedBanditEnv:
    """Same interface and conventions as agilerl.wrappers.learning.BanditEnv (`arms`, `context_dim`,
    reset() -> context, step(k) -> (next_context, reward)); the context matrix is float64 of shape
    (arms, context_dim) with the feature vector in block i of row i, exactly as BanditEnv builds it.
    The rewarded arm of context number c is c % arms."""

    def __init__(self, arms: int = 3, features: int = 2):
        self.arms, self.features = int(arms), int(features)
        self.context_dim = (self.features * self.arms,)
        self.c = 0
        self.prev_reward = np.zeros(self.arms)
        self.n_steps = 0

    def _context(self):
        self.c += 1
        feat = np.array([((self.c * (j + 3)) % 8) / 8.0 for j in range(self.features)])
        ctx = np.zeros((self.arms, *self.context_dim))
        for i in range(self.arms):
            ctx[i, i * self.features:(i + 1) * self.features] = feat
        target = self.c % self.arms
        return ctx, target

    def reset(self):
        REC.log("reset", 1)
        ctx, target = self._context()
        self.prev_reward = np.zeros(self.arms)
        self.prev_reward[target] = 1
        return ctx

    def step(self, k):
        k = int(k)
        assert 0 <= k < self.arms, f"arm {k!r} out of range"
        self.n_steps += 1
        REC.log("step", 1)
        reward = self.prev_reward[k]
        ctx, target = self._context()
        self.prev_reward = np.zeros(self.arms)
        self.prev_reward[target] = 1
        return ctx, reward


# --------------------------------------------------------------------------------------- multi agent
def _parallel_env_base():
    from pettingzoo import ParallelEnv
    return ParallelEnv


class ScriptedParallelEnv(_parallel_env_base()):
    """PettingZoo parallel environment; all agents finish together after `ep_len` steps
    (terminated on even episodes, truncated on odd ones)"""

    metadata = {"render_modes": [], "name": "scripted_parallel_v0"}

    def __init__(self, family: str = "vector", action_kind: str = "discrete", ep_len: int = 6,
                 env_id: int = 0, strict: bool = True, record: bool = True):
        self.family, self.action_kind = family, action_kind
        self.possible_agents = list(AGENT_IDS)
        self.agents = list(AGENT_IDS)
        self._obs_spaces = {a: obs_space(family) for a in AGENT_IDS}
        self._act_spaces = {a: act_space(action_kind, 1 if a.startswith("other") else 0) for a in AGENT_IDS}
        self.ep_len, self.env_id, self.strict, self.record = int(ep_len), int(env_id), strict, record
        self.episode, self.t = 0, 0
        self.n_steps = 0

    def observation_space(self, agent):
        return self._obs_spaces[agent]

    def action_space(self, agent):
        return self._act_spaces[agent]

    def _obs(self):
        k = 31 * self.episode + 7 * self.t + 3 * self.env_id
        return {a: scripted_obs(self._obs_spaces[a], k + i) for i, a in enumerate(self.possible_agents)}

    def reset(self, seed=None, options=None):
        self.episode += 1
        self.t = 0
        self.agents = list(self.possible_agents)
        if self.record:
            REC.log("reset", 1)
        return self._obs(), {a: {} for a in self.possible_agents}

    def step(self, actions):
        if self.strict:
            for a in self.possible_agents:
                assert a in actions, f"no action for {a}"
                assert self._act_spaces[a].contains(actions[a]), \
                    f"{actions[a]!r} ({type(actions[a])}) invalid for {a}: {self._act_spaces[a]}"
        self.t += 1
        self.n_steps += 1
        if self.record:
            REC.log("step", 1)
        end = self.t >= self.ep_len
        term = bool(end and self.episode % 2 == 0)
        trunc = bool(end and self.episode % 2 == 1)
        rew = {a: scripted_reward(self.env_id + i, self.episode, self.t) for i, a in enumerate(self.possible_agents)}
        obs = self._obs()
        if end:
            self.agents = []
        return (obs, rew, {a: term for a in self.possible_agents},
                {a: trunc for a in self.possible_agents}, {a: {} for a in self.possible_agents})


def _stack(items):
    first = items[0]
    if isinstance(first, dict):
        return {k: _stack([it[k] for it in items]) for k in first}
    if isinstance(first, tuple):
        return tuple(_stack([it[i] for it in items]) for i in range(len(first)))
    return np.stack([np.asarray(it) for it in items])


class ScriptedVecParallelEnv:
    """in-process stand-in for agilerl.vector.AsyncPettingZooVecEnv: `num_envs`, `agents`,
    `possible_agents`, `observation_space(agent)` / `action_space(agent)` (single spaces),
    reset() -> (obs, infos), step(actions) -> (obs, rewards, terminations, truncations, infos) where
    every value is a dict keyed by agent id of arrays with leading dimension num_envs.  A
    sub-environment whose agents are all done is reset inside the same step call and the observation
    returned for it is the first one of the new episode (what the library's worker does)."""

    def __init__(self, family: str = "vector", action_kind: str = "discrete", num_envs: int = 2, ep_len=6,
                 mode: str = "stagger"):
        self.num_envs = int(num_envs)
        self.episode_lengths = episode_lengths(ep_len, self.num_envs, mode)
        self.envs = [ScriptedParallelEnv(family, action_kind, self.episode_lengths[i], i, strict=True, record=False)
                     for i in range(self.num_envs)]
        self.possible_agents = list(AGENT_IDS)
        self.agents = list(AGENT_IDS)
        self.n_vector_steps = 0

    def observation_space(self, agent):
        return self.envs[0].observation_space(agent)

    def action_space(self, agent):
        return self.envs[0].action_space(agent)

    single_observation_space = observation_space
    single_action_space = action_space

    def reset(self, seed=None, options=None):
        REC.log("reset", self.num_envs)
        obs = [e.reset()[0] for e in self.envs]
        return ({a: _stack([o[a] for o in obs]) for a in self.possible_agents},
                {a: {} for a in self.possible_agents})

    def step(self, actions):
        self.n_vector_steps += 1
        REC.log("step", self.num_envs)
        outs = []
        for i, e in enumerate(self.envs):
            act = {a: np.asarray(actions[a])[i] for a in self.possible_agents}
            act = {a: (v.item() if v.ndim == 0 and np.issubdtype(v.dtype, np.integer) else v) for a, v in act.items()}
            o, r, te, tr, _ = e.step(act)
            if all(te[a] or tr[a] for a in self.possible_agents):
                o, _ = e.reset()
            outs.append((o, r, te, tr))
        obs = {a: _stack([o[0][a] for o in outs]) for a in self.possible_agents}
        rew = {a: np.array([o[1][a] for o in outs], dtype=np.float64) for a in self.possible_agents}
        term = {a: np.array([o[2][a] for o in outs]) for a in self.possible_agents}
        trunc = {a: np.array([o[3][a] for o in outs]) for a in self.possible_agents}
        return obs, rew, term, trunc, {a: {} for a in self.possible_agents}

    def close(self):
        pass


def make_multi_env(family: str, action_kind: str, num_envs: int | None, ep_len: int = 6, mode: str = "stagger"):
    if num_envs is None:
        return ScriptedParallelEnv(family, action_kind, ep_len, 0)
    return ScriptedVecParallelEnv(family, action_kind, num_envs, ep_len, mode)


# --------------------------------------------------------------------------------------- offline data
def offline_dataset(family: str, action_kind: str, n: int = 24) -> dict[str, Any]:
    """h5py-style mapping (observations, actions, rewards, terminals) with n rows, as train_offline
    reads it: dataset[key][i] must be one observation / action / reward / flag"""
    osp, asp = obs_space(family), act_space(action_kind)
    obs = [scripted_obs(osp, 5 * i + 1) for i in range(n)]
    acts = [scripted_obs(asp, i) for i in range(n)]
    from gymnasium import spaces
    if isinstance(osp, (spaces.Dict, spaces.Tuple)):
        observations: Any = obs                      # list of dict / tuple observations
    else:
        observations = np.stack([np.asarray(o) for o in obs])
    actions = np.stack([np.atleast_1d(np.asarray(a)) for a in acts])
    return {
        "observations": observations,
        "actions": actions,
        "rewards": np.array([scripted_reward(0, 1, i) for i in range(n)], dtype=np.float32),
        "terminals": np.array([(i % 6) == 5 for i in range(n)]),
    }
