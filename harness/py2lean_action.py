#!/usr/bin/env python3
"""
py2lean_action.py — translate the ACTION-SELECTION ARITHMETIC of the learners of property C14 into Lean 4:
`get_action` of DQN (with `_get_action`), CQN, RainbowDQN, DDPG, TD3, PPO, the per-agent loop body of `get_action`
of IPPO, MADDPG, MATD3 (REPO/agilerl/algorithms/{dqn,cqn,dqn_rainbow,ddpg,td3,ppo,ippo,maddpg,matd3}.py) and
`DeterministicActor.forward` / `rescale_action`, `StochasticActor.scale_action` (REPO/agilerl/networks/actors.py).

    python3 harness/py2lean_action.py [--repo DIR] [--out FILE] [--stdout] [--force]

Reads the *source text* only (Python `ast`; agilerl / torch / numpy are never imported) and writes
lean/Gen/ActionGen.lean (one namespace per class: `ActionGen.DQN`, `.CQN`, `.Rainbow`, `.DDPG`, `.TD3`, `.PPO`,
`.IPPO`, `.MADDPG`, `.MATD3`, `.Actor`, `.StochActor`; core Lean only).  `Proofs/ActionGenEq.lean` proves the
generated definitions equal to `dqnRow`, `cqnRow`, `cqnRowNoMask`, `maPick`, `plainPick`, `ddpgRow`, `rescaleVec`,
`pgEvalBox`, `maContRow`, … of the hand-written `Model/Action.lean`; `Props/C14.lean` restates the C14 theorems over
the generated definitions (`C14_source_translation_*`).

What is translated.  Everything is PER BATCH ROW (one observation of the batch; `Model/Action.lean` does the same):
a `(batch, n)` tensor is one row `List Rat`, a `(batch,)` tensor one number.  The fixed names are the API anchors:
  * THE CLASS of a learner file = its one top-level class that defines `get_action`; of actors.py the class that
    defines `rescale_action` (root `forward`) and the class that defines `scale_action` (root `scale_action`);
  * ENTRY roots: the whole method is *executed symbolically*, statement by statement; methods of the same class it
    calls are inlined with their arguments bound (`self._get_action(…)`, `self._get_action_and_values(…)`), and so
    are `<Class>.rescale_action(…)` / `<obj>.scale_action(…)` of actors.py (cross-file, by method name).  The value
    the method returns (the first component when it returns a tuple: "the action") is the definition `get_action`
    (`forward`, `scale_action`).
  * LOOP roots (IPPO, MADDPG, MATD3): `get_action` is executed up to its first top-level
    `for … in [enumerate(]zip(…)[)]:`; the loop variables are the current agent's elements (`self.actors` →
    `self_actors_i`, the `enumerate` index → `i`, so `self.min_action[idx]` is `self_min_action_i`); the body is
    executed once and the value of its first store `<dict local> [key] = value` is the definition `agent_action`.
Locals are substituted by their values (renaming a local, a temporary, `x += y` ↔ `x = x + y`, reordering
independent statements do not change the output).  Entry-wise arithmetic on rows is FUSED: a row value is an
entry expression over its base rows, materialised as `List.map` / `List.zipWith` / `zw3` / `zw4 (fun x0 … => e) b0 …`
with the bases in canonical order (inputs by group and name).  Operators, operand order, comparisons, constants,
branch conditions and statement order flow from the AST (the equality proofs absorb `a * b` ↔ `b * a`).

Inputs of a generated definition (its NAMES flow from the AST and are pinned by named arguments in the proofs):
  * the Python parameters it reads (type from the default: float → `Rat`, bool → `Bool`, `None` → `Option (List Rat)`
    — an optional 0/1 mask row);
  * `self_<path>`: attributes and everything reached from them, typed BY USE: entry-wise arithmetic / clip operand →
    `List Rat` (a per-dimension array such as `self.action_space.low`), operand of a comparison with a number →
    `Rat`, a size → `Nat`, a test → `Bool`, `x in ["A", …]` → `Option String`; `isinstance(<path>, spaces.K)` is the
    `Bool` input `<path>_is_K`, `<path> is None` the `Bool` input `<path>_is_None`, `<path>.isinf()` the `List Bool`
    input `<path>_isinf` (an extended-real array is the PAIR values / flags; arithmetic reads the values and means
    something only where the flags are false — the theorems are about finite bounds);
  * NETWORK OUTPUTS: a call of an attribute that is not a method of the class (`self.actor(obs)`,
    `self.head_net(latent)`, `actor(obs)` of the loop variable, `self.actor.forward_head(…)`) is the input
    `<path>_out` (`…_out_0` for the first component when it is unpacked); the arguments are not translated;
  * RANDOM DRAWS, one input per call site: `torch.rand_like(x)` → `rand_like` (shape of `x`),
    `torch.empty(<shape>).uniform_()` → `uniform_`, `random.random()` → `random_random`,
    `np.random.uniform(lo, hi, (batch, n))` → `np_random_uniform`, `np.random.randint(lo, hi, size=batch)` →
    `np_random_randint : Nat`; a method of the class that draws Gaussian noise (`np.random.normal`, `torch.randn`,
    `torch.normal` somewhere in its body, e.g. `action_noise`) is NOT inlined: its value is the input
    `self_<method>` (noise of arbitrary magnitude).  What the library promises about the draws is the generated
    proposition `<root>_draws_ok` (`0 ≤ x ∧ x < 1`, `lo ≤ x ∧ x < hi`, `lo ≤ k ∧ k < hi`, the length of a row draw),
    whose bounds flow from the arguments in the source.

Supported subset (on the way to an output; anything else raises `Unsupported` naming the construct and line):
  * statements: `x = e`, `a, b = e1, e2` / unpacking of a network output, `self.a = e`, `x op= e` (`x = x op e`),
    `return e`, `if` / `elif` / `else` (executed with the REST OF THE BLOCK as continuation of every branch, so early
    `return`s are ordinary; a translatable test gives `if c then … else …`, `<optional parameter> is [not] None`
    gives a `match`, an untranslatable test (`isinstance(obs, dict)`, `x.dtype == …`) is accepted only when every
    branch yields the same value), `with …:` without `as` (inlined), `assert`, `pass`, docstrings, expression
    statements `<obj>.eval()` / `.train(…)`.  Any other statement is a black box: every name it assigns becomes
    unknown; a `return` inside one is Unsupported; an output that needs an unknown value is Unsupported.
  * expressions: int / float / bool / str / None literals, `float("-inf")` (only as the fill value of
    `masked_fill`: the entry becomes `none` = −∞), locals, attribute paths, `+ - * /`, unary `-`, `not / and / or`,
    comparisons (`< > <= >= == !=`, `.gt .lt .ge .le`), `x in [literals]`, `a if c else b`, tuples,
    `torch.argmax(x, dim=-1|1)` / `np.argmax(x, axis=-1|1)` / `x.argmax(axis=-1|1)` (first maximum),
    `x.masked_fill(c, v)`, `x.bool()`, `np.ma.array(d, mask=m)` (masked ⇔ mask ≠ 0; argmax treats it as −∞),
    `torch.where(c, a, b)`, `x.clip(lo, hi)` / `np.clip` / `torch.clamp` / `x.clamp` (`min (max x lo) hi`),
    `torch.max/min/maximum/minimum(a, b)`, `np.maximum/minimum`, `torch.ones/zeros((batch, n))`,
    `x.isinf().any()`, `x.shape`, `x.size(0)` of an observation (the batch size).

Assumptions (listed again in the header of the generated file as far as met):
  * floats are exact rationals (division by a constant zero does not occur); a row has as many entries as the rows
    it is combined with (`zipWith` stops at the shorter one, torch would broadcast or raise);
  * identity on a row: `.to .cpu .numpy .detach .float .double .long .clone .contiguous .data`, `torch.tensor(x)`,
    `torch.as_tensor(x)`, `torch.from_numpy(x)`, `np.array(x)`, `np.stack(x)`, `device=` / `dtype=` arguments,
    `with torch.no_grad():`, `with <net>.no_sync():`; `<net>.eval()` / `.train(…)` do not change values;
  * `assert`s hold; network calls and `self.preprocess_observation` do not change attributes;
  * `argmax` = index of the FIRST maximum (torch and numpy), 0 for an empty row.

The header carries the sha256 over all source files; `write_if_changed` compares everything *but* that line.
"""
from __future__ import annotations

import ast
import hashlib
import os
import sys
from pathlib import Path

HERE = Path(__file__).resolve().parent
DEFAULT_OUT = HERE.parent / "lean" / "Gen" / "ActionGen.lean"
ACTORS = "agilerl/networks/actors.py"
#: (namespace, file, root method, marker method of the class, mode, name of the generated definition)
TARGETS = (
    ("DQN", "agilerl/algorithms/dqn.py", "get_action", "get_action", "entry", "get_action"),
    ("CQN", "agilerl/algorithms/cqn.py", "get_action", "get_action", "entry", "get_action"),
    ("Rainbow", "agilerl/algorithms/dqn_rainbow.py", "get_action", "get_action", "entry", "get_action"),
    ("DDPG", "agilerl/algorithms/ddpg.py", "get_action", "get_action", "entry", "get_action"),
    ("TD3", "agilerl/algorithms/td3.py", "get_action", "get_action", "entry", "get_action"),
    ("PPO", "agilerl/algorithms/ppo.py", "get_action", "get_action", "entry", "get_action"),
    ("IPPO", "agilerl/algorithms/ippo.py", "get_action", "get_action", "loop", "agent_action"),
    ("MADDPG", "agilerl/algorithms/maddpg.py", "get_action", "get_action", "loop", "agent_action"),
    ("MATD3", "agilerl/algorithms/matd3.py", "get_action", "get_action", "loop", "agent_action"),
    ("Actor", ACTORS, "forward", "rescale_action", "entry", "forward"),
    ("StochActor", ACTORS, "scale_action", "scale_action", "entry", "scale_action"),
)
REL_SOURCES = tuple(dict.fromkeys(t[1] for t in TARGETS))
REL_SOURCE = "agilerl/algorithms/{dqn,cqn,dqn_rainbow,ddpg,td3,ppo,ippo,maddpg,matd3}.py + agilerl/networks/actors.py"
SHA_PREFIX = "-- sha256(source) = "

ID_METHODS = {"to", "cpu", "numpy", "detach", "float", "double", "long", "int", "clone", "contiguous"}
ID_FUNCS = {("torch", "tensor"), ("torch", "as_tensor"), ("torch", "from_numpy"), ("np", "array"), ("np", "stack"),
            ("np", "asarray")}
EFFECT_FREE = {"eval", "train"}
FOLLOW = {"scale_action", "rescale_action"}           # methods of actors.py that are inlined when called on an object
GAUSS = {("np", "random", "normal"), ("torch", "randn"), ("torch", "randn_like"), ("torch", "normal")}
IGNORED_KW = {"device", "dtype"}
ARITH = {ast.Add: "+", ast.Sub: "-", ast.Mult: "*", ast.Div: "/"}
CMP = {ast.Lt: "<", ast.Gt: ">", ast.LtE: "≤", ast.GtE: "≥", ast.Eq: "=", ast.NotEq: "≠"}
CMP_METHODS = {"gt": ">", "lt": "<", "ge": "≥", "le": "≤"}
LEAN_TY = {"Rat": "Rat", "Nat": "Nat", "Bool": "Bool", "Row": "List Rat", "BRow": "List Bool", "OptRow": "Option (List Rat)",
           "OptStr": "Option String"}


class Unsupported(Exception):
    pass


_file = [REL_SOURCE]


def where(node) -> str:
    return f"{_file[0]}:{getattr(node, 'lineno', '?')}"


def unparse(n) -> str:
    s = " ".join(ast.unparse(n).split())
    return s if len(s) <= 70 else s[:67] + "..."


def is_docstring(st) -> bool:
    return isinstance(st, ast.Expr) and isinstance(st.value, ast.Constant) and isinstance(st.value.value, str)


# ---------------------------------------------------------------------------------------------- expression trees
class Input:
    def __init__(self, name: str, group: int, ty: str | None):
        self.name, self.group, self.ty = name, group, ty
        self.order = 0


class N:
    """node of a Lean expression: text = fmt.format(*texts of the kids); `inp` marks an input leaf, `base` a
    reference to a base row inside an entry expression (kids = [the list])"""
    __slots__ = ("fmt", "kids", "inp", "base", "ety", "bound", "binds")

    def __init__(self, fmt, kids=(), inp=None, base=False, ety="Rat", bound=False, binds=None):
        self.fmt, self.kids, self.inp, self.base = fmt, tuple(kids), inp, base
        self.ety = ety            # entry type of a base row
        self.bound = bound        # a variable bound by an enclosing `fun` / `match` arm
        self.binds = binds        # (index of the kid in which names are bound, names)

    def text(self) -> str:
        if self.inp is not None:
            return self.inp.name
        return self.fmt.format(*[k.text() for k in self.kids])


def walk(n: N):
    yield n
    for k in n.kids:
        yield from walk(k)


def rat_lit(x) -> str:
    num, den = (x, 1) if isinstance(x, int) else x.as_integer_ratio()
    s = f"({num} : Rat)" if num >= 0 else f"(({num}) : Rat)"
    return s if den == 1 else f"({s} / {den})"


class V:
    """symbolic value.  kind: const (.c) | none | neginf | rat | nat | bool | row (.elem entry expression, .ety
    Rat/Bool/MRat) | obj (.path: untyped input reached from a parameter / attribute / network call) | opt (optional
    parameter) | optnone (a test `<opt> is None`) | batch | shape (.dims) | uninit (.dims) | tuple (.items) | dict |
    list (.items) | module (.dotted) | opaque (.why)"""

    def __init__(self, kind, node=None, **kw):
        self.kind, self.node = kind, node
        self.__dict__.update(kw)


def opaque(why: str) -> V:
    return V("opaque", why=why)


def sub_obj(v: V, *extra: str) -> V:
    """something reached from the untyped input `v` (keeps the reason why `v` is only a pass-through blob)"""
    return V("obj", path=v.path + list(extra), group=v.group, why=getattr(v, "why", None))


# ---------------------------------------------------------------------------------------------- the executor
class Exec:
    def __init__(self, tr: "Translator", rel: str, cls: ast.ClassDef, ns: str):
        self.tr, self.rel, self.cls, self.ns = tr, rel, cls, ns
        self.inputs: dict[str, Input] = {}
        self.draw_sites: dict = {}
        self.contracts: list[N] = []
        self.assumed: set[str] = set()
        self.stack: list = []             # call sites of the inlined calls (part of a draw's identity)
        self.depth = 0
        self.loop_mode = False

    # ------------------------------------------------------------------ inputs
    def input(self, n, name: str, group: int, ty: str) -> N | V:
        i = self.inputs.get(name)
        if i is None:
            i = Input(name, group, ty)
            i.order = len(self.inputs)
            self.inputs[name] = i
        elif i.ty != ty:
            return opaque(f"{where(n)}: unsupported construct: `{name}` is used as {LEAN_TY[i.ty]} elsewhere and as "
                          f"{LEAN_TY[ty]} in `{unparse(n)}`")
        return N(name, inp=i)

    def known_ty(self, v: V) -> str | None:
        if getattr(v, "why", None):
            return None
        i = self.inputs.get("_".join(v.path))
        return i.ty if i else None

    def force(self, n, v: V, ty: str) -> V:
        """an untyped input used as `ty`"""
        if getattr(v, "why", None):
            return opaque(v.why + f" [the value is needed in `{unparse(n)}`]")
        nd = self.input(n, "_".join(v.path), v.group, ty)
        if isinstance(nd, V):
            return nd
        if ty == "Row":
            return V("row", elem=N("{0}", [nd], base=True), ety="Rat")
        if ty == "BRow":
            return V("row", elem=N("{0}", [nd], base=True, ety="Bool"), ety="Bool")
        return V({"Rat": "rat", "Nat": "nat", "Bool": "bool", "OptStr": "ostr"}[ty], nd)

    def bad(self, n, what: str) -> V:
        return opaque(f"{where(n)}: unsupported construct: {what}")

    # ------------------------------------------------------------------ coercions
    def as_rat(self, n, v: V) -> V:
        if v.kind == "rat":
            return v
        if v.kind == "const" and type(v.c) in (int, float):
            if v.c != v.c or abs(v.c) == float("inf"):
                return self.bad(n, f"float constant {v.c!r}")
            return V("rat", N(rat_lit(v.c)))
        if v.kind == "nat":
            return V("rat", N("(({0} : Nat) : Rat)", [v.node]))
        if v.kind == "obj":
            return self.force(n, v, "Rat")
        if v.kind == "opaque":
            return v
        return self.bad(n, f"a value of kind {v.kind} where a number is needed in `{unparse(n)}`")

    def as_nat(self, n, v: V) -> V:
        if v.kind == "nat":
            return v
        if v.kind == "const" and type(v.c) is int and v.c >= 0:
            return V("nat", N(f"({v.c} : Nat)"))
        if v.kind == "obj":
            return self.force(n, v, "Nat")
        if v.kind == "opaque":
            return v
        return self.bad(n, f"a value of kind {v.kind} where a size / index is needed in `{unparse(n)}`")

    def as_bool(self, n, v: V) -> V:
        if v.kind in ("bool", "optnone", "opaque"):
            return v
        if v.kind == "const" and type(v.c) is bool:
            return V("bool", N("true" if v.c else "false"))
        if v.kind == "obj":
            return self.force(n, v, "Bool")
        return self.bad(n, f"a value of kind {v.kind} used as a condition in `{unparse(n)}`")

    def as_row(self, n, v: V) -> V:
        """row / untyped input → row; anything else → opaque"""
        if v.kind == "row":
            return v
        if v.kind == "obj":
            return self.force(n, v, self.known_ty(v) if self.known_ty(v) in ("Row", "BRow") else "Row")
        if v.kind == "opaque":
            return v
        return self.bad(n, f"a value of kind {v.kind} where a row is needed in `{unparse(n)}`")

    def rowish(self, v: V) -> bool:
        return v.kind == "row" or (v.kind == "obj" and self.known_ty(v) in (None, "Row", "BRow"))

    # ------------------------------------------------------------------ rows
    def mat(self, n, v: V) -> N | V:
        """the list a row value stands for"""
        if v.elem.base:
            return v.elem.kids[0]
        bases: dict[str, N] = {}
        etys: dict[str, str] = {}
        for x in walk(v.elem):
            if x.base:
                bases.setdefault(x.kids[0].text(), x.kids[0])
                etys.setdefault(x.kids[0].text(), x.ety)

        def key(item):
            t, b = item
            return (b.inp.group, b.inp.name) if b.inp is not None else (9, t)
        order = sorted(bases.items(), key=key)
        if not order:
            return self.bad(n, f"a row without entries' source in `{unparse(n)}`")
        if len(order) > 4:
            return self.bad(n, f"entry-wise expression over {len(order)} rows in `{unparse(n)}` (at most 4)")
        var = {t: N(f"x{i}", bound=True) for i, (t, _) in enumerate(order)}

        def sub(x: N) -> N:
            if x.base:
                return var[x.kids[0].text()]
            if not x.kids:
                return x
            return N(x.fmt, [sub(k) for k in x.kids], x.inp, binds=x.binds)
        body = sub(v.elem)
        k = len(order)
        fn = {1: "List.map", 2: "List.zipWith", 3: "zw3", 4: "zw4"}[k]
        lty = {"Rat": "Rat", "Bool": "Bool", "MRat": "Option Rat"}
        xs = " ".join(f"(x{i} : {lty[etys[t]]})" for i, (t, _) in enumerate(order))
        fmt = f"({fn} (fun {xs} => {{0}}) " + " ".join(f"{{{i + 1}}}" for i in range(k)) + ")"
        return N(fmt, [body] + [b for _, b in order], binds=(0, {f"x{i}" for i in range(k)}))

    def row_of_list(self, nd: N, ety="Rat") -> V:
        return V("row", elem=N("{0}", [nd], base=True, ety=ety), ety=ety)

    def length_of(self, n, v: V) -> N | V:
        m = self.mat(n, v)
        return m if isinstance(m, V) else N("(List.length {0})", [m])

    # ------------------------------------------------------------------ arithmetic / comparisons
    def first_opaque(self, *vs):
        for v in vs:
            if isinstance(v, V) and v.kind == "opaque":
                return v
        return None

    def arith(self, n, op: str, a: V, c: V) -> V:
        o = self.first_opaque(a, c)
        if o:
            return o
        ra, rc = self.rowish(a), self.rowish(c)
        if a.kind == "obj" and c.kind == "obj" and self.known_ty(a) == "Rat" and self.known_ty(c) == "Rat":
            ra = rc = False
        if ra or rc:
            if ra:
                a = self.as_row(n, a)
            if rc:
                c = self.as_row(n, c)
            o = self.first_opaque(a, c)
            if o:
                return o
            ea = a.elem if ra else self.as_rat(n, a)
            ec = c.elem if rc else self.as_rat(n, c)
            o = self.first_opaque(ea, ec)
            if o:
                return o
            for x in (a, c):
                if x.kind == "row" and x.ety != "Rat":
                    return self.bad(n, f"arithmetic on a row of {x.ety} entries in `{unparse(n)}`")
            ea = ea if isinstance(ea, N) else ea.node
            ec = ec if isinstance(ec, N) else ec.node
            return V("row", elem=N(f"({{0}} {op} {{1}})", [ea, ec]), ety="Rat")
        x, y = self.as_rat(n, a), self.as_rat(n, c)
        o = self.first_opaque(x, y)
        if o:
            return o
        return V("rat", N(f"({{0}} {op} {{1}})", [x.node, y.node]))

    def compare(self, n, op: str, a: V, c: V) -> V:
        o = self.first_opaque(a, c)
        if o:
            return o
        ra, rc = a.kind == "row", c.kind == "row"
        if ra or rc:
            ea = a.elem if ra else self.as_rat(n, a)
            ec = c.elem if rc else self.as_rat(n, c)
            o = self.first_opaque(ea, ec)
            if o:
                return o
            for x in (a, c):
                if x.kind == "row" and x.ety != "Rat":
                    return self.bad(n, f"comparison of a row of {x.ety} entries in `{unparse(n)}`")
            ea = ea if isinstance(ea, N) else ea.node
            ec = ec if isinstance(ec, N) else ec.node
            return V("row", elem=N(f"(decide ({{0}} {op} {{1}}))", [ea, ec]), ety="Bool")
        if a.kind == "nat" and c.kind in ("nat", "const") or c.kind == "nat" and a.kind in ("nat", "const"):
            x, y = self.as_nat(n, a), self.as_nat(n, c)
        else:
            x, y = self.as_rat(n, a), self.as_rat(n, c)
        o = self.first_opaque(x, y)
        if o:
            return o
        return V("bool", N(f"(decide ({{0}} {op} {{1}}))", [x.node, y.node]))

    def clip(self, n, x: V, lo: V, hi: V) -> V:
        """min (max x lo) hi, entry-wise"""
        o = self.first_opaque(x, lo, hi)
        if o:
            return o
        x = self.as_row(n, x)
        if x.kind == "opaque":
            return x
        if x.ety != "Rat":
            return self.bad(n, f"clip of a row of {x.ety} entries")
        es = []
        for b in (lo, hi):
            if self.rowish(b):
                b = self.as_row(n, b)
                if b.kind == "opaque":
                    return b
                if b.ety != "Rat":
                    return self.bad(n, f"clip bound that is a row of {b.ety} entries")
                es.append(b.elem)
            else:
                b = self.as_rat(n, b)
                if b.kind == "opaque":
                    return b
                es.append(b.node)
        return V("row", elem=N("(min (max {0} {1}) {2})", [x.elem, es[0], es[1]]), ety="Rat")

    def minmax(self, n, fn: str, a: V, c: V) -> V:
        o = self.first_opaque(a, c)
        if o:
            return o
        if self.rowish(a) or self.rowish(c):
            es = []
            for b in (a, c):
                if self.rowish(b):
                    b = self.as_row(n, b)
                    if b.kind == "opaque":
                        return b
                    if b.ety != "Rat":
                        return self.bad(n, f"{fn} of a row of {b.ety} entries")
                    es.append(b.elem)
                else:
                    b = self.as_rat(n, b)
                    if b.kind == "opaque":
                        return b
                    es.append(b.node)
            return V("row", elem=N(f"({fn} {{0}} {{1}})", es), ety="Rat")
        x, y = self.as_rat(n, a), self.as_rat(n, c)
        o = self.first_opaque(x, y)
        return o or V("rat", N(f"({fn} {{0}} {{1}})", [x.node, y.node]))

    def argmax(self, n, x: V, axis) -> V:
        if x.kind == "opaque":
            return x
        if axis is None:
            return self.bad(n, f"`{unparse(n)}`: argmax without dim / axis (flattened over the batch)")
        if not (axis.kind == "const" and axis.c in (-1, 1)):
            return self.bad(n, f"`{unparse(n)}`: argmax along an axis other than -1 / 1")
        x = self.as_row(n, x)
        if x.kind == "opaque":
            return x
        if x.ety == "Bool":
            return self.bad(n, "argmax of a row of Bool entries")
        if x.ety == "Rat":
            x = V("row", elem=N("(some {0})", [x.elem]), ety="MRat")
        m = self.mat(n, x)
        if isinstance(m, V):
            return m
        return V("nat", N("(argmax {0})", [m]))

    # ------------------------------------------------------------------ conditionals on values
    def ite(self, n, c: V, x: V, y: V) -> V:
        """the value `x` if `c` else `y` (c: bool | optnone | opaque)"""
        if x.kind == "tuple" and y.kind == "tuple" and len(x.items) == len(y.items):
            return V("tuple", items=[self.ite(n, c, a, b) for a, b in zip(x.items, y.items)])
        same = self.same(x, y)
        if same is not None:
            return same
        if c.kind == "opaque":
            o = self.first_opaque(x, y)
            return o or opaque(c.why + f"; the value of `{unparse(n)}` depends on it")
        o = self.first_opaque(x, y)
        if o:
            return o
        if x.kind == "const" and y.kind in ("nat", "rat"):
            x = self.as_nat(n, x) if y.kind == "nat" else self.as_rat(n, x)
        if y.kind == "const" and x.kind in ("nat", "rat"):
            y = self.as_nat(n, y) if x.kind == "nat" else self.as_rat(n, y)
        if x.kind == "const" and y.kind == "const":
            x, y = self.as_rat(n, x), self.as_rat(n, y)
        if x.kind == "obj" and y.kind == "row":
            x = self.as_row(n, x)
        if y.kind == "obj" and x.kind == "row":
            y = self.as_row(n, y)
        if x.kind != y.kind or x.kind not in ("nat", "rat", "bool", "row"):
            return self.bad(n, f"values of kind {x.kind} / {y.kind} in the branches of `{unparse(n)}`")
        if x.kind == "row":
            if x.ety != y.ety:
                if {x.ety, y.ety} == {"Rat", "MRat"}:
                    x, y = [v if v.ety == "MRat" else V("row", elem=N("(some {0})", [v.elem]), ety="MRat") for v in (x, y)]
                else:
                    return self.bad(n, f"rows of {x.ety} / {y.ety} entries in the branches of `{unparse(n)}`")
            mx, my = self.mat(n, x), self.mat(n, y)
            o = self.first_opaque(mx, my)
            if o:
                return o
            return self.row_of_list(self.ite_node(c, mx, my), x.ety)
        return V(x.kind, self.ite_node(c, x.node, y.node))

    def ite_node(self, c: V, a: N, b: N) -> N:
        if c.kind == "optnone":
            nm = c.opt.name
            none_v, some_v = (a, b) if c.is_none else (b, a)
            return N("(match {0} with | none => {1} | some " + nm + " => {2})", [c.opt.node, none_v, some_v], binds=(2, {nm}))
        return N("(if {0} then {1} else {2})", [c.node, a, b])

    def same(self, x: V, y: V) -> V | None:
        if x.kind != y.kind:
            return None
        if x.kind in ("nat", "rat", "bool", "ostr") and x.node.text() == y.node.text():
            return x
        if x.kind == "row" and x.ety == y.ety and x.elem.text() == y.elem.text():
            return x
        if x.kind == "obj" and x.path == y.path:
            return x
        if x.kind == "const" and x.c == y.c and type(x.c) is type(y.c):
            return x
        if x.kind in ("none", "batch", "neginf", "dict"):
            return x
        if x.kind in ("shape", "uninit") and self.dims_text(x.dims) == self.dims_text(y.dims):
            return x
        if x.kind == "opt" and x.name == y.name:
            return x
        if x.kind == "tuple" and len(x.items) == len(y.items):
            items = [self.same(a, b) for a, b in zip(x.items, y.items)]
            if all(i is not None for i in items):
                return V("tuple", items=items)
        return None

    @staticmethod
    def dims_text(d):
        return "scalar" if d == "scalar" else ("row", d[1].text() if d[1] is not None else None)

    # ------------------------------------------------------------------ expressions
    def ev(self, n, env) -> V:
        self.depth += 1
        try:
            if self.depth > 200:
                raise Unsupported(f"{where(n)}: expression too deep")
            return self.ev0(n, env)
        finally:
            self.depth -= 1

    def ev0(self, n, env) -> V:
        if isinstance(n, ast.Constant):
            if n.value is None:
                return V("none")
            if type(n.value) in (int, float, bool, str):
                return V("const", c=n.value)
            return self.bad(n, f"constant {n.value!r}")
        if isinstance(n, ast.Name):
            if n.id in env:
                return env[n.id]
            if n.id in ("torch", "np", "numpy", "random", "spaces"):
                return V("module", dotted=("np" if n.id == "numpy" else n.id,))
            if n.id in self.tr.classes:
                return V("module", dotted=("class", n.id))
            return self.bad(n, f"name `{n.id}`")
        if isinstance(n, ast.Attribute):
            v = self.ev(n.value, env)
            if v.kind == "opaque":
                return v
            if v.kind == "module":
                return V("module", dotted=v.dotted + (n.attr,))
            if v.kind == "obj":
                if n.attr == "data":
                    return v
                return sub_obj(v, n.attr)
            if n.attr == "data" and v.kind in ("row", "rat", "nat"):
                self.assumed.add("`.data` is the tensor itself")
                return v
            if n.attr == "shape":
                if v.kind in ("rat", "nat", "bool"):
                    return V("shape", dims="scalar")
                if v.kind == "row":
                    ln = self.length_of(n, v)
                    return ln if isinstance(ln, V) else V("shape", dims=("row", ln))
            return self.bad(n, f"attribute `.{n.attr}` of a value of kind {v.kind}")
        if isinstance(n, ast.UnaryOp):
            v = self.ev(n.operand, env)
            if v.kind == "opaque":
                return v
            if isinstance(n.op, ast.Not):
                b = self.as_bool(n, v)
                if b.kind == "opaque":
                    return b
                if b.kind == "optnone":
                    return V("optnone", opt=b.opt, is_none=not b.is_none)
                return V("bool", N("(!{0})", [b.node]))
            if isinstance(n.op, ast.USub):
                if v.kind == "const" and type(v.c) in (int, float):
                    return V("const", c=-v.c)
                if self.rowish(v):
                    r = self.as_row(n, v)
                    if r.kind == "opaque" or r.ety != "Rat":
                        return r if r.kind == "opaque" else self.bad(n, "unary minus of a non-numeric row")
                    return V("row", elem=N("(-{0})", [r.elem]), ety="Rat")
                r = self.as_rat(n, v)
                return r if r.kind == "opaque" else V("rat", N("(-{0})", [r.node]))
            return self.bad(n, f"unary operator {type(n.op).__name__}")
        if isinstance(n, ast.BoolOp):
            vs = [self.as_bool(x, self.ev(x, env)) for x in n.values]
            o = self.first_opaque(*vs)
            if o:
                return o
            if any(v.kind != "bool" for v in vs):
                return self.bad(n, f"`{unparse(n)}`: and / or with an `is None` test of an optional parameter")
            op = " && " if isinstance(n.op, ast.And) else " || "
            return V("bool", N("(" + op.join(f"{{{i}}}" for i in range(len(vs))) + ")", [v.node for v in vs]))
        if isinstance(n, ast.BinOp):
            op = ARITH.get(type(n.op))
            a, c = self.ev(n.left, env), self.ev(n.right, env)
            if op is None:
                return self.first_opaque(a, c) or self.bad(n, f"operator {type(n.op).__name__}")
            return self.arith(n, op, a, c)
        if isinstance(n, ast.Compare):
            return self.ev_compare(n, env)
        if isinstance(n, ast.IfExp):
            c = self.as_bool(n.test, self.ev(n.test, env))
            return self.ite(n, c, self.ev(n.body, env), self.ev(n.orelse, env))
        if isinstance(n, ast.Tuple):
            return V("tuple", items=[self.ev(x, env) for x in n.elts])
        if isinstance(n, ast.List):
            return V("list", items=[self.ev(x, env) for x in n.elts])
        if isinstance(n, ast.Dict) and not n.keys:
            return V("dict")
        if isinstance(n, ast.Subscript):
            v = self.ev(n.value, env)
            if v.kind == "opaque":
                return v
            if v.kind == "tuple" and isinstance(n.slice, ast.Constant) and type(n.slice.value) is int \
                    and -len(v.items) <= n.slice.value < len(v.items):
                return v.items[n.slice.value]
            if v.kind == "obj":
                if isinstance(n.slice, ast.Constant) and type(n.slice.value) in (int, str):
                    return sub_obj(v, str(n.slice.value))
                i = self.ev(n.slice, env)
                if i.kind == "obj" and "i" in i.path:
                    return sub_obj(v, "i")
                return self.bad(n, f"`{unparse(n)}`: index that is neither a literal nor the current agent's")
            return self.bad(n, f"subscript of a value of kind {v.kind} in `{unparse(n)}`")
        if isinstance(n, ast.Call):
            return self.call(n, env)
        return self.bad(n, f"{type(n).__name__} `{unparse(n)}`")

    def ev_compare(self, n: ast.Compare, env) -> V:
        if len(n.ops) != 1:
            return self.bad(n, f"chained comparison `{unparse(n)}`")
        op, a, c = n.ops[0], self.ev(n.left, env), self.ev(n.comparators[0], env)
        o = self.first_opaque(a, c)
        if o:
            return o
        if isinstance(op, (ast.Is, ast.IsNot)):
            if c.kind != "none":
                return self.bad(n, f"`{unparse(n)}`: `is` with something other than None")
            neg = isinstance(op, ast.IsNot)
            if a.kind == "opt":
                return V("optnone", opt=a, is_none=not neg)
            if a.kind == "none":
                return V("bool", N("false" if neg else "true"))
            if a.kind == "obj":
                b = self.force(n, sub_obj(a, "is_None"), "Bool")
                return b if b.kind == "opaque" or not neg else V("bool", N("(!{0})", [b.node]))
            if a.kind in ("row", "rat", "nat", "bool"):
                return V("bool", N("true" if neg else "false"))
            return self.bad(n, f"`{unparse(n)}`: `is None` of a value of kind {a.kind}")
        if isinstance(op, (ast.In, ast.NotIn)):
            if c.kind != "list" or not all(x.kind == "const" and type(x.c) is str for x in c.items):
                return self.bad(n, f"`{unparse(n)}`: `in` with something other than a list of string literals")
            if a.kind == "obj":
                a = self.force(n, a, "OptStr")
            if a.kind == "opaque":
                return a
            if a.kind == "const" and type(a.c) is str:
                a = V("ostr", N(f'(some "{a.c}")'))
            elif a.kind == "none":
                a = V("ostr", N("(none : Option String)"))
            if a.kind != "ostr":
                return self.bad(n, f"`{unparse(n)}`: `in` of a value of kind {a.kind}")
            lst = "[" + ", ".join(f'some "{x.c}"' for x in c.items) + "]"
            b = N("(decide ({0} ∈ " + lst.replace("{", "{{").replace("}", "}}") + "))", [a.node])
            return V("bool", b if isinstance(op, ast.In) else N("(!{0})", [b]))
        sym = CMP.get(type(op))
        if sym is None:
            return self.bad(n, f"comparison {type(op).__name__}")
        if "row" not in (a.kind, c.kind) and "obj" in (a.kind, c.kind):
            # an untyped input compared with a number is a number
            if a.kind == "obj" and c.kind == "obj":
                return self.bad(n, f"`{unparse(n)}`: comparison of two untyped inputs")
        elif "row" in (a.kind, c.kind):
            a = self.as_row(n, a) if a.kind == "obj" else a
            c = self.as_row(n, c) if c.kind == "obj" else c
        return self.compare(n, sym, a, c)

    # ------------------------------------------------------------------ calls
    def args_of(self, n: ast.Call, names: list[str], env, required: int = 0):
        """positional + keyword arguments matched to `names` (IGNORED_KW dropped); None on anything else"""
        out = {}
        if any(isinstance(a, ast.Starred) for a in n.args) or len(n.args) > len(names):
            return None
        for k, a in zip(names, n.args):
            out[k] = a
        for kw in n.keywords:
            if kw.arg in IGNORED_KW:
                continue
            if kw.arg is None or kw.arg not in names or kw.arg in out:
                return None
            out[kw.arg] = kw.value
        if any(k not in out for k in names[:required]):
            return None
        return {k: self.ev(a, env) for k, a in out.items()}

    def shape_of(self, n, v: V) -> V:
        """a shape argument: `(batch, n)`, the batch size alone, `x.shape`"""
        if v.kind in ("shape", "opaque"):
            return v
        if v.kind == "batch":
            return V("shape", dims="scalar")
        if v.kind == "tuple" and len(v.items) == 1 and v.items[0].kind == "batch":
            return V("shape", dims="scalar")
        if v.kind == "tuple" and len(v.items) == 2 and v.items[0].kind == "batch":
            k = self.as_nat(n, v.items[1])
            return k if k.kind == "opaque" else V("shape", dims=("row", k.node))
        o = self.first_opaque(*v.items) if v.kind == "tuple" else None
        return o or self.bad(n, f"shape `{unparse(n)}` (only `(batch size, n)`, the batch size, `x.shape`)")

    def draw(self, n, base: str, dims, lo: N | None, hi: N | None, nat: bool = False) -> V:
        site = (self.rel, _file[0], n.lineno, n.col_offset, tuple(self.stack))
        nd = self.draw_sites.get(site)
        fresh = nd is None
        if fresh:
            k = sum(1 for i in self.inputs.values() if i.group == 3 and i.name.rstrip("0123456789_") == base.rstrip("_"))
            name = base if k == 0 else f"{base}{'' if base.endswith('_') else '_'}{k + 1}"
            ty = "Nat" if nat else ("Rat" if dims == "scalar" else "Row")
            nd = self.input(n, name, 3, ty)
            if isinstance(nd, V):
                return nd
            self.draw_sites[site] = nd
            lo_n = lo if lo is not None else N("(0 : Nat)" if nat else "(0 : Rat)")
            hi_n = hi if hi is not None else N("(1 : Rat)")
            if dims == "scalar":
                self.contracts.append(N("({1} ≤ {0} ∧ {0} < {2})", [nd, lo_n, hi_n]))
            else:
                self.contracts.append(N("(∀ x ∈ {0}, {1} ≤ x ∧ x < {2})", [nd, lo_n, hi_n]))
                if dims[1] is not None:
                    self.contracts.append(N("(List.length {0} = {1})", [nd, dims[1]]))
        if nat:
            return V("nat", nd)
        return V("rat", nd) if dims == "scalar" else self.row_of_list(nd)

    def dotted(self, f, env):
        v = self.ev(f, env) if isinstance(f, (ast.Name, ast.Attribute)) and self.is_module_path(f, env) else None
        return v.dotted if v is not None and v.kind == "module" else None

    def is_module_path(self, f, env) -> bool:
        while isinstance(f, ast.Attribute):
            f = f.value
        return isinstance(f, ast.Name) and f.id not in env and (
            f.id in ("torch", "np", "numpy", "random", "spaces") or f.id in self.tr.classes)

    def call(self, n: ast.Call, env) -> V:
        f = n.func
        mf = self.dotted(f, env)
        if mf is not None:
            return self.call_module(n, mf, env)
        if isinstance(f, ast.Name) and f.id not in env:
            return self.call_builtin(n, f.id, env)
        if isinstance(f, ast.Name) and env[f.id].kind == "obj":
            return sub_obj(env[f.id], "out")      # a network called directly
        if isinstance(f, ast.Attribute):
            recv = self.ev(f.value, env)
            if recv.kind == "opaque":
                return recv
            return self.call_method(n, recv, f.attr, env)
        return self.bad(n, f"call `{unparse(n)}`")

    def call_builtin(self, n, name: str, env) -> V:
        if name == "float" and len(n.args) == 1 and not n.keywords and isinstance(n.args[0], ast.Constant):
            s = n.args[0].value
            if isinstance(s, str) and s.strip().lower() in ("-inf", "-infinity"):
                return V("neginf")
            if type(s) in (int, float):
                return V("const", c=float(s))
            return self.bad(n, f"`{unparse(n)}` (only float(\"-inf\") as a fill value)")
        if name == "isinstance" and len(n.args) == 2 and not n.keywords:
            x = self.ev(n.args[0], env)
            t = n.args[1]
            if x.kind == "obj" and not getattr(x, "why", None) and isinstance(t, ast.Attribute) and isinstance(t.value, ast.Name) \
                    and t.value.id == "spaces" and "spaces" not in env:
                return self.force(n, sub_obj(x, f"is_{t.attr}"), "Bool")
            return self.bad(n, f"`{unparse(n)}`: a type test that is not `isinstance(<attribute path>, spaces.K)`")
        if name in ("list", "next", "iter", "tuple") and len(n.args) == 1 and not n.keywords:
            x = self.ev(n.args[0], env)
            if x.kind in ("obj", "opaque"):
                return x
        return self.bad(n, f"call of `{name}`")

    def call_module(self, n, mf: tuple, env) -> V:
        if mf[0] == "class":
            if len(mf) == 3 and mf[2] in FOLLOW:
                fn = self.tr.method(mf[1], mf[2])
                if fn is not None:
                    return self.inline(n, fn[0], fn[1], None, env)
            return self.bad(n, f"call of `{'.'.join(mf[1:])}`")
        if mf in ID_FUNCS:
            if not n.args or isinstance(n.args[0], ast.Starred):
                return self.bad(n, f"`{unparse(n)}`")
            self.assumed.add(f"`{'.'.join(mf)}(x)` is `x`")
            return self.ev(n.args[0], env)
        if mf in (("torch", "argmax"), ("np", "argmax")):
            a = self.args_of(n, ["input", "dim"] if mf[0] == "torch" else ["a", "axis"], env, 1)
            if a is None:
                return self.bad(n, f"`{unparse(n)}`")
            vals = list(a.values())
            return self.argmax(n, vals[0], vals[1] if len(vals) > 1 else None)
        if mf == ("torch", "rand_like"):
            a = self.args_of(n, ["input"], env, 1)
            if a is None:
                return self.bad(n, f"`{unparse(n)}`")
            x = a["input"]
            if x.kind == "obj":
                x = self.as_row(n, x)
            if x.kind == "opaque":
                return x
            if x.kind == "row":
                ln = self.length_of(n, x)
                return ln if isinstance(ln, V) else self.draw(n, "rand_like", ("row", ln), None, None)
            if x.kind in ("rat", "nat"):
                return self.draw(n, "rand_like", "scalar", None, None)
            return self.bad(n, f"`{unparse(n)}`: rand_like of a value of kind {x.kind}")
        if mf in (("torch", "empty"), ("torch", "rand"), ("torch", "ones"), ("torch", "zeros"), ("np", "ones"), ("np", "zeros")):
            if not n.args or any(kw.arg not in IGNORED_KW for kw in n.keywords):
                return self.bad(n, f"`{unparse(n)}`")
            sh = self.ev(n.args[0], env) if len(n.args) == 1 else V("tuple", items=[self.ev(a, env) for a in n.args])
            sh = self.shape_of(n, sh)
            if sh.kind == "opaque":
                return sh
            if mf[1] == "empty":
                return V("uninit", dims=sh.dims)
            if mf[1] == "rand":
                return self.draw(n, "rand", sh.dims, None, None)
            c = "1" if mf[1] == "ones" else "0"
            if sh.dims == "scalar":
                return V("rat", N(f"({c} : Rat)"))
            if sh.dims[1] is None:
                return self.bad(n, f"`{unparse(n)}`: row of unknown length")
            return self.row_of_list(N(f"(List.replicate {{0}} ({c} : Rat))", [sh.dims[1]]))
        if mf == ("torch", "where"):
            a = self.args_of(n, ["condition", "input", "other"], env, 3)
            if a is None:
                return self.bad(n, f"`{unparse(n)}` (only the three-argument form)")
            c, x, y = a["condition"], a["input"], a["other"]
            o = self.first_opaque(c, x, y)
            if o:
                return o
            if c.kind == "bool" and x.kind != "row" and y.kind != "row":
                return self.ite(n, c, x, y)
            if c.kind == "row" and c.ety == "Bool":
                es = []
                for b in (x, y):
                    if self.rowish(b):
                        b = self.as_row(n, b)
                        if b.kind == "opaque" or b.ety != "Rat":
                            return b if b.kind == "opaque" else self.bad(n, "torch.where over non-numeric rows")
                        es.append(b.elem)
                    else:
                        b = self.as_rat(n, b)
                        if b.kind == "opaque":
                            return b
                        es.append(b.node)
                return V("row", elem=N("(if {0} then {1} else {2})", [c.elem] + es), ety="Rat")
            return self.bad(n, f"`{unparse(n)}`: torch.where over values of kind {c.kind}, {x.kind}, {y.kind}")
        if mf in (("torch", "clamp"), ("torch", "clip"), ("np", "clip")):
            names = ["input", "min", "max"] if mf[0] == "torch" else ["a", "a_min", "a_max"]
            a = self.args_of(n, names, env, 3)
            if a is None:
                return self.bad(n, f"`{unparse(n)}` (both bounds are needed)")
            x, lo, hi = (a[k] for k in names)
            return self.clip(n, x, lo, hi)
        if mf in (("torch", "max"), ("torch", "maximum"), ("np", "maximum"), ("torch", "min"), ("torch", "minimum"),
                  ("np", "minimum")):
            if len(n.args) != 2 or n.keywords:
                return self.bad(n, f"`{unparse(n)}` (only the two-operand entry-wise form)")
            return self.minmax(n, "max" if mf[1].startswith("max") else "min", self.ev(n.args[0], env), self.ev(n.args[1], env))
        if mf == ("np", "ma", "array"):
            a = self.args_of(n, ["data", "mask"], env, 2)
            if a is None:
                return self.bad(n, f"`{unparse(n)}` (only np.ma.array(data, mask=…))")
            d, m = a["data"], a["mask"]
            o = self.first_opaque(d, m)
            if o:
                return o
            d, m = self.as_row(n, d), self.as_row(n, m)
            o = self.first_opaque(d, m)
            if o:
                return o
            if d.ety != "Rat" or m.ety not in ("Rat", "Bool"):
                return self.bad(n, f"np.ma.array over rows of {d.ety} / {m.ety} entries")
            cond = N("({0} ≠ 0)", [m.elem]) if m.ety == "Rat" else m.elem
            return V("row", elem=N("(if {0} then none else some {1})", [cond, d.elem]), ety="MRat")
        if mf == ("random", "random") and not n.args and not n.keywords:
            return self.draw(n, "random_random", "scalar", None, None)
        if mf == ("np", "random", "uniform"):
            a = self.args_of(n, ["low", "high", "size"], env, 3)
            if a is None:
                return self.bad(n, f"`{unparse(n)}` (low, high and size are needed)")
            lo, hi, sh = self.as_rat(n, a["low"]), self.as_rat(n, a["high"]), self.shape_of(n, a["size"])
            o = self.first_opaque(lo, hi, sh)
            return o or self.draw(n, "np_random_uniform", sh.dims, lo.node, hi.node)
        if mf == ("np", "random", "randint"):
            a = self.args_of(n, ["low", "high", "size"], env, 3)
            if a is None:
                return self.bad(n, f"`{unparse(n)}` (low, high and size are needed)")
            lo, hi, sh = self.as_nat(n, a["low"]), self.as_nat(n, a["high"]), self.shape_of(n, a["size"])
            o = self.first_opaque(lo, hi, sh)
            if o:
                return o
            if sh.dims != "scalar":
                return self.bad(n, f"`{unparse(n)}`: integer draws per entry of a row")
            return self.draw(n, "np_random_randint", "scalar", lo.node, hi.node, nat=True)
        if mf == ("torch", "no_grad"):
            return V("none")
        return self.bad(n, f"call of `{'.'.join(mf)}`")

    def call_method(self, n, recv: V, m: str, env) -> V:
        if recv.kind == "obj":
            return self.call_obj(n, recv, m, env)
        if m in ID_METHODS and recv.kind in ("row", "rat", "nat", "bool"):
            self.assumed.add(f"`.{m}(…)` is the identity on a row")
            return recv
        if recv.kind == "uninit" and m == "uniform_" and not n.args and not n.keywords:
            return self.draw(n, "uniform_", recv.dims, None, None)
        if m in CMP_METHODS and len(n.args) == 1 and not n.keywords:
            return self.compare(n, CMP_METHODS[m], recv, self.ev(n.args[0], env))
        if recv.kind == "row":
            if m == "bool" and not n.args and not n.keywords:
                if recv.ety == "Bool":
                    return recv
                if recv.ety != "Rat":
                    return self.bad(n, f"`.bool()` of a row of {recv.ety} entries")
                return V("row", elem=N("(decide ({0} ≠ 0))", [recv.elem]), ety="Bool")
            if m == "masked_fill":
                a = self.args_of(n, ["mask", "value"], env, 2)
                if a is None:
                    return self.bad(n, f"`{unparse(n)}`")
                c, v = a["mask"], a["value"]
                o = self.first_opaque(c, v)
                if o:
                    return o
                if c.kind != "row" or c.ety != "Bool" or recv.ety != "Rat":
                    return self.bad(n, f"`{unparse(n)}`: masked_fill needs a numeric row and a row of Bool entries "
                                       f"(got {recv.ety}, {c.kind}{' of ' + c.ety if c.kind == 'row' else ''})")
                if v.kind == "neginf":
                    return V("row", elem=N("(if {0} then none else some {1})", [c.elem, recv.elem]), ety="MRat")
                v = self.as_rat(n, v)
                if v.kind == "opaque":
                    return v
                return V("row", elem=N("(if {0} then {1} else {2})", [c.elem, v.node, recv.elem]), ety="Rat")
            if m == "argmax":
                a = self.args_of(n, ["axis"], env, 0)
                if a is None:
                    a = self.args_of(n, ["dim"], env, 0)
                if a is None:
                    return self.bad(n, f"`{unparse(n)}`")
                return self.argmax(n, recv, next(iter(a.values()), None))
            if m in ("clip", "clamp"):
                a = self.args_of(n, ["min", "max"], env, 2)
                if a is None:
                    return self.bad(n, f"`{unparse(n)}` (both bounds are needed)")
                return self.clip(n, recv, a["min"], a["max"])
            if m == "any" and not n.args and not n.keywords and recv.ety == "Bool":
                lst = self.mat(n, recv)
                return lst if isinstance(lst, V) else V("bool", N("(List.any {0} (fun b => b))", [lst]))
            if m == "all" and not n.args and not n.keywords and recv.ety == "Bool":
                lst = self.mat(n, recv)
                return lst if isinstance(lst, V) else V("bool", N("(List.all {0} (fun b => b))", [lst]))
        return self.bad(n, f"method `.{m}(…)` of a value of kind {recv.kind} in `{unparse(n)}`")

    def call_obj(self, n, recv: V, m: str, env) -> V:
        known = self.known_ty(recv)
        if known in ("Row", "BRow") and m not in ("isinf",):
            return self.call_method(n, self.as_row(n, recv), m, env)
        if m in ID_METHODS:
            return recv
        if m == "size" and len(n.args) == 1 and isinstance(n.args[0], ast.Constant) and n.args[0].value == 0:
            return V("batch")
        if m == "isinf" and not n.args and not n.keywords:
            return self.force(n, sub_obj(recv, "isinf"), "BRow")
        if m in EFFECT_FREE:
            return V("none")
        if m in ("values", "keys", "items") and not n.args:
            return recv
        # a method of the class under translation
        if recv.path == self.self_path(env) and self.cls_of(env) is not None:
            fn = self.tr.method(self.cls_of(env), m)
            if fn is not None:
                if any(self.tr.dotted_static(c) in GAUSS for c in ast.walk(fn[1]) if isinstance(c, ast.Call)):
                    self.assumed.add(f"`self.{m}(…)` draws Gaussian noise: an input `{'_'.join(recv.path + [m])}` of arbitrary magnitude")
                    return V("obj", path=recv.path + [m], group=3)
                r = self.inline(n, fn[0], fn[1], recv, env)
                if r.kind == "opaque":          # usable as a pass-through (network argument, loop source) only
                    return V("obj", path=recv.path + [m, "out"], group=recv.group, why=r.why)
                return r
        if m in FOLLOW:
            fn = self.tr.method_anywhere(m)
            if fn is not None:
                return self.inline(n, fn[0], fn[1], recv, env)
        if m in ("clip", "clamp", "argmax", "masked_fill", "bool", "gt", "lt", "ge", "le"):
            return self.call_method(n, self.as_row(n, recv), m, env)
        # anything else reached from an object: a network output / opaque attribute, typed by use
        return sub_obj(recv, m, "out")

    def self_path(self, env):
        s = env.get("self")
        return s.path if s is not None and s.kind == "obj" else None

    def cls_of(self, env):
        c = env.get("@class")
        return c.c if c is not None else None

    # ------------------------------------------------------------------ inlining
    def inline(self, n: ast.Call, cls_name: str, fn: ast.FunctionDef, recv: V | None, env) -> V:
        if len(self.stack) > 6:
            raise Unsupported(f"{where(n)}: unsupported construct: calls nested deeper than 6 (`{unparse(n)}`)")
        static = any(isinstance(d, ast.Name) and d.id == "staticmethod" for d in fn.decorator_list)
        a = fn.args
        if a.vararg or a.kwarg or a.posonlyargs:
            return self.bad(n, f"signature of {fn.name}")
        pos = list(a.args)
        new_env: dict = {"@class": V("const", c=cls_name)}
        if not static:
            if not pos or recv is None:
                return self.bad(n, f"`{unparse(n)}`: method called without an object")
            new_env[pos[0].arg] = recv
            pos = pos[1:]
        names = [p.arg for p in pos]
        defaults = dict(zip(names[len(names) - len(a.defaults):], a.defaults)) if a.defaults else {}
        for p, d in zip(a.kwonlyargs, a.kw_defaults):
            names.append(p.arg)
            if d is not None:
                defaults[p.arg] = d
        if any(isinstance(x, ast.Starred) for x in n.args) or len(n.args) > len(pos) or any(kw.arg is None for kw in n.keywords):
            return self.bad(n, f"arguments of `{unparse(n)}`")
        bound = {k: self.ev(x, env) for k, x in zip(names, n.args)}
        for kw in n.keywords:
            if kw.arg not in names or kw.arg in bound:
                return self.bad(n, f"argument `{kw.arg}` of `{unparse(n)}`")
            bound[kw.arg] = self.ev(kw.value, env)
        for k in names:
            if k not in bound:
                if k not in defaults:
                    return self.bad(n, f"`{unparse(n)}`: parameter `{k}` of {fn.name} is not given")
                bound[k] = self.ev(defaults[k], {})
        new_env.update(bound)
        saved_file = _file[0]
        _file[0] = self.tr.file_of(cls_name)
        self.stack.append((saved_file, n.lineno, n.col_offset))
        try:
            return self.run(fn.body, new_env, lambda e: V("none"))
        finally:
            self.stack.pop()
            _file[0] = saved_file

    # ------------------------------------------------------------------ statements
    def poison(self, st, env, why: str):
        for x in ast.walk(st):
            if isinstance(x, (ast.Return, ast.Yield, ast.YieldFrom, ast.Await)):
                raise Unsupported(f"{where(x)}: unsupported construct: `{type(x).__name__.lower()}` inside `{unparse(st)}`")
        for x in ast.walk(st):
            if isinstance(x, ast.Name) and isinstance(x.ctx, (ast.Store, ast.Del)):
                env[x.id] = opaque(why)
            if isinstance(x, ast.Attribute) and isinstance(x.ctx, ast.Store) and isinstance(x.value, ast.Name):
                env[f"{x.value.id}.{x.attr}"] = opaque(why)

    def assign(self, st, tg, v: V, env) -> bool:
        """bind `tg` to `v`; False when the target is outside the subset"""
        if isinstance(tg, ast.Name):
            env[tg.id] = v
            return True
        if isinstance(tg, (ast.Tuple, ast.List)):
            k = len(tg.elts)
            if any(isinstance(e, ast.Starred) for e in tg.elts):
                return False
            if v.kind == "tuple" and len(v.items) == k:
                return all(self.assign(st, e, x, env) for e, x in zip(tg.elts, v.items))
            if v.kind == "obj":
                return all(self.assign(st, e, sub_obj(v, str(i)), env) for i, e in enumerate(tg.elts))
            if v.kind == "opaque":
                return all(self.assign(st, e, v, env) for e in tg.elts)
            return False
        if isinstance(tg, ast.Attribute) and isinstance(tg.value, ast.Name) and tg.value.id in env \
                and env[tg.value.id].kind == "obj":
            return True            # a store into an attribute: the translated definitions return values, not states
        return False

    def run(self, stmts, env, k) -> V:
        """execute `stmts`; `k(env)` is what happens after them; the value is what the function returns"""
        if not stmts:
            return k(env)
        st, rest = stmts[0], stmts[1:]

        def go(e):
            return self.run(rest, e, k)
        if is_docstring(st) or isinstance(st, ast.Pass):
            return go(env)
        if isinstance(st, ast.Assert):
            self.assumed.add("`assert`s hold")
            return go(env)
        if isinstance(st, ast.Return):
            return self.ev(st.value, env) if st.value is not None else V("none")
        if isinstance(st, ast.Assign):
            v = self.ev(st.value, env)
            env = dict(env)
            if self.loop_mode and len(st.targets) == 1 and isinstance(st.targets[0], ast.Subscript) \
                    and isinstance(st.targets[0].value, ast.Name) and env.get(st.targets[0].value.id, V("x")).kind == "dict":
                return v                                   # the per-agent result of a LOOP root
            for tg in st.targets:
                if not self.assign(st, tg, v, env):
                    self.poison(st, env, f"{where(st)}: unsupported construct: assignment `{unparse(st)}`")
            return go(env)
        if isinstance(st, ast.AnnAssign) and st.value is not None:
            env = dict(env)
            if not self.assign(st, st.target, self.ev(st.value, env), env):
                self.poison(st, env, f"{where(st)}: unsupported construct: assignment `{unparse(st)}`")
            return go(env)
        if isinstance(st, ast.AugAssign):
            env = dict(env)
            if isinstance(st.target, ast.Name) and type(st.op) in ARITH:
                old = self.ev(ast.copy_location(ast.Name(id=st.target.id, ctx=ast.Load()), st), env)
                env[st.target.id] = self.arith(st, ARITH[type(st.op)], old, self.ev(st.value, env))
            else:
                self.poison(st, env, f"{where(st)}: unsupported construct: in-place `{unparse(st)}`")
            return go(env)
        if isinstance(st, ast.Expr):
            if isinstance(st.value, ast.Call) and isinstance(st.value.func, ast.Attribute) and st.value.func.attr in EFFECT_FREE:
                r = self.ev(st.value.func.value, env)
                if r.kind == "obj":
                    self.assumed.add("`<net>.eval()` / `<net>.train(…)` do not change values")
                    return go(env)
            env = dict(env)
            self.poison(st, env, f"{where(st)}: unsupported construct: expression statement `{unparse(st)}`")
            return go(env)
        if isinstance(st, ast.With):
            if all(i.optional_vars is None and isinstance(i.context_expr, ast.Call) for i in st.items):
                self.assumed.add("`with …:` blocks (torch.no_grad(), <net>.no_sync()) do not change values")
                return self.run(list(st.body), env, go)
        if isinstance(st, ast.If):
            c = self.as_bool(st.test, self.ev(st.test, env))
            if c.kind == "bool" and c.node.text() in ("true", "false"):
                return self.run(list(st.body if c.node.text() == "true" else st.orelse), dict(env), go)
            e_then, e_else = dict(env), dict(env)
            if c.kind == "optnone":
                bound = self.row_of_list(N(c.opt.name, bound=True))
                (e_else if c.is_none else e_then)[c.opt.name] = bound
            # (a) neither branch returns and every local merges cleanly: continue ONCE with the merged locals
            x = self.run(list(st.body), dict(e_then), lambda e: V("fall", env=e))
            y = self.run(list(st.orelse), dict(e_else), lambda e: V("fall", env=e))
            if x.kind == "fall" and y.kind == "fall":
                merged = self.merge_envs(st, c, x.env, y.env)
                if merged is not None:
                    return go(merged)
            # (b) otherwise the rest of the block is the continuation of either branch
            x = self.run(list(st.body), e_then, go)
            y = self.run(list(st.orelse), e_else, go)
            return self.ite(st.test, c, x, y)
        if isinstance(st, ast.For) and self.loop_mode and self.loop_target(st) is not None:
            env = dict(env)
            for name, src in self.loop_target(st):
                v = self.ev(src, env) if src is not None else V("obj", path=[], group=1)
                if v.kind == "obj":
                    env[name] = sub_obj(v, "i")
                else:
                    env[name] = opaque(f"{where(st)}: unsupported construct: loop variable `{name}` over `{unparse(src)}`")
            self.assumed.add("the loop over the agents is translated for one agent `i` (its elements of the zipped lists)")
            return self.run(list(st.body), env, lambda e: opaque(
                f"{where(st)}: unsupported construct: the loop body stores no per-agent result `<dict>[key] = value`"))
        env = dict(env)
        self.poison(st, env, f"{where(st)}: unsupported construct: {type(st).__name__} statement `{unparse(st)}`")
        return go(env)

    def merge_envs(self, st, c: V, ex: dict, ey: dict):
        """the locals after `if c: … else: …` when both branches fall through; None when some local has values
        that do not merge into one (then the caller continues each branch separately)"""
        out = {}
        for k in dict.fromkeys(list(ex) + list(ey)):
            vx, vy = ex.get(k), ey.get(k)
            if vx is None or vy is None:
                out[k] = opaque(f"{where(st)}: unsupported construct: `{k}` is assigned in one branch of `if {unparse(st.test)}` only")
                continue
            if vx is vy:
                out[k] = vx
                continue
            m = self.ite(st.test, c, vx, vy)
            if m.kind == "opaque" and vx.kind != "opaque" and vy.kind != "opaque":
                return None
            out[k] = m
        return out

    @staticmethod
    def loop_target(st: ast.For):
        """[(loop variable, zipped source expression | None for the enumerate index)] of
        `for [idx,] (a, b, …) in [enumerate(]zip(A, B, …)[)]`"""
        it, tg = st.iter, st.target
        out = []

        def is_call(x, name):
            return isinstance(x, ast.Call) and isinstance(x.func, ast.Name) and x.func.id == name and not x.keywords
        if is_call(it, "enumerate") and len(it.args) == 1:
            if not (isinstance(tg, ast.Tuple) and len(tg.elts) == 2 and isinstance(tg.elts[0], ast.Name)):
                return None
            out.append((tg.elts[0].id, None))
            it, tg = it.args[0], tg.elts[1]
        if not is_call(it, "zip") or not isinstance(tg, ast.Tuple) or len(tg.elts) != len(it.args):
            return None
        for e, src in zip(tg.elts, it.args):
            if not isinstance(e, ast.Name):
                return None
            out.append((e.id, src))
        return out


# ---------------------------------------------------------------------------------------------- the translator
class Translator:
    def __init__(self, sources: dict[str, str]):
        self.mods = {}
        self.classes: dict[str, tuple[str, ast.ClassDef]] = {}
        for rel, src in sources.items():
            _file[0] = rel
            try:
                self.mods[rel] = ast.parse(src)
            except SyntaxError as e:
                raise Unsupported(f"{rel}:{e.lineno}: not parseable: {e.msg}") from e
            for c in self.mods[rel].body:
                if isinstance(c, ast.ClassDef):
                    self.classes.setdefault(c.name, (rel, c))

    def file_of(self, cls_name: str) -> str:
        return self.classes[cls_name][0]

    def method(self, cls_name: str, m: str):
        ent = self.classes.get(cls_name)
        if ent is None:
            return None
        fs = [f for f in ent[1].body if isinstance(f, ast.FunctionDef) and f.name == m]
        return (cls_name, fs[0]) if len(fs) == 1 else None

    def method_anywhere(self, m: str):
        """the one class of actors.py that defines `m`"""
        hits = [(name, f) for name, (rel, c) in self.classes.items() if rel == ACTORS
                for f in c.body if isinstance(f, ast.FunctionDef) and f.name == m]
        return hits[0] if len(hits) == 1 else None

    @staticmethod
    def dotted_static(c: ast.Call):
        parts, f = [], c.func
        while isinstance(f, ast.Attribute):
            parts.append(f.attr)
            f = f.value
        if isinstance(f, ast.Name) and f.id in ("torch", "np", "numpy", "random"):
            return tuple(["np" if f.id == "numpy" else f.id] + parts[::-1])
        return None

    def locate(self, rel: str, marker: str, root: str):
        hits = [c for c in self.mods[rel].body if isinstance(c, ast.ClassDef)
                and any(isinstance(f, ast.FunctionDef) and f.name == marker for f in c.body)]
        if len(hits) != 1:
            raise Unsupported(f"{rel}: expected exactly one top-level class defining `{marker}`, found {[c.name for c in hits]}")
        fn = self.method(hits[0].name, root)
        if fn is None or self.classes[hits[0].name][1] is not hits[0]:
            raise Unsupported(f"{rel}: class {hits[0].name} does not define exactly one `{root}`")
        return hits[0], fn[1]

    def translate_target(self, ns, rel, root, marker, mode, defname) -> tuple[list[str], set[str]]:
        _file[0] = rel
        cls, fn = self.locate(rel, marker, root)
        ex = Exec(self, rel, cls, ns)
        ex.loop_mode = mode == "loop"
        a = fn.args
        if a.vararg or a.kwarg or a.posonlyargs or not a.args or a.args[0].arg != "self":
            raise Unsupported(f"{where(fn)}: unsupported construct: signature of {fn.name}")
        env: dict = {"@class": V("const", c=cls.name), "self": V("obj", path=["self"], group=1)}
        pos = a.args[1:]
        defaults = [None] * (len(pos) - len(a.defaults)) + list(a.defaults)
        params = list(zip(pos, defaults)) + list(zip(a.kwonlyargs, a.kw_defaults))
        order: dict[str, int] = {}
        for i, (p, d) in enumerate(params):
            order[p.arg] = i
            if d is None:
                env[p.arg] = V("obj", path=[p.arg], group=0)
            elif isinstance(d, ast.Constant) and d.value is None:
                nd = ex.input(fn, p.arg, 0, "OptRow")
                env[p.arg] = V("opt", nd, name=p.arg)
            elif isinstance(d, ast.Constant) and type(d.value) is bool:
                env[p.arg] = V("bool", ex.input(fn, p.arg, 0, "Bool"))
            elif isinstance(d, ast.Constant) and type(d.value) in (int, float):
                env[p.arg] = V("rat", ex.input(fn, p.arg, 0, "Rat"))
            else:
                env[p.arg] = opaque(f"{where(fn)}: unsupported construct: default of parameter `{p.arg}` of {fn.name}")
        try:
            res = ex.run(list(fn.body), env, lambda e: V("none"))
        except RecursionError as e:
            raise Unsupported(f"{rel}: {fn.name}: expression too deep") from e
        if res.kind == "tuple" and res.items:
            ex.assumed.add(f"`{root}` returns a tuple: its first component is the action")
            res = res.items[0]
        if res.kind == "obj":
            if getattr(res, "why", None):
                raise Unsupported(res.why + f" [needed for the value of {cls.name}.{root}]")
            res = ex.as_row(fn, res)
        if res.kind == "opaque":
            raise Unsupported(res.why + f" [needed for the value of {cls.name}.{root}]")
        if res.kind == "row":
            if res.ety == "Bool":
                raise Unsupported(f"{rel}: {cls.name}.{root} yields a row of Bool entries")
            m = ex.mat(fn, res)
            if isinstance(m, V):
                raise Unsupported(m.why)
            node, lty = m, ("List Rat" if res.ety == "Rat" else "List (Option Rat)")
        elif res.kind in ("nat", "rat"):
            node, lty = res.node, ("Nat" if res.kind == "nat" else "Rat")
        else:
            raise Unsupported(f"{rel}: {cls.name}.{root} yields a value of kind {res.kind}")

        def sig(nodes: list[N]) -> str:
            seen: dict[str, Input] = {}
            for r in nodes:
                for x in walk(r):
                    if x.inp is not None:
                        seen[x.inp.name] = x.inp
            ins = sorted(seen.values(), key=lambda i: (i.group, order.get(i.name, 0) if i.group == 0 else 0, i.name))
            return "".join(f" ({i.name} : {LEAN_TY[i.ty]})" for i in ins)
        free_memo: dict = {}

        def free(x: N, memo=free_memo) -> frozenset:
            if id(x) in memo:
                return memo[id(x)]
            if x.bound:
                r = frozenset([x.fmt])
            else:
                r = frozenset()
                for i, k in enumerate(x.kids):
                    fk = free(k, memo)
                    if x.binds is not None and i == x.binds[0]:
                        fk = fk - x.binds[1]
                    r |= fk
            memo[id(x)] = r
            return r

        def hoist(root: N) -> tuple[list[tuple[str, N]], N]:
            """repeated closed sub-expressions become `let`s (innermost first)"""
            counts: dict[str, int] = {}
            for x in walk(root):
                if x.kids:
                    counts[x.text()] = counts.get(x.text(), 0) + 1
            names: dict[str, str] = {}
            lets: list[tuple[str, N]] = []

            def rw(x: N) -> N:
                if not x.kids:
                    return x
                t = x.text()
                if t in names:
                    return N(names[t])
                new = N(x.fmt, [rw(k) for k in x.kids], x.inp, x.base, x.ety, x.bound, x.binds)
                if counts.get(t, 0) >= 2 and len(t) >= 60 and not free(x) and not x.base:
                    names[t] = f"t{len(lets)}"
                    lets.append((names[t], new))
                    return N(names[t])
                return new
            return lets, rw(root)
        lets, body_node = hoist(node)
        what = {"entry": f"`{cls.name}.{root}`, one batch row: the action it returns",
                "loop": f"`{cls.name}.{root}`, one batch row of one agent `i`: the value the loop over the agents stores"}[mode]
        lines = [f"namespace {ns}", "", f"/-- {what} ({rel}) -/", f"def {defname}{sig([node])} : {lty} :="] + \
            [f"  let {nm} := {x.text()}" for nm, x in lets] + [f"  {body_node.text()}", ""]
        used = {x.inp.name for x in walk(node) if x.inp is not None}
        cons = [c for c in ex.contracts if c.kids[0].inp.name in used]
        if cons:
            lines += [f"/-- what torch / numpy / random promise about the draws `{defname}` reads "
                      "(ranges and lengths as written in the source) -/",
                      f"def {defname}_draws_ok{sig(cons)} : Prop :=", "  " + " ∧ ".join(c.text() for c in cons), ""]
        lines += [f"end {ns}", ""]
        return lines, ex.assumed


PRELUDE = """namespace ActionGen

/-- entry-wise operation on three / four rows (stops at the shortest) -/
def zw3 {α β γ δ : Type} (f : α → β → γ → δ) : List α → List β → List γ → List δ
  | a :: as, b :: bs, c :: cs => f a b c :: zw3 f as bs cs
  | _, _, _ => []
def zw4 {α β γ δ ε : Type} (f : α → β → γ → δ → ε) : List α → List β → List γ → List δ → List ε
  | a :: as, b :: bs, c :: cs, d :: ds => f a b c d :: zw4 f as bs cs ds
  | _, _, _, _ => []

/-- strict order on scores; `none` = masked = −∞ (`masked_fill(-inf)`, the fill of `numpy.ma` for argmax) -/
def oLt : Option Rat → Option Rat → Bool
  | none, some _ => true
  | some a, some b => decide (a < b)
  | _, none => false
def argmaxGo (best : Option Rat) (bi : Nat) (i : Nat) : List (Option Rat) → Nat
  | [] => bi
  | x :: xs => if oLt best x then argmaxGo x i (i + 1) xs else argmaxGo best bi (i + 1) xs
/-- `torch.argmax(dim=-1)` / `np.argmax(axis=-1)` of one row: index of the FIRST maximum; 0 for an empty row -/
def argmax : List (Option Rat) → Nat
  | [] => 0
  | x :: xs => argmaxGo x 0 1 xs
"""


# ----------------------------------------------------------------------------------------------
def repo_dir(arg: str | None) -> Path:
    if arg:
        return Path(arg)
    return Path(os.environ.get("VERIF_REPO", "/repo"))


def translate(repo: Path) -> tuple[str, str]:
    """returns (lean text, sha256 over all source files); raises Unsupported"""
    h = hashlib.sha256()
    sources: dict[str, str] = {}
    for rel in REL_SOURCES:
        path = Path(repo) / rel
        try:
            raw = path.read_bytes()
        except OSError as e:
            raise Unsupported(f"cannot read {path}: {e}") from e
        h.update(rel.encode() + b"\0" + raw + b"\0")
        try:
            sources[rel] = raw.decode("utf-8")
        except UnicodeDecodeError as e:
            raise Unsupported(f"{rel}: not utf-8: {e}") from e
    tr = Translator(sources)
    body: list[str] = PRELUDE.split("\n")
    assumed_all: set[str] = set()
    for t in TARGETS:
        lines, assumed = tr.translate_target(*t)
        body += lines
        assumed_all |= assumed
    sha = h.hexdigest()
    header = "\n".join([
        "/-",
        "  Gen/ActionGen.lean — GENERATED by harness/py2lean_action.py from the action-selection arithmetic of",
        "  " + REL_SOURCE + ";",
        "  do not edit.  Core Lean only.  Per batch row; entry-wise arithmetic fused into `List.map` / `List.zipWith` /",
        "  `zw3` / `zw4`; network outputs, attributes and random draws are named inputs.",
        "  `Proofs/ActionGenEq.lean` proves the definitions equal to their counterparts in `Model/Action.lean`.",
        "  Assumed (identities / inputs met in the source):",
    ] + [f"    * {a}" for a in sorted(assumed_all)] + [
        "-/",
        SHA_PREFIX + sha,
        "set_option linter.unusedVariables false",
        "",
    ])
    return header + "\n" + "\n".join(body).rstrip() + "\n\nend ActionGen\n", sha


def strip_sha(text: str) -> str:
    return "\n".join(ln for ln in text.split("\n") if not ln.startswith(SHA_PREFIX))


def write_if_changed(text: str, out: Path, force: bool = False) -> bool:
    """writes `text` unless the file already holds the same translation (sha line ignored)"""
    out = Path(out)
    old = out.read_text() if out.exists() else None
    if old is not None and not force and strip_sha(old) == strip_sha(text):
        return False
    if old == text:
        return False
    out.parent.mkdir(parents=True, exist_ok=True)
    tmp = out.with_suffix(".lean.tmp")
    tmp.write_text(text)
    os.replace(tmp, out)
    return True


def main(argv: list[str]) -> int:
    import argparse
    ap = argparse.ArgumentParser()
    ap.add_argument("--repo", default=None)
    ap.add_argument("--out", default=str(DEFAULT_OUT))
    ap.add_argument("--stdout", action="store_true")
    ap.add_argument("--force", action="store_true", help="rewrite even if only the sha256 line differs")
    a = ap.parse_args(argv)
    try:
        text, sha = translate(repo_dir(a.repo))
    except Unsupported as e:
        print(f"py2lean_action: {e}", file=sys.stderr)
        return 1
    if a.stdout:
        sys.stdout.write(text)
        return 0
    changed = write_if_changed(text, Path(a.out), a.force)
    print(f"{a.out}: {'written' if changed else 'unchanged'} (source sha256 {sha[:16]}…, "
          f"translation sha256 {hashlib.sha256(strip_sha(text).encode()).hexdigest()[:16]}…)")
    return 0


if __name__ == "__main__":
    sys.exit(main(sys.argv[1:]))
