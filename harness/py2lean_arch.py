#!/usr/bin/env python3
"""
py2lean_arch.py — translate the architecture-mutation METHODS of AgileRL's evolvable modules into Lean 4.

    python3 harness/py2lean_arch.py [--repo DIR] [--out FILE] [--stdout] [--force]

Reads the *source text* only (Python `ast`; agilerl is never imported) of

    agilerl/modules/mlp.py     EvolvableMLP.{add_layer, remove_layer, add_node, remove_node}
    agilerl/modules/cnn.py     MutableKernelSizes.{calc_max_kernel_sizes, add_layer, remove_layer, change_kernel_size}
                               EvolvableCNN.{add_layer, remove_layer, change_kernel, add_channel, remove_channel}
    agilerl/modules/lstm.py    EvolvableLSTM.{add_layer, remove_layer, add_node, remove_node}
    agilerl/modules/simba.py   EvolvableSimBa.{add_block, remove_block, add_node, remove_node}
    agilerl/modules/resnet.py  EvolvableResNet.{add_block, remove_block, add_channel, remove_channel}
    agilerl/networks/base.py   EvolvableNetwork.{add_latent_node, remove_latent_node}

and writes lean/Gen/ArchGen.lean (namespace ArchGen, core Lean only, imports nothing).
`Proofs/ArchGenEq.lean` proves the generated definitions equal to the hand-written state machines of
`Model/Arch.lean` (`MLP.step`, `CNN.step`, `LSTM.step`, `SimBa.step`, `ResNet.step`, `Latent.step`, with the
draw ranges of `Basic.drawsOK`), and `Props/C03.lean` restates the C03 theorems over the generated
definitions (`C03_source_translation_*`), so they are re-checked against what the code says now.

Shape of the output, per class `C`:
  * `structure C.State` — the architecture fields the translated methods read or write through
    `self.<field>`, in alphabetical order; Python ints are `Int`, lists of ints `List Int`, the list of
    advertised method names (`self.mutation_methods`) `List String`, a helper object its own `State`;
  * `C.mutationTypes : List (String × String)` — every `@mutation(MutationType.X)` method of the class with
    its kind `X`, sorted by name (the decorator must be exactly `@mutation(MutationType.X[, shrink_params=…])`);
  * one definition per method, callees first:
      `C.m (ext…) (s : C.State) (<keyword arguments>…) (d0 d1 … : Int) : Option (C.State × Ret × String)`
    for a `@mutation` method — `Ret = List (String × Int)` is the returned dict in source order (`[]` for
    `None`), the string is the name of the `@mutation` method entered last (what
    `MutationContext.__enter__` leaves in `last_mutation_attr`); `none` = an exception (IndexError,
    ValueError of a draw from an empty range) or a draw outside the range it is drawn from;
      `C.m (ext…) (s : C.State) (<positional arguments>…) (d…) : Option (C.State × T)` for a helper method
    (`T` = `Int`, `List Int` or `Unit`);
  * an argument annotated `Optional[int]` is an `Option Int`; `x is None` / `x is not None` is a `match`
    that narrows it;
  * every `np.random.randint(lo, hi[, 1])[0]` / `np.random.choice([c…], 1)[0]` becomes an explicit
    parameter `d<k>` guarded by `lo ≤ d ∧ d < hi` / `d ∈ [c…]` — the bounds and the literal choice list
    flow from the AST into the guard.  Numbering: the draws that replace an omitted keyword argument
    (`x = np.random…` for a parameter `x`) first, in the order of the signature; then the other draws and,
    at the position of the call, the draws of a called method, in source order;
  * `return self.other()` is a call of the translated `other` on the current state with its optional
    arguments `none` and its draws as parameters of the caller; `self.helper.m(args)` /
    `x = self.helper.m(args)` calls the translated helper method and rebinds the helper's state;
  * straight-line code in continuation-passing style: after `if c: A else: B` the rest of the method is
    emitted in both branches (a branch that returns drops it), so statement order, every branch
    condition, operator, constant and index expression appear as they are in the source; `a and b`,
    `a or b`, `not a` whose operands can raise (a subscript) become nested tests in evaluation order
    (short circuit), otherwise `∧ ∨ ¬`;
  * names: fields and keyword arguments keep their names; a local assigned by the k-th assignment
    statement of the method is `a<k>`, a subscript read `r<k>`, a rebound field `f<k>`, a narrowed optional
    `<name>_v` (a renamed local does not change the text).

Supported subset (anything else raises `Unsupported` naming the construct and its line):
  * statements: docstring, `x = e`, `x op= e`, `self.f = e`, `self.f op= e`, `self.f[i] = e`,
    `self.f[i] op= e` (op ∈ `+ -`; on lists `+` is concatenation), `if / elif / else`, `return`,
    `return {"k": e, …}`, `return e`, `return self.m()`, `self.obj.m(…)` as a statement,
    `while x > y [and <tests>]: x -= <positive int literal>` (x, y int locals): an auxiliary definition
    `C.m.while<k> … : Nat → Int → Option Int` by recursion on the fuel `(x - y).toNat` (the test fails at the
    latest when `x ≤ y` and every round lowers `x` by at least 1), the tests in evaluation order;
  * expressions: int literals, locals, `self.f`, `len(xs)`, `xs[i]` (negative indices count from the end,
    out of range = `none`), `xs[a:b]` with literal or absent bounds, `[e, …]`, `+ -` on ints, `+` on lists,
    `min(a, b)` / `max(a, b)` (two arguments, CPython's tie rule), `int(e)` on an int (identity),
    `a if c else b` with a static condition, comparisons `< <= > >= == !=` (chained), `and / or / not`,
    `x is None`, `x is not None`, `any(<comparison on v> for v in xs)`, `"name" in self.<list of names>`,
    `isinstance(x, (tuple, list))` for an `x` that is an int here (statically `False`), `self.p` for a
    `@property` whose body is `if <static test>: return e1` … `return e2` (inlined: `int_sizes` = `sizes`);
  * field types come from the annotation of the `__init__` parameter assigned to the field (`int`,
    `List[…]`, `Tuple[…]`), from a dataclass field annotation, from `self.f = HelperClass(…)`, or — for
    attributes not set from a constructor argument (`cnn_output_size`, `mutation_methods`) — from the one
    way they are used (`xs[a:b]` / `len` / subscript: list of ints; `"name" in xs`: list of names).

Assumptions (what is NOT translated):
  * the `@mutation` decorator / `MutationContext` / `recreate_network` — the decorator must be present
    and of the expected form; what it does (rebuild the network from the new fields, resolve
    `last_mutation_attr`) is the hand model + the correspondence run of harness/c03.py;
  * Python ints / numpy int64 are unbounded `Int`; lists are values (in-place `xs[i] += k` and
    `xs += [..]` rebind the field; aliasing with `init_dict` is not modelled);
  * kernel sizes are ints (the Conv2d integer path): `MutableKernelSizes.tuple_sizes` is the constant
    `False`, the branches under `if self.tuple_sizes:` are not translated (the generated file lists
    them), an explicit `kernel_size` is an int;
  * `agilerl.utils.evolvable_networks.calc_max_kernel_sizes` (float arithmetic over numpy) is an explicit
    function parameter `calc_max_kernel_sizes : List Int → List Int → List Int → List Int → List Int`, and the
    looping method `MutableKernelSizes._later_layers_fit` an explicit parameter
    `_later_layers_fit : MutableKernelSizes.State → Int → Int → List Int → List Int → Option Bool` (the object's
    state first; `none` = exception) — both are TRANSLATED by `py2lean_kernel.py` (`Gen/KernelGen.lean`) and the
    parameters are discharged in `Proofs/KernelGenEq.lean` (`gen_cnn_step_eq_kernel`);
    `self.cnn_output_size` (set by a forward pass in `create_cnn`) and `self.mutation_methods` are
    fields of the state: that they agree with the feature-map arithmetic of the model is a hypothesis of
    the equalities and is checked by the correspondence run;
  * a fallback call reaches an enabled method (the wrapper's no-op for disabled methods is outside).
The header carries the sha256 over all source files; `write_if_changed` compares everything *but* that
line, so an edit that leaves the translation unchanged does not touch the file.
"""
from __future__ import annotations

import ast
import hashlib
import os
import sys
from pathlib import Path

HERE = Path(__file__).resolve().parent
DEFAULT_OUT = HERE.parent / "lean" / "Gen" / "ArchGen.lean"
REL_SOURCES = (
    "agilerl/modules/mlp.py",
    "agilerl/modules/cnn.py",
    "agilerl/modules/lstm.py",
    "agilerl/modules/simba.py",
    "agilerl/modules/resnet.py",
    "agilerl/networks/base.py",
)
REL_SOURCE = "agilerl/modules/{mlp,cnn,lstm,simba,resnet}.py + agilerl/networks/base.py"   # messages only
SHA_PREFIX = "-- sha256(source) = "

# (file, class, methods in the order they are listed in the output, kind, static assumptions)
TARGETS = (
    (REL_SOURCES[0], "EvolvableMLP", ("add_layer", "remove_layer", "add_node", "remove_node"), "mutation", {}),
    (REL_SOURCES[1], "MutableKernelSizes",
     ("calc_max_kernel_sizes", "add_layer", "remove_layer", "change_kernel_size"), "helper", {"tuple_sizes": False}),
    (REL_SOURCES[1], "EvolvableCNN",
     ("add_layer", "remove_layer", "change_kernel", "add_channel", "remove_channel"), "mutation", {}),
    (REL_SOURCES[2], "EvolvableLSTM", ("add_layer", "remove_layer", "add_node", "remove_node"), "mutation", {}),
    (REL_SOURCES[3], "EvolvableSimBa", ("add_block", "remove_block", "add_node", "remove_node"), "mutation", {}),
    (REL_SOURCES[4], "EvolvableResNet", ("add_block", "remove_block", "add_channel", "remove_channel"), "mutation", {}),
    (REL_SOURCES[5], "EvolvableNetwork", ("add_latent_node", "remove_latent_node"), "mutation", {}),
)
# module-level functions that stay function parameters: name -> (argument types, result type)
EXTERNALS = {"calc_max_kernel_sizes": (("list", "list", "list", "list"), "list"),
             # a method with a loop (translated by py2lean_kernel.py): its object's state first, `none` = exception
             "_later_layers_fit": ((("obj", "MutableKernelSizes"), "int", "int", "list", "list"), "optbool")}
# methods `self.m(…)` of a helper class that stay function parameters (they take the object's state first)
EXT_METHODS = {"MutableKernelSizes": ("_later_layers_fit",)}
BOOL = "bool"

INT, LIST, OPTINT, STRLIST, NONE, UNIT, DICT = "int", "list", "optint", "strlist", "none", "unit", "dict"
CMPOPS = {ast.Eq: "=", ast.NotEq: "≠", ast.Lt: "<", ast.LtE: "≤", ast.Gt: ">", ast.GtE: "≥"}

_current_file = [REL_SOURCE]


class Unsupported(Exception):
    pass


def fail(node, what: str):
    line = getattr(node, "lineno", "?")
    raise Unsupported(f"{_current_file[0]}:{line}: unsupported construct: {what}")


def lean_ty(t) -> str:
    if t == INT:
        return "Int"
    if t == LIST:
        return "List Int"
    if t == OPTINT:
        return "Option Int"
    if t == STRLIST:
        return "List String"
    if t == UNIT:
        return "Unit"
    if t == DICT:
        return "Ret"
    if t == "optbool":
        return "Option Bool"
    if t == BOOL:
        return "Bool"
    if isinstance(t, tuple) and t[0] == "obj":
        return f"{t[1]}.State"
    raise Unsupported(f"{_current_file[0]}: no Lean type for {t!r}")


def atom(s: str) -> str:
    return s if (" " not in s or (s.startswith("(") and s.endswith(")")) or s.startswith("[")) else f"({s})"


def ind(lines: list[str], n: int = 2) -> list[str]:
    return [" " * n + ln for ln in lines]


def is_docstring(st) -> bool:
    return isinstance(st, ast.Expr) and isinstance(st.value, ast.Constant) and isinstance(st.value.value, str)


def self_attr(n) -> bool:
    return isinstance(n, ast.Attribute) and isinstance(n.value, ast.Name) and n.value.id == "self"


def np_random_call(n):
    """`np.random.<f>(…)` → f"""
    if isinstance(n, ast.Call) and isinstance(n.func, ast.Attribute) and isinstance(n.func.value, ast.Attribute) \
            and n.func.value.attr == "random" and isinstance(n.func.value.value, ast.Name) \
            and n.func.value.value.id in ("np", "numpy"):
        return n.func.attr
    return None


def int_lit(n: int) -> str:
    return str(n) if n >= 0 else f"({n})"


def ann_type(a, node, what: str):
    """type named by an annotation (kernel sizes: the integer path)"""
    def name_of(x):
        return x.id if isinstance(x, ast.Name) else x.attr if isinstance(x, ast.Attribute) else None

    def scalar(x) -> bool:
        if name_of(x) in ("int", "KernelSizeType"):
            return True
        # Union[int, Tuple[int, ...]]: the integer path
        return isinstance(x, ast.Subscript) and name_of(x.value) == "Union" and isinstance(x.slice, ast.Tuple) \
            and any(name_of(e) == "int" for e in x.slice.elts)
    if a is None:
        fail(node, f"{what} without a type annotation")
    if scalar(a):
        return INT
    if isinstance(a, ast.Subscript) and name_of(a.value) in ("List", "list", "Tuple", "tuple", "Sequence"):
        return LIST
    if isinstance(a, ast.Subscript) and name_of(a.value) == "Optional" and scalar(a.slice):
        return OPTINT
    fail(node, f"annotation `{ast.unparse(a)}` of {what}")


# ----------------------------------------------------------------------------------------------
class MethodInfo:
    def __init__(self, cls: "ClassInfo", fn: ast.FunctionDef):
        self.cls, self.fn, self.name = cls, fn, fn.name
        self.params: list[tuple[str, str]] = []
        self.ndraws = 0
        self.exts: list[str] = []
        self.ret_ty = None
        self.mutation_type: str | None = None
        self.lines: list[str] | None = None

    @property
    def lean_name(self) -> str:
        return f"{self.cls.name}.{self.name}"


class ClassInfo:
    def __init__(self, rel: str, node: ast.ClassDef, method_names, kind: str, assume: dict):
        self.rel, self.node, self.name, self.kind, self.assume = rel, node, node.name, kind, dict(assume)
        self.method_names = list(method_names)
        self.methods: dict[str, MethodInfo] = {}
        self.fields: dict[str, object] = {}
        self.field_src: dict[str, str] = {}
        self.skipped: list[str] = []            # notes about statically dead branches
        self.all_mutations: list[tuple[str, str]] = []

    def fn(self, name: str) -> ast.FunctionDef:
        found = [st for st in self.node.body if isinstance(st, ast.FunctionDef) and st.name == name]
        if len(found) != 1:
            raise Unsupported(f"{self.rel}: {len(found)} definitions of {self.name}.{name} (expected one)")
        return found[0]


class Translator:
    def __init__(self, sources: dict[str, str]):
        self.classes: dict[str, ClassInfo] = {}
        self.order: list[ClassInfo] = []
        mods = {}
        for rel, src in sources.items():
            _current_file[0] = rel
            try:
                mods[rel] = ast.parse(src)
            except SyntaxError as e:
                raise Unsupported(f"{rel}:{e.lineno}: not parseable: {e.msg}") from e
        for rel, cname, meths, kind, assume in TARGETS:
            _current_file[0] = rel
            found = [st for st in mods[rel].body if isinstance(st, ast.ClassDef) and st.name == cname]
            if len(found) != 1:
                raise Unsupported(f"{rel}: {len(found)} definitions of class {cname} (expected one)")
            ci = ClassInfo(rel, found[0], meths, kind, assume)
            self.classes[cname] = ci
            self.order.append(ci)

    # ------------------------------------------------------------------ decorators
    def mutation_decorator(self, ci: ClassInfo, fn: ast.FunctionDef):
        """`@mutation(MutationType.X[, shrink_params=<bool>])` → X; None if the method carries no `mutation`
        decorator (other decorators of methods that are not translated are not looked at)"""
        def is_mut(d):
            f = d.func if isinstance(d, ast.Call) else d
            return (isinstance(f, ast.Name) and f.id == "mutation") or (isinstance(f, ast.Attribute) and f.attr == "mutation")
        muts = [d for d in fn.decorator_list if is_mut(d)]
        if not muts:
            if fn.decorator_list and fn.name in ci.method_names:
                fail(fn, f"decorator `{ast.unparse(fn.decorator_list[0])}` on {ci.name}.{fn.name}")
            return None
        if len(fn.decorator_list) != 1:
            fail(fn, f"more than one decorator on {ci.name}.{fn.name}")
        d = fn.decorator_list[0]
        ok = isinstance(d, ast.Call) and isinstance(d.func, ast.Name) and d.func.id == "mutation" and len(d.args) == 1 \
            and isinstance(d.args[0], ast.Attribute) and isinstance(d.args[0].value, ast.Name) \
            and d.args[0].value.id == "MutationType" \
            and all(k.arg == "shrink_params" and isinstance(k.value, ast.Constant) and isinstance(k.value.value, bool)
                    for k in d.keywords)
        if not ok:
            fail(d, f"decorator `{ast.unparse(d)}` on {ci.name}.{fn.name} (expected @mutation(MutationType.X))")
        return d.args[0].attr

    # ------------------------------------------------------------------ fields
    def init_fn(self, ci: ClassInfo):
        found = [st for st in ci.node.body if isinstance(st, ast.FunctionDef) and st.name == "__init__"]
        return found[0] if len(found) == 1 else None

    def field_type(self, ci: ClassInfo, f: str, node):
        if f in ci.fields:
            return ci.fields[f]
        t = None
        if f in ci.assume:
            t = ("static", ci.assume[f])
        init = self.init_fn(ci)
        if t is None and init is not None:
            anns = {a.arg: a.annotation for a in init.args.args + init.args.kwonlyargs}
            hits = [st for st in ast.walk(init) if isinstance(st, ast.Assign) and len(st.targets) == 1
                    and self_attr(st.targets[0]) and st.targets[0].attr == f]
            if len(hits) == 1:
                v = hits[0].value
                if isinstance(v, ast.Name) and v.id in anns:
                    t = ann_type(anns[v.id], hits[0], f"constructor argument {v.id} of {ci.name}")
                elif isinstance(v, ast.Call) and isinstance(v.func, ast.Name) and v.func.id in self.classes:
                    t = ("obj", v.func.id)
            elif len(hits) > 1:
                fail(hits[1], f"self.{f} assigned more than once in {ci.name}.__init__")
        if t is None:
            decl = [st for st in ci.node.body if isinstance(st, ast.AnnAssign) and isinstance(st.target, ast.Name)
                    and st.target.id == f]
            if len(decl) == 1:
                t = ann_type(decl[0].annotation, decl[0], f"field {ci.name}.{f}")
        if t is None:
            t = self.field_type_by_use(ci, f, node)
        ci.fields[f] = t
        return t

    def field_type_by_use(self, ci: ClassInfo, f: str, node):
        """an attribute that is not a constructor argument: typed by the one way the translated methods use it"""
        seen = set()
        for m in ci.method_names:
            fn = ci.fn(m)
            parent = {}
            for p in ast.walk(fn):
                for c in ast.iter_child_nodes(p):
                    parent[id(c)] = p
            for n in ast.walk(fn):
                if not (self_attr(n) and n.attr == f):
                    continue
                p = parent.get(id(n))
                if isinstance(p, ast.Subscript) and p.value is n:
                    seen.add(LIST)
                elif isinstance(p, ast.Call) and isinstance(p.func, ast.Name) and p.func.id == "len":
                    seen.add(LIST)
                elif isinstance(p, ast.Compare) and len(p.ops) == 1 and isinstance(p.ops[0], (ast.In, ast.NotIn)) \
                        and p.comparators[0] is n and isinstance(p.left, ast.Constant) and isinstance(p.left.value, str):
                    seen.add(STRLIST)
                else:
                    seen.add(f"?{type(p).__name__}")
        if len(seen) != 1 or next(iter(seen)).startswith("?"):
            fail(node, f"self.{f}: not a constructor argument of {ci.name} and its type is not determined by its uses "
                       f"({sorted(seen)})")
        return next(iter(seen))

    # ------------------------------------------------------------------ module
    def call_graph(self, ci: ClassInfo) -> dict[str, list[str]]:
        g = {}
        for m in ci.method_names:
            calls = []
            for n in ast.walk(ci.fn(m)):
                if isinstance(n, ast.Call) and self_attr(n.func) and n.func.attr in ci.method_names \
                        and n.func.attr not in calls:
                    calls.append(n.func.attr)
            g[m] = calls
        return g

    def topo(self, ci: ClassInfo) -> list[str]:
        g, out, state = self.call_graph(ci), [], {}

        def visit(m, path):
            if state.get(m) == 2:
                return
            if state.get(m) == 1:
                fail(ci.fn(m), f"recursive calls among the methods {' → '.join(path + [m])}")
            state[m] = 1
            for c in g[m]:
                visit(c, path + [m])
            state[m] = 2
            out.append(m)
        for m in ci.method_names:
            visit(m, [])
        return out

    def run(self) -> str:
        out: list[str] = list(PRELUDE)
        for ci in self.order:
            _current_file[0] = ci.rel
            # all decorated methods of the class (kinds of the advertised methods)
            for st in ci.node.body:
                if isinstance(st, ast.FunctionDef):
                    k = self.mutation_decorator(ci, st)
                    if k is not None:
                        ci.all_mutations.append((st.name, k))
            defs: list[str] = []
            for m in self.topo(ci):
                fn = ci.fn(m)
                mi = MethodInfo(ci, fn)
                kind = self.mutation_decorator(ci, fn)
                if ci.kind == "mutation":
                    if kind is None:
                        fail(fn, f"{ci.name}.{m} is not decorated with @mutation(MutationType.X)")
                    mi.mutation_type = kind
                elif kind is not None:
                    fail(fn, f"decorator on the helper method {ci.name}.{m}")
                MethodCtx(self, ci, mi).translate()
                ci.methods[m] = mi
                defs += mi.lines + [""]
            out += self.emit_state(ci) + defs
        return "\n".join(out).rstrip() + "\n\nend ArchGen\n"

    def emit_state(self, ci: ClassInfo) -> list[str]:
        fields = sorted((f, t) for f, t in ci.fields.items() if not (isinstance(t, tuple) and t[0] == "static"))
        if not fields:
            fail(ci.node, f"the translated methods of {ci.name} use no field")
        lines = [f"/-! ## {ci.name}  ({ci.rel}) -/", ""]
        for f, t in ci.fields.items():
            if isinstance(t, tuple) and t[0] == "static":
                lines.append(f"-- assumption: `self.{f}` is the constant `{t[1]}` (integer kernel sizes)")
        for note in ci.skipped:
            lines.append(f"-- {note}")
        lines += [f"/-- the fields of `{ci.name}` the translated methods read or write -/",
                  f"structure {ci.name}.State where"]
        lines += [f"  {f} : {lean_ty(t)}" for f, t in fields]
        lines += ["deriving DecidableEq, Repr", ""]
        if ci.kind == "mutation":
            tbl = ", ".join(f'("{n}", "{k}")' for n, k in sorted(ci.all_mutations))
            lines += [f"/-- every `@mutation(MutationType.X)` method of `{ci.name}` with its kind, sorted by name -/",
                      f"def {ci.name}.mutationTypes : List (String × String) :=", f"  [{tbl}]", ""]
        return lines


PRELUDE = [
    "namespace ArchGen",
    "",
    "/-- the dict a mutation method returns, keys in source order (`[]` for `None`) -/",
    "abbrev Ret := List (String × Int)",
    "",
    "/-- Python's builtin `min(a, b)`: the first argument unless the second is strictly smaller -/",
    "def pyMin (a b : Int) : Int := if b < a then b else a",
    "",
    "/-- Python's builtin `max(a, b)`: the first argument unless the second is strictly larger -/",
    "def pyMax (a b : Int) : Int := if b > a then b else a",
    "",
    "/-- `xs[i]`: a negative index counts from the end; `none` = IndexError -/",
    "def pyGet (xs : List Int) (i : Int) : Option Int :=",
    "  if 0 ≤ i then xs[i.toNat]?",
    "  else if 0 ≤ (xs.length : Int) + i then xs[((xs.length : Int) + i).toNat]?",
    "  else none",
    "",
    "/-- `xs[i] = v` -/",
    "def pySet (xs : List Int) (i : Int) (v : Int) : Option (List Int) :=",
    "  if 0 ≤ i then (if i.toNat < xs.length then some (xs.set i.toNat v) else none)",
    "  else if 0 ≤ (xs.length : Int) + i then some (xs.set ((xs.length : Int) + i).toNat v)",
    "  else none",
    "",
    "/-- a slice bound clamped into `0 … n` -/",
    "def pyBound (n : Nat) (i : Int) : Nat := if i < 0 then ((n : Int) + i).toNat else min i.toNat n",
    "",
    "/-- `xs[lo:hi]` (step 1; an absent bound is `none`) -/",
    "def pySlice (xs : List Int) (lo hi : Option Int) : List Int :=",
    "  let a := match lo with | none => 0 | some i => pyBound xs.length i",
    "  let b := match hi with | none => xs.length | some i => pyBound xs.length i",
    "  (xs.take b).drop a",
    "",
]


# ----------------------------------------------------------------------------------------------
class Env:
    """one control-flow path: the Lean expression and type of every local, the current value of every field"""

    def __init__(self):
        self.loc: dict[str, tuple[str, object]] = {}
        self.base = "s"                          # the state the rebound fields are layered on
        self.fld: dict[str, str] = {}
        self.written: list[str] = []

    def copy(self) -> "Env":
        e = Env()
        e.loc, e.fld, e.written, e.base = dict(self.loc), dict(self.fld), list(self.written), self.base
        return e


class MethodCtx:
    def __init__(self, tr: Translator, ci: ClassInfo, mi: MethodInfo):
        self.tr, self.ci, self.mi, self.fn = tr, ci, mi, mi.fn
        self.node_names: dict[int, object] = {}     # id(ast node) -> name(s) given to it
        self.draws: list[str] = []
        self.exts: list[str] = []
        self.nread = 0
        self.nfld = 0
        self.ngen = 0
        self.nwhile = 0
        self.aux: list[str] = []                    # auxiliary definitions (while loops), emitted before the method
        self.while_cache: dict[int, tuple] = {}

    # ---------------- signature, numbering
    def signature(self):
        a = self.fn.args
        if a.vararg or a.kwarg or a.kwonlyargs or a.posonlyargs or not a.args or a.args[0].arg != "self":
            fail(self.fn, f"signature of {self.ci.name}.{self.fn.name}")
        ps = a.args[1:]
        defaults = [None] * (len(ps) - len(a.defaults)) + list(a.defaults)
        for p, d in zip(ps, defaults):
            t = ann_type(p.annotation, p, f"parameter {p.arg} of {self.ci.name}.{self.fn.name}")
            if d is not None and not (isinstance(d, ast.Constant) and d.value is None and t == OPTINT):
                fail(p, f"default value of parameter {p.arg} (only `Optional[int] = None`)")
            if self.mi.mutation_type is not None and t != OPTINT:
                fail(p, f"parameter {p.arg} of the mutation method {self.fn.name} is not `Optional[int] = None`")
            self.mi.params.append((p.arg, t))

    def number(self):
        """names of assignments / draws / call sites.  Assignments to locals are numbered in source order.
        Draws: a draw whose value is assigned to a keyword argument of the method (`hidden_layer = np.random…`
        after `if hidden_layer is None`) is numbered by the position of that argument in the signature, the
        other draws (and the draws of called methods, at the position of the call) follow in source order —
        so the parameter list does not depend on the order of independent statements."""
        nassign = 0
        pnames = [p for p, _ in self.mi.params]
        sites: list[tuple[tuple, ast.AST, int]] = []       # (sort key, node, number of draws)
        seq = 0

        def direct_draw(v):
            """the np.random call whose value the statement assigns, if the right-hand side is just that"""
            if isinstance(v, ast.Subscript) and np_random_call(v.value) is not None:
                return v.value
            if np_random_call(v) is not None:
                return v
            return None

        def visit(n, owner=None):
            nonlocal nassign, seq
            if isinstance(n, (ast.FunctionDef, ast.AsyncFunctionDef, ast.Lambda, ast.ClassDef)) and n is not self.fn:
                fail(n, "nested definition")
            if isinstance(n, (ast.Assign, ast.AugAssign)):
                tg = n.targets[0] if isinstance(n, ast.Assign) else n.target
                if isinstance(tg, ast.Name):
                    self.node_names[id(n)] = f"a{nassign}"
                    nassign += 1
                    if isinstance(n, ast.Assign) and tg.id in pnames and direct_draw(n.value) is not None:
                        owner = (direct_draw(n.value), pnames.index(tg.id))
            for c in ast.iter_child_nodes(n):
                visit(c, owner)
            # children first: the arguments of a call are evaluated before the call draws
            if np_random_call(n) is not None:
                key = (0, owner[1], seq) if owner is not None and owner[0] is n else (1, seq, 0)
                sites.append((key, n, 1))
                seq += 1
            elif isinstance(n, ast.Call):
                callee = self.callee(n)
                if callee is not None:
                    sites.append(((1, seq, 0), n, callee.ndraws))
                    seq += 1
                    for x in callee.exts:
                        if x not in self.exts:
                            self.exts.append(x)
                elif isinstance(n.func, ast.Name) and n.func.id in EXTERNALS:
                    if n.func.id not in self.exts:
                        self.exts.append(n.func.id)
                elif self.ext_method(n) is not None:
                    if n.func.attr not in self.exts:
                        self.exts.append(n.func.attr)
        for st in self.fn.body:
            visit(st)
        for _key, n, k in sorted(sites, key=lambda e: e[0]):
            names = []
            for _ in range(k):
                names.append(f"d{len(self.draws)}")
                self.draws.append(names[-1])
            self.node_names[id(n)] = names[0] if np_random_call(n) is not None else names

    def callee(self, n: ast.Call):
        """the translated method a call refers to: `self.m(…)` or `self.<obj field>.m(…)`"""
        f = n.func
        if self_attr(f) and f.attr in self.ci.method_names:
            if f.attr not in self.ci.methods:
                fail(n, f"call of {self.ci.name}.{f.attr} before its translation (recursion)")
            return self.ci.methods[f.attr]
        if isinstance(f, ast.Attribute) and self_attr(f.value):
            t = self.tr.field_type(self.ci, f.value.attr, n) if self.is_obj_field(f.value.attr) else None
            if t is not None:
                oc = self.tr.classes[t[1]]
                if f.attr not in oc.methods:
                    fail(n, f"call of {oc.name}.{f.attr}, which is not a translated method")
                return oc.methods[f.attr]
        return None

    def ext_method(self, n):
        """`self.m(…)` for a method `m` of this helper class that stays a function parameter"""
        if isinstance(n, ast.Call) and self_attr(n.func) and n.func.attr in EXT_METHODS.get(self.ci.name, ()):
            return n.func.attr
        return None

    def property_fn(self, name: str):
        for st in self.ci.node.body:
            if isinstance(st, ast.FunctionDef) and st.name == name and len(st.decorator_list) == 1 \
                    and isinstance(st.decorator_list[0], ast.Name) and st.decorator_list[0].id == "property":
                return st
        return None

    def inline_property(self, fn: ast.FunctionDef, env: Env, binds: list, top: bool):
        """`self.p` for a `@property` whose body is `if <static test>: return e1` … `return e2`"""
        body = [s for s in fn.body if not is_docstring(s)]
        while body:
            st = body[0]
            if isinstance(st, ast.Return) and st.value is not None:
                return self.ex(st.value, env, binds, top)
            if isinstance(st, ast.If):
                c = self.static_cond(st.test, env)
                if c is None:
                    fail(st, f"property {fn.name}: test that is not static")
                self.note_skipped(list(st.orelse if c else st.body), "else-branch" if c else "then-branch", st.test)
                body = list(st.body if c else st.orelse) + body[1:]
                continue
            fail(st, f"property {fn.name}: {type(st).__name__}")
        fail(fn, f"property {fn.name} without a return")

    def is_obj_field(self, f: str) -> bool:
        init = self.tr.init_fn(self.ci)
        if init is None:
            return False
        for st in ast.walk(init):
            if isinstance(st, ast.Assign) and len(st.targets) == 1 and self_attr(st.targets[0]) \
                    and st.targets[0].attr == f and isinstance(st.value, ast.Call) \
                    and isinstance(st.value.func, ast.Name) and st.value.func.id in self.tr.classes:
                return True
        return False

    # ---------------- state
    def field(self, env: Env, f: str, node) -> tuple[str, object]:
        t = self.tr.field_type(self.ci, f, node)
        if isinstance(t, tuple) and t[0] == "static":
            return ("True" if t[1] else "False"), ("static", t[1])
        if f not in env.fld:
            return f"{env.base}.{f}", t
        return env.fld[f], t

    def set_field(self, env: Env, f: str, ty, node) -> str:
        t = self.tr.field_type(self.ci, f, node)
        if t != ty:
            fail(node, f"self.{f} (a {t}) assigned a {ty}")
        nm = f"f{self.nfld}"
        self.nfld += 1
        env.fld[f] = nm
        if f not in env.written:
            env.written.append(f)
        return nm

    def state_expr(self, env: Env) -> str:
        if not env.written:
            return env.base
        return "{ " + env.base + " with " + ", ".join(f"{f} := {env.fld[f]}" for f in sorted(env.written)) + " }"

    # ---------------- expressions
    def ex(self, n, env: Env, binds: list, top: bool = False) -> tuple[str, object]:
        par = (lambda s: s) if top else (lambda s: f"({s})")
        if isinstance(n, ast.Constant):
            if type(n.value) is int:
                return int_lit(n.value), INT
            if n.value is None:
                return "none", NONE
            fail(n, f"constant {n.value!r}")
        if isinstance(n, ast.UnaryOp) and isinstance(n.op, ast.USub) and isinstance(n.operand, ast.Constant) \
                and type(n.operand.value) is int:
            return int_lit(-n.operand.value), INT
        if isinstance(n, ast.Name):
            if n.id not in env.loc:
                fail(n, f"name {n.id} (not a parameter or a local assigned before on this path)")
            return env.loc[n.id]
        if isinstance(n, ast.Attribute):
            if self_attr(n):
                prop = self.property_fn(n.attr)
                if prop is not None:
                    return self.inline_property(prop, env, binds, top)
                return self.field(env, n.attr, n)
            fail(n, f"attribute .{n.attr}")
        if isinstance(n, ast.List):
            parts = []
            for e in n.elts:
                t, ty = self.ex(e, env, binds, top=True)
                if ty != INT:
                    fail(e, f"list element of type {ty}")
                parts.append(t)
            return "[" + ", ".join(parts) + "]", LIST
        if isinstance(n, ast.BinOp):
            (a, ta), (b, tb) = self.ex(n.left, env, binds), self.ex(n.right, env, binds)
            if isinstance(n.op, ast.Add) and ta == LIST and tb == LIST:
                return par(f"{a} ++ {b}"), LIST
            if ta != INT or tb != INT:
                fail(n, f"operator {type(n.op).__name__} on ({ta}, {tb})")
            if isinstance(n.op, ast.Add):
                return par(f"{a} + {b}"), INT
            if isinstance(n.op, ast.Sub):
                return par(f"{a} - {b}"), INT
            fail(n, f"operator {type(n.op).__name__}")
        if isinstance(n, ast.IfExp):
            c = self.static_cond(n.test, env)
            if c is None:
                fail(n, "conditional expression whose condition is not static")
            self.note_skipped(n.orelse if c else n.body, "alternative", n.test)
            return self.ex(n.body if c else n.orelse, env, binds, top)
        if isinstance(n, ast.Subscript):
            return self.subscript(n, env, binds, par)
        if isinstance(n, ast.Call):
            return self.call(n, env, binds, par)
        fail(n, type(n).__name__)

    def slice_bound(self, b):
        if b is None:
            return "none"
        if isinstance(b, ast.Constant) and type(b.value) is int:
            return f"(some {int_lit(b.value)})"
        if isinstance(b, ast.UnaryOp) and isinstance(b.op, ast.USub) and isinstance(b.operand, ast.Constant) \
                and type(b.operand.value) is int:
            return f"(some {int_lit(-b.operand.value)})"
        fail(b, "slice bound that is not an integer literal")

    def subscript(self, n: ast.Subscript, env: Env, binds: list, par):
        # a draw: np.random.randint(lo, hi, 1)[0] / np.random.choice([..], 1)[0]
        if np_random_call(n.value) is not None:
            if not (isinstance(n.slice, ast.Constant) and n.slice.value == 0 and type(n.slice.value) is int):
                fail(n, "subscript of a draw other than [0]")
            return self.draw(n.value, env, binds, sized=True)
        v, tv = self.ex(n.value, env, binds)
        if tv != LIST:
            fail(n, f"subscript of a {tv}")
        if isinstance(n.slice, ast.Slice):
            if n.slice.step is not None:
                fail(n, "slice with a step")
            return par(f"pySlice {v} {self.slice_bound(n.slice.lower)} {self.slice_bound(n.slice.upper)}"), LIST
        i, ti = self.ex(n.slice, env, binds)
        if ti != INT:
            fail(n, f"list index of type {ti}")
        r = f"r{self.nread}"
        self.nread += 1
        binds.append(("match", r, f"pyGet {v} {i}"))
        return r, INT

    def draw(self, n: ast.Call, env: Env, binds: list, sized: bool):
        kind = np_random_call(n)
        d = self.node_names[id(n)]
        if n.keywords or any(isinstance(a, ast.Starred) for a in n.args):
            fail(n, f"np.random.{kind} with keyword / starred arguments")
        want = 3 if sized and kind == "randint" else 2
        if len(n.args) != want or (sized and not (isinstance(n.args[-1], ast.Constant) and n.args[-1].value == 1
                                                 and type(n.args[-1].value) is int)):
            fail(n, f"np.random.{kind} with other than {want - (1 if sized else 0)} argument(s)"
                    + (" and the size 1" if sized else ""))
        if kind == "randint":
            (lo, tl), (hi, th) = self.ex(n.args[0], env, binds), self.ex(n.args[1], env, binds)
            if tl != INT or th != INT:
                fail(n, "np.random.randint bounds that are not ints")
            binds.append(("guard", f"{lo} ≤ {d} ∧ {d} < {hi}"))
            return d, INT
        if kind == "choice":
            if not sized:
                fail(n, "np.random.choice without size 1 and [0]")
            lst = n.args[0]
            if not (isinstance(lst, ast.List) and lst.elts
                    and all(isinstance(e, ast.Constant) and type(e.value) is int for e in lst.elts)):
                fail(n, "np.random.choice from other than a literal list of ints")
            binds.append(("guard", f"{d} ∈ [" + ", ".join(f"({int_lit(e.value)} : Int)" if i == 0 else int_lit(e.value)
                                                          for i, e in enumerate(lst.elts)) + "]"))
            return d, INT
        fail(n, f"np.random.{kind}")

    def plain_args(self, n: ast.Call, k: int, what: str):
        if n.keywords or len(n.args) != k or any(isinstance(a, ast.Starred) for a in n.args):
            fail(n, f"{what} with other than {k} positional argument(s)")
        return n.args

    def call(self, n: ast.Call, env: Env, binds: list, par):
        f = n.func
        if np_random_call(n) is not None:
            return self.draw(n, env, binds, sized=False)
        if isinstance(f, ast.Name) and f.id in ("min", "max"):
            a, b = self.plain_args(n, 2, f.id)
            (ta, tya), (tb, tyb) = self.ex(a, env, binds), self.ex(b, env, binds)
            if tya != INT or tyb != INT:
                fail(n, f"{f.id} on ({tya}, {tyb})")
            return par(f"{'pyMin' if f.id == 'min' else 'pyMax'} {ta} {tb}"), INT
        if isinstance(f, ast.Name) and f.id == "int":
            a, = self.plain_args(n, 1, "int")
            t, ty = self.ex(a, env, binds, top=False)
            if ty != INT:
                fail(n, f"int(<{ty}>)")
            return t, INT
        if isinstance(f, ast.Name) and f.id == "len":
            a, = self.plain_args(n, 1, "len")
            t, ty = self.ex(a, env, binds)
            if ty != LIST:
                fail(n, f"len(<{ty}>)")
            return f"({t}.length : Int)", INT
        if isinstance(f, ast.Name) and f.id in EXTERNALS:
            tys, rt = EXTERNALS[f.id]
            args = self.plain_args(n, len(tys), f.id)
            parts = []
            for a, want in zip(args, tys):
                t, ty = self.ex(a, env, binds)
                if ty != want:
                    fail(a, f"argument of {f.id}: a {ty}, expected {want}")
                parts.append(t)
            return par(f"{f.id} " + " ".join(parts)), rt
        if self.ext_method(n) is not None:
            tys, rt = EXTERNALS[f.attr]
            args = self.plain_args(n, len(tys) - 1, f.attr)
            parts = [atom(self.state_expr(env))]
            for a, want in zip(args, tys[1:]):
                t, ty = self.ex(a, env, binds)
                if ty != want:
                    fail(a, f"argument of {f.attr}: a {ty}, expected {want}")
                parts.append(t)
            r = f"r{self.nread}"
            self.nread += 1
            binds.append(("match", r, f"{f.attr} " + " ".join(parts)))
            return r, BOOL
        callee = self.callee(n)
        if callee is not None:
            return self.method_call(n, callee, env, binds)
        fail(n, f"call of {ast.unparse(f)}")

    def method_call(self, n: ast.Call, callee: MethodInfo, env: Env, binds: list):
        """a helper method in an expression / statement: bind (new helper state, result)"""
        if callee.mutation_type is not None:
            fail(n, f"call of the mutation method {callee.name} other than `return self.{callee.name}()`")
        args = self.call_args(n, callee, env, binds)
        own = self_attr(n.func)                      # self.m(...) inside the helper class itself
        if own:
            st = self.state_expr(env)
        else:
            st, _ = self.field(env, n.func.value.attr, n)
        r = f"r{self.nread}"
        self.nread += 1
        ext = "".join(f" {x}" for x in callee.exts)
        draws = "".join(f" {d}" for d in self.node_names[id(n)])
        binds.append(("call", r, f"{callee.lean_name}{ext} {atom(st)}{args}{draws}", own, None if own else n.func.value.attr,
                      callee.cls.name))
        # the helper's new state
        if own:
            # this object's state is from now on the one the callee returned
            env.base, env.fld, env.written = f"{r}.1", {}, []
        else:
            fobj = n.func.value.attr
            env.fld[fobj] = f"{r}.1"
            if fobj not in env.written:
                env.written.append(fobj)
        return f"{r}.2", callee.ret_ty

    def call_args(self, n: ast.Call, callee: MethodInfo, env: Env, binds: list) -> str:
        if n.keywords or any(isinstance(a, ast.Starred) for a in n.args) or len(n.args) > len(callee.params):
            fail(n, f"call of {callee.name} with keyword / starred / too many arguments")
        out = ""
        for i, (pname, pty) in enumerate(callee.params):
            if i < len(n.args):
                t, ty = self.ex(n.args[i], env, binds)
                if ty == pty:
                    out += f" {t}"
                elif pty == OPTINT and ty == INT:
                    out += f" (some {t})"
                elif pty == OPTINT and ty == NONE:
                    out += " none"
                else:
                    fail(n.args[i], f"argument {pname} of {callee.name}: a {ty}, expected {pty}")
            elif pty == OPTINT:
                out += " none"
            else:
                fail(n, f"call of {callee.name} without its argument {pname}")
        return out

    # ---------------- conditions
    def static_cond(self, t, env: Env):
        """True / False if the test is decided by the assumptions and the types on this path, else None"""
        if self_attr(t):
            ty = self.tr.field_type(self.ci, t.attr, t)
            if isinstance(ty, tuple) and ty[0] == "static":
                return bool(ty[1])
            return None
        if isinstance(t, ast.Call) and isinstance(t.func, ast.Name) and t.func.id == "isinstance" and len(t.args) == 2 \
                and not t.keywords and isinstance(t.args[0], ast.Name):
            cls = t.args[1]
            names = [e.id for e in cls.elts] if isinstance(cls, ast.Tuple) and all(isinstance(e, ast.Name) for e in cls.elts) \
                else [cls.id] if isinstance(cls, ast.Name) else None
            if names is None or not set(names) <= {"tuple", "list"}:
                fail(t, f"isinstance against `{ast.unparse(cls)}`")
            ty = env.loc.get(t.args[0].id, (None, None))[1]
            if ty == INT:
                return False
            fail(t, f"isinstance of {t.args[0].id}, which is a {ty} here")
        if isinstance(t, ast.Compare) and len(t.ops) == 1 and isinstance(t.ops[0], (ast.Is, ast.IsNot)) \
                and isinstance(t.comparators[0], ast.Constant) and t.comparators[0].value is None \
                and isinstance(t.left, ast.Name):
            ty = env.loc.get(t.left.id, (None, None))[1]
            if ty == INT:
                return isinstance(t.ops[0], ast.IsNot)
            if ty == NONE:
                return isinstance(t.ops[0], ast.Is)
        return None

    def note_skipped(self, dead, what: str, test=None):
        nodes = dead if isinstance(dead, list) else [dead]
        if not nodes:
            return
        under = f" of `{ast.unparse(test)[:60]}`" if test is not None else ""
        first = ast.unparse(nodes[0]).split("\n")[0][:60]
        note = f"not translated ({what}{under} dead under the assumptions): {self.ci.name}.{self.fn.name}, " \
               f"{len(nodes)} statement(s) / expression(s) starting `{first}`"
        if note not in self.ci.skipped:
            self.ci.skipped.append(note)

    def pure_prop(self, t, env: Env, binds: list) -> str:
        """a test as a Lean proposition; subscripts / draws inside go to `binds`"""
        if isinstance(t, ast.BoolOp):
            op = " ∧ " if isinstance(t.op, ast.And) else " ∨ "
            return "(" + op.join(self.pure_prop(v, env, binds) for v in t.values) + ")"
        if isinstance(t, ast.UnaryOp) and isinstance(t.op, ast.Not):
            return f"(¬ {self.pure_prop(t.operand, env, binds)})"
        if isinstance(t, ast.Compare):
            if len(t.ops) == 1 and isinstance(t.ops[0], (ast.In, ast.NotIn)):
                if not (isinstance(t.left, ast.Constant) and isinstance(t.left.value, str)):
                    fail(t, "`in` whose left side is not a string literal")
                if '"' in t.left.value or "\\" in t.left.value:
                    fail(t, "string literal with quote / backslash")
                xs, ty = self.ex(t.comparators[0], env, binds)
                if ty != STRLIST:
                    fail(t, f"`in` on a {ty}")
                p = f'"{t.left.value}" ∈ {xs}'
                return f"({p})" if isinstance(t.ops[0], ast.In) else f"(¬ {p})"
            parts, (ltxt, lt) = [], self.ex(t.left, env, binds)
            for o, r in zip(t.ops, t.comparators):
                op = CMPOPS.get(type(o)) or fail(t, f"comparison {type(o).__name__}")
                rtxt, rt = self.ex(r, env, binds)
                if lt != INT or rt != INT:
                    fail(t, f"comparison of ({lt}, {rt})")
                parts.append(f"{ltxt} {op} {rtxt}")
                ltxt, lt = rtxt, rt
            return parts[0] if len(parts) == 1 else "(" + " ∧ ".join(parts) + ")"
        if self.ext_method(t) is not None:
            r, ty = self.ex(t, env, binds)
            if ty != BOOL:
                fail(t, f"test on a {ty}")
            return f"{r} = true"
        if isinstance(t, ast.Call) and isinstance(t.func, ast.Name) and t.func.id in ("any", "all"):
            a, = self.plain_args(t, 1, t.func.id)
            if not (isinstance(a, ast.GeneratorExp) and len(a.generators) == 1 and not a.generators[0].ifs
                    and not a.generators[0].is_async and isinstance(a.generators[0].target, ast.Name)):
                fail(t, f"{t.func.id}(…) of other than a single `for v in xs` generator")
            g = a.generators[0]
            xs, ty = self.ex(g.iter, env, binds)
            if ty != LIST:
                fail(t, f"{t.func.id} over a {ty}")
            v = f"g{self.ngen}"
            self.ngen += 1
            inner = env.copy()
            inner.loc[g.target.id] = (v, INT)
            ib: list = []
            body = self.pure_prop(a.elt, inner, ib)
            if ib:
                fail(a.elt, "subscript / draw inside a generator expression")
            return f"({xs}.{t.func.id} (fun {v} => decide ({body})) = true)"
        fail(t, f"test `{ast.unparse(t)}`")

    def cond(self, t, env: Env, then_k, else_k) -> list[str]:
        """`if t` in continuation-passing style; then_k / else_k take the environment of their path"""
        c = self.static_cond(t, env)
        if c is not None:
            return then_k(env) if c else else_k(env)
        if isinstance(t, ast.Compare) and len(t.ops) == 1 and isinstance(t.ops[0], (ast.Is, ast.IsNot)) \
                and isinstance(t.comparators[0], ast.Constant) and t.comparators[0].value is None:
            if not isinstance(t.left, ast.Name) or t.left.id not in env.loc:
                fail(t, "`is None` on other than a parameter / local")
            lean, ty = env.loc[t.left.id]
            if ty != OPTINT:
                fail(t, f"`is None` on {t.left.id}, which is a {ty} here")
            e_none, e_some = env.copy(), env.copy()
            e_none.loc[t.left.id] = ("none", NONE)
            nv = f"{t.left.id}_v"
            e_some.loc[t.left.id] = (nv, INT)
            is_none = isinstance(t.ops[0], ast.Is)
            a = (then_k if is_none else else_k)(e_none)
            b = (else_k if is_none else then_k)(e_some)
            return [f"match {lean} with", "| none =>"] + ind(a) + [f"| some {nv} =>"] + ind(b)
        if isinstance(t, ast.UnaryOp) and isinstance(t.op, ast.Not) and self.needs_binds(t.operand, env):
            return self.cond(t.operand, env, else_k, then_k)
        if isinstance(t, ast.BoolOp) and self.needs_binds(t, env):
            first, rest = t.values[0], t.values[1:]
            tail = rest[0] if len(rest) == 1 else ast.copy_location(ast.BoolOp(op=t.op, values=rest), rest[0])
            if isinstance(t.op, ast.And):
                return self.cond(first, env, lambda e: self.cond(tail, e, then_k, else_k), else_k)
            return self.cond(first, env, then_k, lambda e: self.cond(tail, e, then_k, else_k))
        binds: list = []
        p = self.pure_prop(t, env, binds)
        if p.startswith("(") and p.endswith(")") and self.balanced(p[1:-1]):
            p = p[1:-1]
        e1, e2 = env.copy(), env.copy()
        return self.wrap(binds, [f"if {p} then"] + ind(then_k(e1)) + ["else"] + ind(else_k(e2)))

    @staticmethod
    def balanced(s: str) -> bool:
        d = 0
        for ch in s:
            d += ch == "("
            d -= ch == ")"
            if d < 0:
                return False
        return d == 0

    def needs_binds(self, t, env: Env) -> bool:
        for n in ast.walk(t):
            if isinstance(n, ast.Subscript) and not isinstance(n.slice, ast.Slice):
                return True
            if isinstance(n, ast.Call) and (np_random_call(n) is not None or self.callee(n) is not None
                                            or self.ext_method(n) is not None):
                return True
        return False

    def wrap(self, binds: list, lines: list[str]) -> list[str]:
        for b in reversed(binds):
            if b[0] == "match":
                lines = [f"match {b[2]} with", "| none => none", f"| some {b[1]} =>"] + ind(lines)
            elif b[0] == "call":
                lines = [f"match {b[2]} with", "| none => none", f"| some {b[1]} =>"] + ind(lines)
            else:
                lines = [f"if {b[1]} then"] + ind(lines) + ["else none"]
        return lines

    # ---------------- statements
    def block(self, stmts, env: Env, k) -> list[str]:
        """translate `stmts` on the path `env`; `k(env)` = what follows"""
        if not stmts:
            return k(env)
        st, rest = stmts[0], stmts[1:]
        cont = lambda e: self.block(rest, e, k)          # noqa: E731
        if is_docstring(st):
            return cont(env)
        if isinstance(st, ast.If):
            c = self.static_cond(st.test, env)
            if c is not None and not isinstance(st.test, ast.Compare):
                self.note_skipped(list(st.orelse if c else st.body), "else-branch" if c else "then-branch", st.test)
            return self.cond(st.test, env,
                             lambda e: self.block(st.body, e, cont),
                             lambda e: self.block(st.orelse, e, cont))
        if isinstance(st, ast.Return):
            if rest:
                fail(rest[0], "statement after return")
            return self.ret(st, env)
        if isinstance(st, ast.While):
            return self.while_loop(st, env, cont)
        if isinstance(st, ast.Expr):
            if isinstance(st.value, ast.Call) and self.callee(st.value) is not None:
                binds: list = []
                self.ex(st.value, env, binds, top=True)
                return self.wrap(binds, cont(env))
            fail(st, f"expression statement `{ast.unparse(st.value)[:80]}`")
        if isinstance(st, ast.AugAssign):
            if not isinstance(st.op, (ast.Add, ast.Sub)):
                fail(st, f"augmented assignment with {type(st.op).__name__}")
            tg = st.target
            load = ast.copy_location(
                ast.Name(id=tg.id, ctx=ast.Load()) if isinstance(tg, ast.Name)
                else ast.Attribute(value=tg.value, attr=tg.attr, ctx=ast.Load()) if isinstance(tg, ast.Attribute)
                else ast.Subscript(value=tg.value, slice=tg.slice, ctx=ast.Load()) if isinstance(tg, ast.Subscript)
                else fail(st, "augmented assignment target"), st)
            new = ast.copy_location(ast.Assign(targets=[tg], value=ast.copy_location(
                ast.BinOp(left=load, op=st.op, right=st.value), st)), st)
            if id(st) in self.node_names:
                self.node_names[id(new)] = self.node_names[id(st)]
            st = new
        if isinstance(st, ast.Assign):
            if len(st.targets) != 1:
                fail(st, "chained assignment")
            tg = st.targets[0]
            binds = []
            if isinstance(tg, ast.Name):
                if tg.id == "self":
                    fail(st, "assignment to self")
                txt, ty = self.ex(st.value, env, binds, top=True)
                if ty not in (INT, LIST):
                    fail(st, f"local {tg.id} assigned a {ty}")
                nm = self.node_names[id(st)]
                env.loc[tg.id] = (nm, ty)
                return self.wrap(binds, [f"let {nm} : {lean_ty(ty)} := {txt}"] + cont(env))
            if self_attr(tg):
                txt, ty = self.ex(st.value, env, binds, top=True)
                nm = self.set_field(env, tg.attr, ty, st)
                return self.wrap(binds, [f"let {nm} : {lean_ty(ty)} := {txt}"] + cont(env))
            if isinstance(tg, ast.Subscript) and self_attr(tg.value) and not isinstance(tg.slice, ast.Slice):
                # Python: container and index first, then the value, then the store
                xs, tx = self.field(env, tg.value.attr, tg)
                if tx != LIST:
                    fail(st, f"item assignment to self.{tg.value.attr}, a {tx}")
                i, ti = self.ex(tg.slice, env, binds)
                if ti != INT:
                    fail(st, f"list index of type {ti}")
                txt, ty = self.ex(st.value, env, binds)
                if ty != INT:
                    fail(st, f"list item assigned a {ty}")
                nm = self.set_field(env, tg.value.attr, LIST, st)
                binds.append(("match", nm, f"pySet {xs} {i} {txt}"))
                return self.wrap(binds, cont(env))
            fail(st, f"assignment target `{ast.unparse(tg)}`")
        fail(st, type(st).__name__)

    def while_loop(self, st: ast.While, env: Env, cont) -> list[str]:
        """`while x > y [and …]: x -= c` (c a positive literal): an auxiliary definition by recursion on the fuel
        `(x - y).toNat` (the test fails at the latest when `x ≤ y`, and every round lowers `x` by at least 1)"""
        if st.orelse:
            fail(st, "while … else")
        first = st.test.values[0] if isinstance(st.test, ast.BoolOp) and isinstance(st.test.op, ast.And) else st.test
        if not (isinstance(first, ast.Compare) and len(first.ops) == 1 and isinstance(first.ops[0], ast.Gt)
                and isinstance(first.left, ast.Name) and isinstance(first.comparators[0], ast.Name)):
            fail(st, "while loop whose test does not start with `x > y` (x, y locals)")
        x, y = first.left.id, first.comparators[0].id
        if not (len(st.body) == 1 and isinstance(st.body[0], ast.AugAssign) and isinstance(st.body[0].op, ast.Sub)
                and isinstance(st.body[0].target, ast.Name) and st.body[0].target.id == x and x != y
                and isinstance(st.body[0].value, ast.Constant) and type(st.body[0].value.value) is int
                and st.body[0].value.value >= 1):
            fail(st, f"while loop whose body is not exactly `{x} -= <positive int literal>`")
        step = st.body[0].value.value
        for v in (x, y):
            if env.loc.get(v, (None, None))[1] != INT:
                fail(st, f"while loop over `{v}`, which is not an int local here")
        used = []
        for n in ast.walk(st.test):
            if isinstance(n, ast.Name) and n.id != x and n.id not in used and n.id != "self":
                if n.id not in env.loc:
                    fail(n, f"name {n.id} (not a parameter or a local assigned before on this path)")
                if env.loc[n.id][1] not in (INT, LIST):
                    fail(n, f"while test reads {n.id}, a {env.loc[n.id][1]}")
                used.append(n.id)
        params = [(env.loc[v][0], env.loc[v][1]) for v in used]
        ext_decl = "".join(f" ({e} : {' → '.join(atom(lean_ty(t)) for t in EXTERNALS[e][0] + (EXTERNALS[e][1],))})"
                           for e in self.exts)
        ext_use = "".join(f" {e}" for e in self.exts)
        key = tuple(params)
        if id(st) in self.while_cache and self.while_cache[id(st)][1] == key:
            name = self.while_cache[id(st)][0]
        else:
            name = f"{self.mi.lean_name}.while{self.nwhile}"
            self.nwhile += 1
            self.while_cache[id(st)] = (name, key)
            inner = Env()
            for v in used:
                inner.loc[v] = env.loc[v]
            inner.loc[x] = ("w", INT)
            pdecl = "".join(f" ({p} : {lean_ty(t)})" for p, t in params)
            puse = "".join(f" {p}" for p, _ in params)
            again = [f"{name}{ext_use} s{puse} n (w - {step})"]
            body = self.cond(st.test, inner, lambda e: again, lambda e: ["some w"])
            self.aux += [
                f"/-- the `while` loop of `{self.ci.name}.{self.fn.name}` (line {st.lineno}): `w` = `{x}`, fuel `n`; "
                f"`none` = exception -/",
                f"def {name}{ext_decl} (s : {self.ci.name}.State){pdecl} : Nat → Int → Option Int",
                "  | 0, w => some w",
                "  | n + 1, w =>",
            ] + ind(body, 4) + [""]
        puse = "".join(f" {p}" for p, _ in params)
        xl, yl = env.loc[x][0], env.loc[y][0]
        nm = f"l{self.nwhile_res()}"
        st_txt = atom(self.state_expr(env))
        env.loc[x] = (nm, INT)
        return [f"match {name}{ext_use} {st_txt}{puse} ({xl} - {yl}).toNat {xl} with", "| none => none",
                f"| some {nm} =>"] + ind(cont(env))

    def nwhile_res(self) -> int:
        self._nres = getattr(self, "_nres", -1) + 1
        return self._nres

    def result(self, env: Env, txt: str) -> str:
        if self.mi.mutation_type is not None:
            return f'some ({self.state_expr(env)}, {txt}, "{self.fn.name}")'
        return f"some ({self.state_expr(env)}, {txt})"

    def set_ret(self, node, ty):
        if self.mi.ret_ty is not None and self.mi.ret_ty != ty:
            fail(node, f"returns of different types ({self.mi.ret_ty}, {ty})")
        self.mi.ret_ty = ty

    def ret(self, st: ast.Return, env: Env) -> list[str]:
        v = st.value
        mutation = self.mi.mutation_type is not None
        if v is None or (isinstance(v, ast.Constant) and v.value is None):
            self.set_ret(st, DICT if mutation else UNIT)
            return [self.result(env, "[]" if mutation else "()")]
        if isinstance(v, ast.Call) and self.callee(v) is not None and self.callee(v).mutation_type is not None:
            callee = self.callee(v)
            if not mutation or callee.cls is not self.ci:
                fail(st, f"call of the mutation method {callee.name} from a helper / another class")
            binds: list = []
            args = self.call_args(v, callee, env, binds)
            if binds:
                fail(st, "subscript / draw in the arguments of a fallback call")
            self.set_ret(st, DICT)
            ext = "".join(f" {x}" for x in callee.exts)
            draws = "".join(f" {d}" for d in self.node_names[id(v)])
            return [f"{callee.lean_name}{ext} {atom(self.state_expr(env))}{args}{draws}"]
        binds = []
        if isinstance(v, ast.Dict):
            if not mutation:
                fail(st, "dict returned by a helper method")
            items = []
            for kk, vv in zip(v.keys, v.values):
                if not (isinstance(kk, ast.Constant) and isinstance(kk.value, str)) or '"' in kk.value or "\\" in kk.value:
                    fail(st, "dict key that is not a plain string literal")
                t, ty = self.ex(vv, env, binds, top=True)
                if ty != INT:
                    fail(vv, f"dict value of type {ty} (key {kk.value!r})")
                items.append(f'("{kk.value}", {t})')
            self.set_ret(st, DICT)
            return self.wrap(binds, [self.result(env, "[" + ", ".join(items) + "]")])
        if mutation:
            fail(st, f"mutation method returning `{ast.unparse(v)}` (expected a dict literal, None or a fallback call)")
        txt, ty = self.ex(v, env, binds, top=True)
        if ty not in (INT, LIST):
            fail(st, f"helper method returning a {ty}")
        self.set_ret(st, ty)
        return self.wrap(binds, [self.result(env, txt)])

    # ---------------- the definition
    def translate(self):
        self.signature()
        self.number()
        mutation = self.mi.mutation_type is not None
        env = Env()
        for p, t in self.mi.params:
            env.loc[p] = (p, t)

        def end(e: Env) -> list[str]:
            self.set_ret(self.fn, DICT if mutation else UNIT)
            return [self.result(e, "[]" if mutation else "()")]
        body = self.block([s for s in self.fn.body if not is_docstring(s)], env, end)
        self.mi.ndraws = len(self.draws)
        self.mi.exts = list(self.exts)
        rt = lean_ty(self.mi.ret_ty)
        rt = f"Option ({self.ci.name}.State × Ret × String)" if mutation else \
            f"Option ({self.ci.name}.State × {atom(rt)})"
        ext = "".join(f" ({x} : {' → '.join(atom(lean_ty(t)) for t in EXTERNALS[x][0] + (EXTERNALS[x][1],))})"
                      for x in self.exts)
        params = "".join(f" ({p} : {lean_ty(t)})" for p, t in self.mi.params)
        draws = "".join(f" ({d} : Int)" for d in self.draws)
        deco = f"@mutation(MutationType.{self.mi.mutation_type}) " if mutation else ""
        what = "(fields afterwards, returned dict, `@mutation` method entered last)" if mutation else \
            "(fields afterwards, returned value)"
        self.mi.lines = self.aux + [
            f"/-- {deco}`{self.ci.name}.{self.fn.name}`: {what}; `none` = exception / impossible draw -/",
            f"def {self.mi.lean_name}{ext} (s : {self.ci.name}.State){params}{draws} : {rt} :=",
        ] + ind(body)


# ----------------------------------------------------------------------------------------------
def repo_dir(arg: str | None = None) -> Path:
    if arg:
        return Path(arg)
    return Path(os.environ.get("VERIF_REPO", "/repo"))


def translate(repo: Path) -> tuple[str, str]:
    """returns (lean text, sha256 over all source files); raises Unsupported"""
    h = hashlib.sha256()
    sources: dict[str, str] = {}
    for rel in REL_SOURCES:
        path = Path(repo) / rel
        try:
            raw = path.read_bytes()
        except OSError as e:
            raise Unsupported(f"cannot read {path}: {e}") from e
        h.update(rel.encode() + b"\0" + raw + b"\0")
        try:
            sources[rel] = raw.decode("utf-8")
        except UnicodeDecodeError as e:
            raise Unsupported(f"{rel}: not utf-8: {e}") from e
    sha = h.hexdigest()
    try:
        body = Translator(sources).run()
    except RecursionError as e:
        raise Unsupported(f"{_current_file[0]}: nesting too deep") from e
    header = "\n".join([
        "/-",
        "  Gen/ArchGen.lean — GENERATED by harness/py2lean_arch.py from the `@mutation` methods of",
        "  EvolvableMLP, EvolvableCNN (+ MutableKernelSizes), EvolvableLSTM, EvolvableSimBa, EvolvableResNet and",
        "  EvolvableNetwork (" + ", ".join(REL_SOURCES) + ");",
        "  do not edit.  Core Lean only.  `Proofs/ArchGenEq.lean` proves each definition equal to its counterpart",
        "  in `Model/Arch.lean`.",
        "-/",
        SHA_PREFIX + sha,
        "set_option linter.unusedVariables false",
        "",
    ])
    return header + "\n" + body, sha


def strip_sha(text: str) -> str:
    return "\n".join(ln for ln in text.split("\n") if not ln.startswith(SHA_PREFIX))


def write_if_changed(text: str, out: Path, force: bool = False) -> bool:
    """writes `text` unless the file already holds the same translation (sha line ignored)"""
    out = Path(out)
    old = out.read_text() if out.exists() else None
    if old is not None and not force and strip_sha(old) == strip_sha(text):
        return False
    if old == text:
        return False
    out.parent.mkdir(parents=True, exist_ok=True)
    tmp = out.with_suffix(".lean.tmp")
    tmp.write_text(text)
    os.replace(tmp, out)
    return True


def main(argv: list[str]) -> int:
    import argparse
    ap = argparse.ArgumentParser()
    ap.add_argument("--repo", default=None)
    ap.add_argument("--out", default=str(DEFAULT_OUT))
    ap.add_argument("--stdout", action="store_true")
    ap.add_argument("--force", action="store_true", help="rewrite even if only the sha256 line differs")
    a = ap.parse_args(argv)
    try:
        text, sha = translate(repo_dir(a.repo))
    except Unsupported as e:
        print(f"py2lean_arch: {e}", file=sys.stderr)
        return 1
    if a.stdout:
        sys.stdout.write(text)
        return 0
    changed = write_if_changed(text, Path(a.out), a.force)
    print(f"{a.out}: {'written' if changed else 'unchanged'} (source sha256 {sha[:16]}…, "
          f"translation sha256 {hashlib.sha256(strip_sha(text).encode()).hexdigest()[:16]}…)")
    return 0


if __name__ == "__main__":
    sys.exit(main(sys.argv[1:]))
