#!/usr/bin/env python3
"""
py2lean_bandit.py — translate the tensor expressions that concern the confidence matrix `sigma_inv` of
`NeuralUCB` (REPO/agilerl/algorithms/neural_ucb_bandit.py) and `NeuralTS`
(REPO/agilerl/algorithms/neural_ts_bandit.py) into Lean 4.

    python3 harness/py2lean_bandit.py [--repo DIR] [--out FILE] [--stdout] [--force]

Reads the *source text* only (Python `ast`; agilerl / torch / numpy are never imported) and writes
lean/Gen/BanditGen.lean (namespaces `BanditGen.UCB`, `BanditGen.TS`; core Lean only).
`Proofs/BanditGenEq.lean` proves the generated definitions equal to `sigma0`, `bonus`, `smUpdate`, … of the
hand-written `Model/Bandit.lean` under the shape invariant; `Props/C19.lean` restates the C19 theorems over
the generated definitions (`C19_source_translation_*`).

What is translated.  Everything is located *by structure*; the only fixed name is the anchor attribute
`sigma_inv` (the state the property talks about):
  * THE CLASS   = the one top-level class of the file with a method that assigns `self.sigma_inv`;
  * INIT        = its one method with an assignment to `self.sigma_inv` that does not read `self.sigma_inv`
                  (`init_params`);  ACT = its one method whose assignment to `self.sigma_inv` reads it
                  (`get_action`: `-=`, `+=`, or `self.sigma_inv = self.sigma_inv - …`).
Both methods are *executed symbolically*, statement by statement, over a small tensor algebra with SHAPE
INFERENCE.  Locals are substituted by their values (so renaming a local, introducing a temporary,
`x -= y` ↔ `x = x - y`, `torch.matmul(a, b)` ↔ `a @ b` and reordering independent statements do not change
the output); identical sub-expressions are shared (`let t0 …`).  The output is cut into definitions at
structural points only:
  INIT  `numel0`   value of every scalar attribute INIT assigns from a translatable expression, named
                   `<attr>0` (here `self.numel = sum(w.numel() for w in self.exp_layer.parameters() if
                   w.requires_grad)`, the parameter list of the layer being an explicit input);
        `sigma0`   the value INIT assigns to `self.sigma_inv` (`torch.eye(self.numel).to(…) / self.lamb`);
        `init`     the pair of them;
  ACT   `sqrt_arg` the argument of the `torch.sqrt(…)` call (the per-arm quadratic form);  the square root itself
                   stays symbolic: a parameter `sqrt : Rat → Rat`;
        `scores`   the array whose `np.argmax` is taken (NeuralUCB: `actor(obs) + gamma * sqrt(·)`;
                   NeuralTS: `torch.normal(mean=actor(obs), std=gamma * sqrt(·))`, the sampler being a parameter);
        `arm`      the integer that selects the row of the feature matrix in the update (the masked / unmasked
                   `np.argmax`, as a `match` on the optional mask parameter);
        `update`   the value `self.sigma_inv` has when the method returns (the Sherman–Morrison step);
        `act`      the composition: (returned value, `self.sigma_inv` afterwards).
A definition that uses the value of another one takes it as a parameter `v_<name>`; `init` / `act` chain them.

Shapes.  Every tensor value carries its rank (1, 2 or 3) and a tuple of symbolic dimensions (a literal,
or the value of an integer attribute such as `self.numel`).  `self.sigma_inv` has in ACT the shape INIT
gives it (`torch.eye(self.numel)`: numel × numel).  The shapes decide the translation: `A @ B` /
`torch.matmul` needs equal inner dimensions and becomes `mm <columns of B> A B` (3-D operands: batched, per
leading index); `.T` becomes `tr <columns of A> A`; `x.unsqueeze(-1)` of a 1-D tensor is an n×1 column, so
(n×n)@(n×1) is a column, (n×1)@(1×n) an outer product, (1×n)@(n×1) a 1×1 tensor; `1 + <1×1>` is entry-wise,
`<n×n> / <1×1>` broadcasts the single entry; `g[:, None, :]` / `g[:, :, None]` / `t[:, 0, :]` insert / select
a dimension.  Operand order, association (as Python parses it: `@` is left-associative), operators, signs and
constants flow from the AST.  A shape mismatch is `Unsupported`.

Supported subset (anything else on the way to an output raises `Unsupported` naming the construct and line):
  * statements: `x = e`, `self.a = e`, `x op= e` / `self.a op= e` (normalised to `x = x op e`; on a local
    that is a view of another tensor: Unsupported), `with torch.no_grad():` (inlined),
    `if <optional parameter> is [not] None: … else: …` (becomes a `match`), `return e` as the last statement,
    `assert`, docstrings.  Any other statement (`for`, calls for effect, other `if`s, tuple assignments …) is a
    black box: every local it mentions and every attribute it stores into or calls a method on becomes
    *unknown*; an output that depends on an unknown value is Unsupported, everything else is unaffected.
    A call of another method of `self` inside a black box makes every attribute unknown (it could re-run INIT).
  * expressions: int / float literals, locals, `self.<attr>`, `+ - * /` (entry-wise on equal shapes, scalar
    with tensor, 1×1 with 2-D), `@`, `torch.matmul`, `.T`, `.unsqueeze(k)`, indexing `t[i]`, `t[i, j]`,
    `t[:, None, :]`, `t[:, :, None]`, `t[None, :, :]`, `t[:, i, :]`, `t[i, :]`, `t[:, j]`, `torch.eye(n)`,
    `torch.zeros((a, b))`, `torch.sqrt`, `torch.normal(mean=, std=)`, `np.argmax(a)`,
    `np.ma.array(a, mask=m)`, `sum(<nat expr> for w in <layer>.parameters() [if <cond>]…)` with `w.numel()`,
    `w.requires_grad`, `not`, `and`, `or` in the conditions.

Assumptions (inputs and identities; the forms met are listed in the header of the generated file):
  * identity on values: `.to(…) .cpu() .numpy() .detach() .float() .double() .clone() .contiguous()`,
    `torch.no_grad()`; floats are exact rationals;
  * the FEATURE MATRIX: a local created by `torch.zeros((a, b))` whose rows a `for` loop fills
    (`g[k] = torch.cat([w.grad …])`: autograd) is an input `feat` of shape a × b — the network and its
    gradients are not translated (`Model/Bandit.lean` takes the gradient feature as an input as well);
  * `self.actor(·)` is an input `actor_out` (2-D, one row per arm; its shape is taken from the expression
    it is combined with); `self.preprocess_observation` and `self.actor` do not touch the attributes;
  * `<layer>.parameters()` is an input `layer_params : List LayerParam` (numel, requires_grad);
  * an optional parameter (default `None`) of ACT is `Option T1` (a 1-D numpy array);
  * `np.argmax` = index of the first maximum of the flattened array; `np.ma.array(a, mask=m)` masks the
    entries whose mask is non-zero (`m` has as many entries as `a`), `np.argmax` of it fills them with −∞;
  * an index outside a list reads `[]` / 0 (torch: IndexError), entry-wise operations on lists of
    different lengths stop at the shorter one (torch: error).

The header carries the sha256 of the two source files; `write_if_changed` compares everything *but* that
line, so a refactoring that leaves the translation unchanged does not touch the file.
"""
from __future__ import annotations

import ast
import hashlib
import os
import sys
from pathlib import Path

HERE = Path(__file__).resolve().parent
DEFAULT_OUT = HERE.parent / "lean" / "Gen" / "BanditGen.lean"
REL_SOURCES = ("agilerl/algorithms/neural_ucb_bandit.py", "agilerl/algorithms/neural_ts_bandit.py")
REL_SOURCE = "agilerl/algorithms/neural_{ucb,ts}_bandit.py"      # used in messages only (common.translation_gate)
TARGETS = (("UCB", REL_SOURCES[0]), ("TS", REL_SOURCES[1]))
ANCHOR = "sigma_inv"
SHA_PREFIX = "-- sha256(source) = "

ID_METHODS = {"to", "cpu", "numpy", "detach", "float", "double", "clone", "contiguous"}
PURE_SELF_CALLS = {"actor", "preprocess_observation"}
RANK_TY = {1: "T1", 2: "T2", 3: "T3"}
ARITH = {ast.Add: "+", ast.Sub: "-", ast.Mult: "*", ast.Div: "/"}


class Unsupported(Exception):
    pass


_current_file = [REL_SOURCE]


def where(node) -> str:
    return f"{_current_file[0]}:{getattr(node, 'lineno', '?')}"


def unparse(n) -> str:
    return " ".join(ast.unparse(n).split())


def is_docstring(st) -> bool:
    return isinstance(st, ast.Expr) and isinstance(st.value, ast.Constant) and isinstance(st.value.value, str)


def rat_literal(x: float) -> str:
    n, dn = x.as_integer_ratio()
    if dn == 1:
        return f"({n} : Rat)" if n >= 0 else f"(({n}) : Rat)"
    return f"(mkRat {n} {dn})" if n >= 0 else f"(mkRat ({n}) {dn})"


# ---------------------------------------------------------------------------------------------- expression DAG
class Node:
    """a node of the expression DAG: text = fmt.format(*texts of the kids); hash-consed by the Builder"""
    __slots__ = ("fmt", "kids", "lty", "param", "cut", "bound", "uid")

    def __init__(self, fmt, kids, lty, uid):
        self.fmt, self.kids, self.lty, self.uid = fmt, tuple(kids), lty, uid
        self.param = None      # (sort key, name) for an input of the generated definitions
        self.cut = None        # (index, name, root Val) for the value of another generated definition
        self.bound = False     # depends on a variable bound inside the expression (never let-hoisted)


class Builder:
    def __init__(self):
        self.memo: dict = {}
        self.params: dict = {}
        self.cuts: dict = {}
        self.cut_list: list[Node] = []
        self.n = 0

    def mk(self, fmt: str, kids=(), lty: str | None = "Rat", bound: bool = False) -> Node:
        key = (fmt, tuple(k.uid for k in kids), lty)
        nd = self.memo.get(key)
        if nd is None:
            self.n += 1
            nd = Node(fmt, kids, lty, self.n)
            nd.bound = bound or any(k.bound for k in kids)
            self.memo[key] = nd
        return nd

    def param(self, group: int, key, name: str, lty: str | None) -> Node:
        k = (group, key)
        if k not in self.params:
            self.n += 1
            nd = Node(name, (), lty, self.n)
            nd.param = ((group, key), name)
            self.params[k] = nd
        return self.params[k]

    def cut(self, name: str, root: "Val") -> Node:
        """the value `root` becomes a generated definition `name`; users see the leaf `v_<name>`"""
        if root.node.uid in self.cuts:
            return self.cuts[root.node.uid]
        k = sum(1 for c in self.cut_list if c.cut[1].rstrip("0123456789") == name.rstrip("0123456789")
                and (c.cut[1] == name or name[-1:] not in "0123456789"))
        if k:                                           # several cuts of one role: name, name1, name2, …
            name = f"{name}{k}" if name[-1:] not in "0123456789" else f"{name}_{k}"
        self.n += 1
        nd = Node("v_" + name, (), root.node.lty, self.n)
        nd.cut = (len(self.cut_list), name, root)
        self.cuts[root.node.uid] = nd
        self.cut_list.append(nd)
        return nd


class Val:
    """a symbolic value.  kind: int (Python int literal, .const) | nat | rat | bool | tensor (.dims: tuple of
    nat/int Vals or None = taken from the context; .base: what it is a view of, None = fresh) | masked |
    params | pvar | selfattr (scalar attribute, type not known yet) | optparam | none | opaque (.why)"""

    def __init__(self, kind, node=None, **kw):
        self.kind, self.node = kind, node
        self.dims = kw.get("dims")
        self.base = kw.get("base")
        self.const = kw.get("const")
        self.why = kw.get("why")
        self.name = kw.get("name")
        self.zeros = kw.get("zeros", False)

    @property
    def rank(self):
        return len(self.dims)


def opaque(why: str) -> Val:
    return Val("opaque", why=why)


def dimkey(d: Val | None):
    if d is None:
        return None
    return ("const", d.const) if d.kind == "int" else ("node", d.node.uid)


def same_dim(a, b) -> bool:
    return a is None or b is None or dimkey(a) == dimkey(b)


def unify(a, b):
    return b if a is None else a


def is_one(d) -> bool:
    return d is not None and d.kind == "int" and d.const == 1


def show_dims(v: Val) -> str:
    def one(d):
        if d is None:
            return "?"
        return str(d.const) if d.kind == "int" else d.node.fmt.format(*["…"] * len(d.node.kids))
    return "(" + ", ".join(one(d) for d in v.dims) + ")"


# ---------------------------------------------------------------------------------------------- symbolic execution
class Exec:
    """symbolic execution of one method"""

    def __init__(self, b: Builder, fn: ast.FunctionDef, anchor_dims=None, role="act"):
        self.b, self.fn, self.role = b, fn, role
        self.anchor_dims = anchor_dims          # INIT's shape of the anchor: list of ("self", attr) | ("const", c)
        a = fn.args
        if a.vararg or a.kwarg or a.posonlyargs or not a.args or a.args[0].arg != "self":
            raise Unsupported(f"{where(fn)}: unsupported construct: signature of {fn.name}")
        pos = a.args[1:]
        defaults = [None] * (len(pos) - len(a.defaults)) + list(a.defaults) if len(a.defaults) <= len(pos) \
            else list(a.defaults)[-len(pos):]
        self.fn_params: dict[str, tuple[int, ast.expr | None]] = {}
        for i, (p, d) in enumerate(zip(pos, defaults)):
            self.fn_params[p.arg] = (i, d)
        for i, (p, d) in enumerate(zip(a.kwonlyargs, a.kw_defaults)):
            self.fn_params[p.arg] = (len(pos) + i, d)
        self.locals: dict[str, Val] = {}
        self.attrs: dict[str, Val] = {}
        self.all_attrs_unknown: str | None = None
        self.assumed: set[str] = set()
        self.ret: Val | None = None
        self.n_feat = 0
        self.actor_outs: dict = {}
        self.keep: list = []

    # ------------------------------------------------------------------ helpers
    def bad(self, node, what: str) -> Val:
        return opaque(f"{where(node)}: unsupported construct: {what}")

    def bad_call(self, node, what: str) -> Val:
        """a call outside the subset: it may also change what it is given"""
        v = self.bad(node, what)
        self.poison_mentions(node, v.why + "; a value it may have changed is needed")
        return v

    def first_opaque(self, *vs):
        for v in vs:
            if v.kind == "opaque":
                return v
        return None

    def lit_int(self, c: int) -> Val:
        return Val("int", self.b.mk(str(c), (), "Nat"), const=c)

    def as_nat(self, node, v: Val, what: str) -> Val:
        if v.kind in ("int", "nat"):
            if v.kind == "int" and v.const < 0:
                return self.bad(node, f"{what}: negative integer {v.const}")
            return v
        if v.kind == "selfattr":
            if v.node.lty not in (None, "Nat"):
                return self.bad(node, f"{what}: `self.{v.name}` is used as a number elsewhere and as a size here")
            v.node.lty = "Nat"
            return Val("nat", v.node, name=v.name)
        if v.kind == "opaque":
            return v
        return self.bad(node, f"{what}: a value of kind {v.kind} where a size / index is needed")

    def as_rat(self, node, v: Val, what: str) -> Val:
        """a Python scalar used in arithmetic with tensor entries"""
        if v.kind == "rat":
            return v
        if v.kind == "int":
            c = v.const
            return Val("rat", self.b.mk(f"({c} : Rat)" if c >= 0 else f"(({c}) : Rat)", (), "Rat"))
        if v.kind == "nat":
            return Val("rat", self.b.mk("(({0} : Nat) : Rat)", [v.node], "Rat"))
        if v.kind == "selfattr":
            if v.node.lty not in (None, "Rat"):
                return self.bad(node, f"{what}: `self.{v.name}` is used as a size elsewhere and as a number here")
            v.node.lty = "Rat"
            return Val("rat", v.node, name=v.name)
        if v.kind == "opaque":
            return v
        return self.bad(node, f"{what}: a value of kind {v.kind} where a number is needed")

    def tensor(self, node: Node, dims, base=None, zeros=False) -> Val:
        return Val("tensor", node, dims=tuple(dims), base=base, zeros=zeros)

    # ------------------------------------------------------------------ attribute reads
    def read_attr(self, n, attr: str) -> Val:
        if attr in self.attrs:
            return self.attrs[attr]
        if self.all_attrs_unknown:
            return opaque(self.all_attrs_unknown)
        if attr == ANCHOR:
            if self.anchor_dims is None:
                return self.bad(n, f"`self.{ANCHOR}` read before it is assigned")
            dims = []
            for kind, x in self.anchor_dims:
                if kind == "const":
                    dims.append(self.lit_int(x))
                else:
                    d = self.as_nat(n, self.read_attr(n, x), f"shape of `self.{ANCHOR}`")
                    if d.kind == "opaque":
                        return d
                    dims.append(d)
            nd = self.b.param(1, attr, f"self_{attr}", RANK_TY[len(dims)])
            return self.tensor(nd, dims, base=("attr", attr))
        nd = self.b.param(1, attr, f"self_{attr}", None)
        return Val("selfattr", nd, name=attr)

    # ------------------------------------------------------------------ expressions
    def ev(self, n) -> Val:
        if isinstance(n, ast.Constant):
            if n.value is None:
                return Val("none")
            if type(n.value) is int:
                return self.lit_int(n.value) if n.value >= 0 else Val("int", self.b.mk(f"({n.value})", (), "Int"),
                                                                        const=n.value)
            if type(n.value) is float:
                if n.value != n.value or abs(n.value) == float("inf"):
                    return self.bad(n, f"float constant {n.value!r}")
                return Val("rat", self.b.mk(rat_literal(n.value), (), "Rat"))
            return self.bad(n, f"constant {n.value!r}")
        if isinstance(n, ast.Name):
            if n.id in self.locals:
                return self.locals[n.id]
            if n.id in self.fn_params:
                i, d = self.fn_params[n.id]
                if isinstance(d, ast.Constant) and d.value is None:
                    return Val("optparam", self.b.param(3, i, n.id, "Option T1"), name=n.id)
                return opaque(f"{where(n)}: unsupported construct: parameter `{n.id}` of {self.fn.name} used as a value "
                              f"(only an optional parameter with default None is an input)")
            return self.bad(n, f"name `{n.id}`")
        if isinstance(n, ast.Attribute):
            if isinstance(n.value, ast.Name) and n.value.id == "self":
                return self.read_attr(n, n.attr)
            v = self.ev(n.value)
            if v.kind == "opaque":
                return v
            if n.attr == "T" and v.kind == "tensor":
                return self.transpose(n, v)
            if v.kind == "pvar" and n.attr == "requires_grad":
                return Val("bool", self.b.mk("{0}.requires_grad", [v.node], "Bool"))
            return self.bad(n, f"attribute `.{n.attr}` of a value of kind {v.kind}")
        if isinstance(n, ast.UnaryOp):
            v = self.ev(n.operand)
            if v.kind == "opaque":
                return v
            if isinstance(n.op, ast.Not) and v.kind == "bool":
                return Val("bool", self.b.mk("(!{0})", [v.node], "Bool"))
            if isinstance(n.op, ast.USub):
                if v.kind == "int":
                    return Val("int", self.b.mk(f"({-v.const})", (), "Int"), const=-v.const) if v.const > 0 else \
                        self.lit_int(-v.const)
                if v.kind == "tensor":
                    return self.tensor(self.b.mk(f"emap{v.rank} (fun x => -x) {{0}}", [v.node], RANK_TY[v.rank]), v.dims)
                r = self.as_rat(n, v, "unary minus")
                return r if r.kind == "opaque" else Val("rat", self.b.mk("(-{0})", [r.node], "Rat"))
            return self.bad(n, f"unary operator {type(n.op).__name__}")
        if isinstance(n, ast.BoolOp):
            vs = [self.ev(x) for x in n.values]
            o = self.first_opaque(*vs)
            if o:
                return o
            if any(v.kind != "bool" for v in vs):
                return self.bad(n, "and / or of non-booleans (Python would return an operand)")
            op = " && " if isinstance(n.op, ast.And) else " || "
            return Val("bool", self.b.mk("(" + op.join(f"{{{i}}}" for i in range(len(vs))) + ")", [v.node for v in vs], "Bool"))
        if isinstance(n, ast.BinOp):
            a, c = self.ev(n.left), self.ev(n.right)
            o = self.first_opaque(a, c)
            if o:
                return o
            if isinstance(n.op, ast.MatMult):
                return self.matmul(n, a, c)
            op = ARITH.get(type(n.op))
            if op is None:
                return self.bad(n, f"operator {type(n.op).__name__}")
            return self.arith(n, op, a, c)
        if isinstance(n, ast.Subscript):
            v = self.ev(n.value)
            if v.kind == "opaque":
                return v
            if v.kind != "tensor":
                return self.bad(n, f"subscript of a value of kind {v.kind}")
            return self.index(n, v, n.slice)
        if isinstance(n, ast.Call):
            return self.call(n)
        return self.bad(n, type(n).__name__)

    # ------------------------------------------------------------------ tensor algebra with shapes
    def matmul(self, n, a: Val, c: Val) -> Val:
        if a.kind != "tensor" or c.kind != "tensor":
            return self.bad(n, f"matrix product of values of kind {a.kind}, {c.kind}")
        what = f"matrix product of shapes {show_dims(a)} and {show_dims(c)}"
        if a.rank == 2 and c.rank == 2:
            if not same_dim(a.dims[1], c.dims[0]):
                return self.bad(n, what + " (inner dimensions differ)")
            p = c.dims[1]
            if p is None:
                return self.bad(n, what + " (number of columns of the right operand unknown)")
            return self.tensor(self.b.mk("mm {0} {1} {2}", [p.node, a.node, c.node], "T2"), (a.dims[0], p))
        if a.rank == 3 and c.rank == 2:
            if not same_dim(a.dims[2], c.dims[0]) or c.dims[1] is None:
                return self.bad(n, what + " (inner dimensions differ)")
            return self.tensor(self.b.mk("bmmR {0} {1} {2}", [c.dims[1].node, a.node, c.node], "T3"),
                               (a.dims[0], a.dims[1], c.dims[1]))
        if a.rank == 3 and c.rank == 3:
            if not same_dim(a.dims[2], c.dims[1]) or not same_dim(a.dims[0], c.dims[0]) or c.dims[2] is None:
                return self.bad(n, what + " (batch or inner dimensions differ)")
            return self.tensor(self.b.mk("bmm {0} {1} {2}", [c.dims[2].node, a.node, c.node], "T3"),
                               (unify(a.dims[0], c.dims[0]), a.dims[1], c.dims[2]))
        return self.bad(n, what + " (only 2-D @ 2-D, 3-D @ 2-D, 3-D @ 3-D)")

    def transpose(self, n, v: Val) -> Val:
        if v.rank != 2:
            return self.bad(n, f"`.T` of a tensor of shape {show_dims(v)}")
        if v.dims[1] is None:
            return self.bad(n, "`.T` of a tensor whose number of columns is unknown")
        return self.tensor(self.b.mk("tr {0} {1}", [v.dims[1].node, v.node], "T2"), (v.dims[1], v.dims[0]), base=v.base or ("view",))

    def unsqueeze(self, n, v: Val, k: int) -> Val:
        one = self.lit_int(1)
        base = v.base or ("view",)
        if v.rank == 1 and k in (-1, 1):
            return self.tensor(self.b.mk("unsq1 {0}", [v.node], "T2"), (v.dims[0], one), base=base)
        if v.rank == 1 and k in (0, -2):
            return self.tensor(self.b.mk("[{0}]", [v.node], "T2"), (one, v.dims[0]), base=base)
        if v.rank == 2 and k in (-1, 2):
            return self.tensor(self.b.mk("insDim2 {0}", [v.node], "T3"), (v.dims[0], v.dims[1], one), base=base)
        if v.rank == 2 and k in (1, -2):
            return self.tensor(self.b.mk("insDim1 {0}", [v.node], "T3"), (v.dims[0], one, v.dims[1]), base=base)
        if v.rank == 2 and k in (0, -3):
            return self.tensor(self.b.mk("[{0}]", [v.node], "T3"), (one, v.dims[0], v.dims[1]), base=base)
        return self.bad(n, f"`.unsqueeze({k})` of a tensor of shape {show_dims(v)}")

    def index(self, n, v: Val, sl) -> Val:
        base = v.base or ("view",)
        items = list(sl.elts) if isinstance(sl, ast.Tuple) else [sl]
        pat = []
        for it in items:
            if isinstance(it, ast.Slice):
                if it.lower is not None or it.upper is not None or it.step is not None:
                    return self.bad(n, f"`{unparse(n)}`: a proper slice")
                pat.append(":")
            elif isinstance(it, ast.Constant) and it.value is None:
                pat.append("N")
            else:
                i = self.ev(it)
                if i.kind == "opaque":
                    return i
                i = self.as_nat(it, i, f"index of `{unparse(n)}`")
                if i.kind == "opaque":
                    return i
                if i.node.kids and not i.node.cut:            # a computed index: its own definition
                    i = Val("nat", self.b.cut("arm", i))
                pat.append(i)
        shape = "".join(p if isinstance(p, str) else "i" for p in pat)
        idx = [p for p in pat if not isinstance(p, str)]
        one = self.lit_int(1)
        d = v.dims
        if v.rank == 1 and shape == "i":
            return Val("rat", self.b.mk("({0}.getD {1} 0)", [v.node, idx[0].node], "Rat"))
        if v.rank == 2:
            if shape in ("i", "i:"):
                return self.tensor(self.b.mk("rowOf {0} {1}", [v.node, idx[0].node], "T1"), (d[1],), base=base)
            if shape == ":i":
                return self.tensor(self.b.mk("colAt {0} {1}", [v.node, idx[0].node], "T1"), (d[0],), base=base)
            if shape == "ii":
                return Val("rat", self.b.mk("((rowOf {0} {1}).getD {2} 0)", [v.node, idx[0].node, idx[1].node], "Rat"))
            if shape == ":N:":
                return self.tensor(self.b.mk("insDim1 {0}", [v.node], "T3"), (d[0], one, d[1]), base=base)
            if shape == "::N":
                return self.tensor(self.b.mk("insDim2 {0}", [v.node], "T3"), (d[0], d[1], one), base=base)
            if shape == "N::":
                return self.tensor(self.b.mk("[{0}]", [v.node], "T3"), (one, d[0], d[1]), base=base)
        if v.rank == 3:
            if shape == ":i:":
                return self.tensor(self.b.mk("sel3 {0} {1}", [v.node, idx[0].node], "T2"), (d[0], d[2]), base=base)
            if shape in ("i", "i::"):
                return self.tensor(self.b.mk("({0}.getD {1} [])", [v.node, idx[0].node], "T2"), (d[1], d[2]), base=base)
        return self.bad(n, f"index pattern `{unparse(n)}` on a tensor of shape {show_dims(v)}")

    def arith(self, n, op: str, a: Val, c: Val) -> Val:
        ta, tc = a.kind == "tensor", c.kind == "tensor"
        if not ta and not tc:
            if a.kind in ("int", "nat") and c.kind in ("int", "nat") and op in "+*":
                if a.kind == "int" and c.kind == "int":
                    return self.lit_int(a.const + c.const if op == "+" else a.const * c.const)
                return Val("nat", self.b.mk(f"({{0}} {op} {{1}})", [a.node, c.node], "Nat"))
            if a.kind in ("selfattr", "nat", "int") and c.kind in ("selfattr", "nat", "int") and \
                    "selfattr" in (a.kind, c.kind) and op in "+*" and \
                    all(v.kind != "selfattr" or v.node.lty == "Nat" for v in (a, c)):
                x, y = self.as_nat(n, a, "size arithmetic"), self.as_nat(n, c, "size arithmetic")
                return Val("nat", self.b.mk(f"({{0}} {op} {{1}})", [x.node, y.node], "Nat"))
            x, y = self.as_rat(n, a, f"`{op}`"), self.as_rat(n, c, f"`{op}`")
            o = self.first_opaque(x, y)
            if o:
                return o
            return Val("rat", self.b.mk(f"({{0}} {op} {{1}})", [x.node, y.node], "Rat"))
        if ta and tc:
            what = f"entry-wise `{op}` of shapes {show_dims(a)} and {show_dims(c)}"
            if a.rank == c.rank and all(same_dim(x, y) for x, y in zip(a.dims, c.dims)):
                dims = tuple(unify(x, y) for x, y in zip(a.dims, c.dims))
                r = a.rank
                return self.tensor(self.b.mk(f"ew{r} (fun a b => a {op} b) {{0}} {{1}}", [a.node, c.node], RANK_TY[r]), dims)
            if c.rank == 2 and all(is_one(x) for x in c.dims) and a.rank == 2:      # <2-D> op <1×1>: broadcast
                return self.tensor(self.b.mk(f"emap2 (fun a => a {op} e00 {{1}}) {{0}}", [a.node, c.node], "T2"), a.dims)
            if a.rank == 2 and all(is_one(x) for x in a.dims) and c.rank == 2:      # <1×1> op <2-D>
                return self.tensor(self.b.mk(f"emap2 (fun b => e00 {{0}} {op} b) {{1}}", [a.node, c.node], "T2"), c.dims)
            return self.bad(n, what + " (broadcasting other than with a 1×1 tensor)")
        t, s, left_scalar = (c, a, True) if tc else (a, c, False)
        s = self.as_rat(n, s, f"`{op}` with a tensor")
        if s.kind == "opaque":
            return s
        r = t.rank
        fn = f"(fun x => {{1}} {op} x)" if left_scalar else f"(fun x => x {op} {{1}})"
        return self.tensor(self.b.mk(f"emap{r} {fn} {{0}}", [t.node, s.node], RANK_TY[r]), t.dims)

    # ------------------------------------------------------------------ calls
    def kwargs(self, n: ast.Call, names: list[str]):
        """positional + keyword arguments matched to `names`; None on anything else"""
        out = {}
        if any(isinstance(a, ast.Starred) for a in n.args) or len(n.args) > len(names):
            return None
        for k, a in zip(names, n.args):
            out[k] = a
        for kw in n.keywords:
            if kw.arg is None or kw.arg not in names or kw.arg in out:
                return None
            out[kw.arg] = kw.value
        return out

    def mod_func(self, f):
        """('torch', 'eye') for `torch.eye`, ('np', 'ma', 'array') for `np.ma.array`"""
        parts = []
        while isinstance(f, ast.Attribute):
            parts.append(f.attr)
            f = f.value
        if isinstance(f, ast.Name) and f.id in ("torch", "np", "numpy") and f.id not in self.locals:
            return tuple(["np" if f.id == "numpy" else f.id] + parts[::-1])
        return None

    def flat(self, v: Val) -> Node:
        return v.node if v.rank == 1 else self.b.mk(f"flat{v.rank} {{0}}", [v.node], "T1")

    def call(self, n: ast.Call) -> Val:
        f = n.func
        mf = self.mod_func(f)
        if mf == ("torch", "eye"):
            kw = self.kwargs(n, ["n"])
            if not kw or "n" not in kw:
                return self.bad(n, f"`{unparse(n)}`")
            d = self.as_nat(n, self.ev(kw["n"]), "torch.eye")
            if d.kind == "opaque":
                return d
            return self.tensor(self.b.mk("eye {0}", [d.node], "T2"), (d, d))
        if mf == ("torch", "zeros"):
            args = list(n.args)
            if n.keywords:
                return self.bad(n, f"`{unparse(n)[:60]}` with keywords")
            if len(args) == 1 and isinstance(args[0], (ast.Tuple, ast.List)):
                args = list(args[0].elts)
            if len(args) != 2:
                return self.bad(n, f"`{unparse(n)[:60]}` (only 2-D)")
            ds = [self.as_nat(n, self.ev(a), "torch.zeros") for a in args]
            o = self.first_opaque(*ds)
            if o:
                return o
            return self.tensor(self.b.mk("zeros {0} {1}", [ds[0].node, ds[1].node], "T2"), ds, zeros=True)
        if mf == ("torch", "matmul"):
            kw = self.kwargs(n, ["input", "other"])
            if not kw or len(kw) != 2:
                return self.bad(n, f"`{unparse(n)[:60]}`")
            a, c = self.ev(kw["input"]), self.ev(kw["other"])
            return self.first_opaque(a, c) or self.matmul(n, a, c)
        if mf == ("torch", "sqrt"):
            kw = self.kwargs(n, ["input"])
            if not kw or len(kw) != 1:
                return self.bad(n, f"`{unparse(n)[:60]}`")
            v = self.ev(kw["input"])
            if v.kind == "opaque":
                return v
            if v.kind != "tensor":
                return self.bad(n, f"torch.sqrt of a value of kind {v.kind}")
            c = self.b.cut("sqrt_arg", v)
            sq = self.b.param(0, "sqrt", "sqrt", "Rat → Rat")
            return self.tensor(self.b.mk(f"emap{v.rank} {{0}} {{1}}", [sq, c], RANK_TY[v.rank]), v.dims)
        if mf == ("torch", "normal"):
            kw = self.kwargs(n, ["mean", "std"])
            if not kw or len(kw) != 2:
                return self.bad(n, f"`{unparse(n)[:60]}` (only mean and std)")
            m, s = self.ev(kw["mean"]), self.ev(kw["std"])
            o = self.first_opaque(m, s)
            if o:
                return o
            if m.kind != "tensor" or s.kind != "tensor" or m.rank != 2 or s.rank != 2 or \
                    not all(same_dim(x, y) for x, y in zip(m.dims, s.dims)):
                return self.bad(n, "torch.normal with mean / std that are not 2-D tensors of one shape")
            nm = self.b.param(0, "normal", "normal", "T2 → T2 → T2")
            self.assumed.add("torch.normal(mean, std) is a parameter `normal : T2 → T2 → T2`")
            return self.tensor(self.b.mk("{0} {1} {2}", [nm, m.node, s.node], "T2"),
                               tuple(unify(x, y) for x, y in zip(m.dims, s.dims)))
        if mf == ("np", "argmax"):
            kw = self.kwargs(n, ["a"])
            if not kw or len(kw) != 1:
                return self.bad(n, f"`{unparse(n)[:60]}` (only the array argument: flattened argmax)")
            v = self.ev(kw["a"])
            if v.kind == "opaque":
                return v
            if v.kind == "masked":
                return Val("nat", self.b.mk("npArgmax {0}", [v.node], "Nat"))
            if v.kind == "tensor":
                v = self.cut_scores(v)
                return Val("nat", self.b.mk("npArgmax (List.map some {0})", [self.flat(v)], "Nat"))
            return self.bad(n, f"np.argmax of a value of kind {v.kind}")
        if mf == ("np", "ma", "array"):
            kw = self.kwargs(n, ["data", "mask"])
            if not kw or len(kw) != 2 or [k.arg for k in n.keywords] not in ([], ["mask"], ["data", "mask"], ["mask", "data"]) \
                    or (len(n.args) == 2):
                return self.bad(n, f"`{unparse(n)[:60]}` (only np.ma.array(data, mask=…))")
            d, m = self.ev(kw["data"]), self.ev(kw["mask"])
            o = self.first_opaque(d, m)
            if o:
                return o
            if d.kind != "tensor" or m.kind != "tensor":
                return self.bad(n, f"np.ma.array of values of kind {d.kind}, {m.kind}")
            d = self.cut_scores(d)
            return Val("masked", self.b.mk("maArray {0} {1}", [self.flat(d), self.flat(m)], "List (Option Rat)"))
        if mf is not None:
            return self.bad_call(n, f"call of `{'.'.join(mf)}`")
        if isinstance(f, ast.Name) and f.id == "sum" and f.id not in self.locals:
            if len(n.args) == 1 and not n.keywords and isinstance(n.args[0], ast.GeneratorExp):
                return self.sum_gen(n, n.args[0])
            return self.bad(n, f"`{unparse(n)[:60]}` (only sum(<generator>))")
        if isinstance(f, ast.Attribute):
            m = f.attr
            # self.actor(x): the network output, an input
            if isinstance(f.value, ast.Name) and f.value.id == "self":
                if m == "actor" and len(n.args) == 1 and not n.keywords and not isinstance(n.args[0], ast.Starred):
                    arg = self.ev(n.args[0])                 # the observation is only passed on
                    key = arg.node.uid if arg.node is not None else id(arg)
                    self.keep.append(arg)
                    if key not in self.actor_outs:
                        k = len(self.actor_outs)
                        self.actor_outs[key] = self.b.param(2, ("actor", k), "actor_out" if k == 0 else f"actor_out{k}", "T2")
                    self.assumed.add("self.actor(·) is an input `actor_out` (2-D, one row per arm)")
                    return self.tensor(self.actor_outs[key], (None, None), base=("input", "actor_out"))
                return self.bad_call(n, f"call of `self.{m}`")
            if m == "parameters" and not n.args and not n.keywords:
                key = unparse(f.value)
                self.assumed.add(f"{key}.parameters() is an input `layer_params`")
                return Val("params", self.b.param(2, ("params", key), "layer_params", "List LayerParam"))
            v = self.ev(f.value)
            if v.kind == "opaque":
                return v
            if v.kind == "pvar" and m == "numel" and not n.args and not n.keywords:
                return Val("nat", self.b.mk("{0}.numel", [v.node], "Nat"))
            if v.kind == "tensor":
                if m in ID_METHODS:
                    self.assumed.add(f".{m}(…) is the identity")
                    if m == "clone":
                        return self.tensor(v.node, v.dims, base=None, zeros=v.zeros)
                    return self.tensor(v.node, v.dims, base=v.base or ("view",), zeros=v.zeros)
                if m == "unsqueeze":
                    kw = self.kwargs(n, ["dim"])
                    if kw and len(kw) == 1:
                        k = self.ev(kw["dim"])
                        if k.kind == "int":
                            return self.unsqueeze(n, v, k.const)
                    return self.bad(n, f"`.{unparse(n)[len(unparse(f.value)) + 1:]}`")
                if m == "t" and not n.args and not n.keywords:
                    return self.transpose(n, v)
            return self.bad_call(n, f"method `.{m}(…)` of a value of kind {v.kind}")
        return self.bad_call(n, f"call of `{unparse(f)[:50]}`")

    def cut_scores(self, v: Val) -> Val:
        """the array handed to argmax / np.ma.array: its own definition when it is computed"""
        if v.node.kids and not v.node.cut:
            return self.tensor(self.b.cut("scores", v), v.dims, base=v.base)
        return v

    def sum_gen(self, n, g: ast.GeneratorExp) -> Val:
        if len(g.generators) != 1:
            return self.bad(n, "sum over a nested generator")
        c = g.generators[0]
        if c.is_async or not isinstance(c.target, ast.Name):
            return self.bad(n, "sum over a generator with a tuple target")
        it = self.ev(c.iter)
        if it.kind == "opaque":
            return it
        if it.kind != "params":
            return self.bad(n, f"sum over a generator that iterates a value of kind {it.kind} (only <layer>.parameters())")
        var = self.b.mk("w", (), "LayerParam", bound=True)
        saved = self.locals.get(c.target.id)
        self.locals[c.target.id] = Val("pvar", var)
        try:
            conds = [self.ev(x) for x in c.ifs]
            elt = self.ev(g.elt)
        finally:
            if saved is None:
                self.locals.pop(c.target.id, None)
            else:
                self.locals[c.target.id] = saved
        o = self.first_opaque(elt, *conds)
        if o:
            return o
        if any(x.kind != "bool" for x in conds):
            return self.bad(n, "generator condition that is not a boolean attribute of the parameter")
        e = self.as_nat(n, elt, "summand")
        if e.kind == "opaque":
            return e
        src = it.node
        for x in conds:
            src = self.b.mk("(List.filter (fun w => {1}) {0})", [src, x.node], "List LayerParam")
            src.bound = False
        out = self.b.mk("List.sum (List.map (fun w => {1}) {0})", [src, e.node], "Nat")
        out.bound = False
        return Val("nat", out)

    # ------------------------------------------------------------------ statements
    def is_no_grad(self, st) -> bool:
        if not isinstance(st, ast.With) or len(st.items) != 1 or st.items[0].optional_vars is not None:
            return False
        c = st.items[0].context_expr
        return isinstance(c, ast.Call) and not c.args and not c.keywords and self.mod_func(c.func) == ("torch", "no_grad")

    def poison_local(self, name: str, why: str):
        v = self.locals.get(name)
        if v is not None and v.kind == "tensor" and v.base and v.base[0] == "attr":
            self.attrs[v.base[1]] = opaque(why)
        self.locals[name] = opaque(why)

    def poison_mentions(self, st, why: str):
        """whatever the (sub)tree `st`, which is outside the subset, may change becomes unknown: every local it
        mentions, every attribute it stores into or calls a method on; a call of another method of `self`
        makes every attribute unknown"""
        for x in ast.walk(st):
            if isinstance(x, ast.Name) and x.id != "self" and (x.id in self.locals or isinstance(x.ctx, (ast.Store, ast.Del))):
                self.poison_local(x.id, why)
            if isinstance(x, (ast.Subscript, ast.Attribute)) and isinstance(x.ctx, (ast.Store, ast.Del)):
                y = x
                while isinstance(y, (ast.Subscript, ast.Attribute)) and not (
                        isinstance(y, ast.Attribute) and isinstance(y.value, ast.Name) and y.value.id == "self"):
                    y = y.value
                if isinstance(y, ast.Attribute):
                    self.attrs[y.attr] = opaque(why)
            if isinstance(x, ast.Call) and isinstance(x.func, ast.Attribute):
                chain = []
                y = x.func
                while isinstance(y, (ast.Attribute, ast.Subscript)):
                    if isinstance(y, ast.Attribute):
                        chain.append(y.attr)
                    y = y.value
                if isinstance(y, ast.Name) and y.id == "self":
                    chain = chain[::-1]
                    if len(chain) == 1:
                        if chain[0] not in PURE_SELF_CALLS:
                            self.all_attrs_unknown = why + f" (`self.{chain[0]}(…)` may assign any attribute)"
                            for k in list(self.attrs):
                                self.attrs[k] = opaque(self.all_attrs_unknown)
                    else:
                        self.attrs[chain[0]] = opaque(why)

    def black_box(self, st, what: str):
        """a statement outside the subset"""
        why = f"{where(st)}: unsupported construct: {what}; a value it may have changed is needed"
        for x in ast.walk(st):
            if isinstance(x, (ast.Return, ast.Yield, ast.YieldFrom, ast.Await)):
                raise Unsupported(f"{where(x)}: unsupported construct: `{type(x).__name__.lower()}` inside a compound statement")
        feature_rows = []
        if isinstance(st, ast.For):
            for x in ast.walk(st):
                if isinstance(x, ast.Assign) and len(x.targets) == 1 and isinstance(x.targets[0], ast.Subscript) \
                        and isinstance(x.targets[0].value, ast.Name) and not isinstance(x.targets[0].slice, (ast.Slice, ast.Tuple)):
                    nm = x.targets[0].value.id
                    v = self.locals.get(nm)
                    if v is not None and v.kind == "tensor" and v.zeros and v.rank == 2 and nm not in [f[0] for f in feature_rows]:
                        feature_rows.append((nm, v))
        self.poison_mentions(st, why)
        for nm, v in feature_rows:
            name = "feat" if self.n_feat == 0 else f"feat{self.n_feat}"
            self.n_feat += 1
            nd = self.b.param(2, ("feat", self.n_feat), name, "T2")
            self.assumed.add(f"the rows a `for` loop stores into a torch.zeros((a, b)) tensor are an input `{name}` of shape a × b")
            self.locals[nm] = self.tensor(nd, v.dims, base=("input", name))

    def assign(self, st, tg, v: Val):
        if isinstance(tg, ast.Name):
            self.locals[tg.id] = v
        elif isinstance(tg, ast.Attribute) and isinstance(tg.value, ast.Name) and tg.value.id == "self":
            self.attrs[tg.attr] = v
        else:
            self.black_box(st, f"assignment target `{unparse(tg)[:40]}`")

    def run_block(self, stmts, top: bool):
        for k, st in enumerate(stmts):
            if self.ret is not None:
                raise Unsupported(f"{where(st)}: unsupported construct: statement after `return`")
            if is_docstring(st) or isinstance(st, (ast.Pass, ast.Assert)):
                continue
            if isinstance(st, ast.Return):
                if not top:
                    raise Unsupported(f"{where(st)}: unsupported construct: `return` inside a compound statement")
                self.ret = self.ev(st.value) if st.value is not None else Val("none")
                continue
            if isinstance(st, ast.Assign):
                if len(st.targets) == 1 and (isinstance(st.targets[0], ast.Name) or (
                        isinstance(st.targets[0], ast.Attribute) and isinstance(st.targets[0].value, ast.Name)
                        and st.targets[0].value.id == "self")):
                    self.assign(st, st.targets[0], self.ev(st.value))
                else:
                    self.black_box(st, f"assignment `{unparse(st)[:50]}`")
                continue
            if isinstance(st, ast.AnnAssign) and st.value is not None and isinstance(st.target, ast.Name):
                self.assign(st, st.target, self.ev(st.value))
                continue
            if isinstance(st, ast.AugAssign):
                tg = st.target
                if isinstance(tg, ast.Name) or (isinstance(tg, ast.Attribute) and isinstance(tg.value, ast.Name)
                                                 and tg.value.id == "self"):
                    load = ast.copy_location(ast.Name(id=tg.id, ctx=ast.Load()), tg) if isinstance(tg, ast.Name) else \
                        ast.copy_location(ast.Attribute(value=tg.value, attr=tg.attr, ctx=ast.Load()), tg)
                    old = self.ev(load)
                    if isinstance(tg, ast.Name) and old.kind == "tensor" and old.base is not None:
                        # torch's `x op= y` writes into the storage x shares with another tensor
                        self.black_box(st, f"in-place `{unparse(st)[:50]}` on a view of another tensor")
                        continue
                    e = ast.copy_location(ast.BinOp(left=load, op=st.op, right=st.value), st)
                    v = self.ev(e)
                    if v.kind == "tensor" and isinstance(tg, ast.Attribute):
                        v = self.tensor(v.node, v.dims, base=("attr", tg.attr))
                    self.assign(st, tg, v)
                else:
                    self.black_box(st, f"in-place `{unparse(st)[:50]}`")
                continue
            if self.is_no_grad(st):
                self.assumed.add("with torch.no_grad(): does not change values")
                self.run_block(st.body, top=False)
                continue
            if isinstance(st, ast.If) and self.opt_test(st.test) is not None:
                self.if_none(st)
                continue
            self.black_box(st, f"{type(st).__name__} statement `{unparse(st)[:50]}…`")

    def opt_test(self, t):
        """(parameter Val, True if the test is `is None`) for `<optional parameter> is [not] None`"""
        if isinstance(t, ast.Compare) and len(t.ops) == 1 and isinstance(t.ops[0], (ast.Is, ast.IsNot)) \
                and isinstance(t.comparators[0], ast.Constant) and t.comparators[0].value is None \
                and isinstance(t.left, ast.Name) and t.left.id not in self.locals:
            v = self.ev(t.left)
            if v.kind == "optparam":
                return v, isinstance(t.ops[0], ast.Is)
        return None

    def if_none(self, st: ast.If):
        p, is_none = self.opt_test(st.test)
        none_body, some_body = (st.body, st.orelse) if is_none else (st.orelse, st.body)
        l0, a0, u0 = dict(self.locals), dict(self.attrs), self.all_attrs_unknown
        self.run_block(none_body, top=False)
        ln, an, un = self.locals, self.attrs, self.all_attrs_unknown
        self.locals, self.attrs, self.all_attrs_unknown = dict(l0), dict(a0), u0
        bound = self.b.mk(p.name, (), "T1", bound=True)
        self.locals[p.name] = self.tensor(bound, (None,), base=("input", p.name))
        self.run_block(some_body, top=False)
        ls, as_, us = self.locals, self.attrs, self.all_attrs_unknown
        ls.pop(p.name, None)
        if p.name in l0:
            ls[p.name] = l0[p.name]
        self.all_attrs_unknown = un or us

        def merge(x: Val | None, y: Val | None, what: str) -> Val:
            if x is None or y is None:
                return opaque(f"{where(st)}: unsupported construct: {what} is assigned in one branch of the `if` only")
            o = self.first_opaque(x, y)
            if o:
                return o
            if x.node is y.node and x.kind == y.kind:
                return x
            if x.kind == "int" and y.kind in ("nat", "int"):
                x = Val("nat", x.node)
            if y.kind == "int" and x.kind == "nat":
                y = Val("nat", y.node)
            if x.kind != y.kind or x.node.lty != y.node.lty or x.kind not in ("nat", "rat", "tensor", "masked"):
                return opaque(f"{where(st)}: unsupported construct: {what} has different kinds in the branches of the `if`")
            nd = self.b.mk("(match {0} with | none => {1} | some " + p.name + " => {2})", [p.node, x.node, y.node], x.node.lty)
            nd.bound = x.node.bound           # the `some` branch binds its variable itself
            if x.kind == "tensor":
                if x.rank != y.rank or not all(same_dim(d, e) for d, e in zip(x.dims, y.dims)):
                    return opaque(f"{where(st)}: unsupported construct: {what} has different shapes in the branches")
                return self.tensor(nd, tuple(unify(d, e) for d, e in zip(x.dims, y.dims)))
            return Val(x.kind, nd)
        out_l = {}
        for k in dict.fromkeys(list(ln) + list(ls)):
            out_l[k] = merge(ln.get(k), ls.get(k), f"`{k}`")
        out_a = {}
        for k in dict.fromkeys(list(an) + list(as_)):
            x = an[k] if k in an else self._attr_before(st, k, a0, u0)
            y = as_[k] if k in as_ else self._attr_before(st, k, a0, u0)
            out_a[k] = merge(x, y, f"`self.{k}`")
        self.locals, self.attrs = out_l, out_a

    def _attr_before(self, st, k, a0, u0):
        sl, sa, su = self.locals, self.attrs, self.all_attrs_unknown
        self.attrs, self.all_attrs_unknown = dict(a0), u0
        try:
            return self.read_attr(st, k)
        finally:
            self.attrs, self.all_attrs_unknown = sa, su

    def run(self):
        self.run_block(self.fn.body, top=True)


# ---------------------------------------------------------------------------------------------- emission
def reach(root: Node, through_cuts: bool = False) -> list[Node]:
    """nodes reachable from `root` in post-order (cut leaves are not entered unless `through_cuts`)"""
    seen, out = set(), []

    def go(nd: Node):
        if nd.uid in seen:
            return
        seen.add(nd.uid)
        if nd.cut and through_cuts:
            go(nd.cut[2].node)
        for k in nd.kids:
            go(k)
        out.append(nd)
    go(root)
    return out


def signature(nodes: list[Node], cuts_as_params: bool) -> list[Node]:
    ps = sorted({x.uid: x for x in nodes if x.param}.values(), key=lambda x: (x.param[0][0], repr(x.param[0][1])))
    cs = sorted({x.uid: x for x in nodes if x.cut}.values(), key=lambda x: x.cut[0]) if cuts_as_params else []
    return ps + cs


def check_typed(nodes: list[Node], what: str):
    for x in nodes:
        if x.lty is None:
            raise Unsupported(f"{_current_file[0]}: cannot tell whether `{x.fmt}` is a size or a number ({what} only passes it on)")


def render_def(name: str, root: Node, doc: str) -> list[str]:
    nodes = reach(root)
    check_typed(nodes, name)
    refs: dict[int, int] = {}
    for x in nodes:
        for k in x.kids:
            refs[k.uid] = refs.get(k.uid, 0) + 1
    shared = [x for x in nodes if x.kids and not x.bound and refs.get(x.uid, 0) >= 2 and x.lty in ("T1", "T2", "T3", "List (Option Rat)")]
    names = {x.uid: f"t{i}" for i, x in enumerate(shared)}

    def text(x: Node, top: bool = False) -> str:
        if not top and x.uid in names:
            return names[x.uid]
        if not x.kids:
            return x.fmt
        s = x.fmt.format(*[text(k) for k in x.kids])
        return s if (top or s.startswith("(") or s.startswith("[")) else f"({s})"
    sig = "".join(f" ({p.fmt} : {p.lty})" for p in signature(nodes, True))
    out = [f"/-- {doc} -/", f"def {name}{sig} : {root.lty} :="]
    for x in shared:
        out.append(f"  let {names[x.uid]} : {x.lty} := {text(x, top=True)}")
    out.append(f"  {text(root, top=True)}")
    return out + [""]


def call_text(c: Node) -> str:
    nodes = reach(c.cut[2].node)
    return " ".join([c.cut[1]] + [p.fmt for p in signature(nodes, True)])


def render_chain(name: str, outs: list[Node], doc: str) -> list[str]:
    """`name` = the tuple `outs`, every definition it goes through bound by a `let`"""
    nodes: list[Node] = []
    seen = set()
    for o in outs:
        for x in reach(o, through_cuts=True):
            if x.uid not in seen:
                seen.add(x.uid)
                nodes.append(x)
    check_typed(nodes, name)
    cuts = sorted([x for x in nodes if x.cut], key=lambda x: x.cut[0])
    sig = "".join(f" ({p.fmt} : {p.lty})" for p in signature(nodes, False))
    lty = " × ".join(o.lty for o in outs)
    out = [f"/-- {doc} -/", f"def {name}{sig} : {lty} :="]
    for c in cuts:
        out.append(f"  let {c.fmt} : {c.lty} := {call_text(c)}")

    def text(x: Node) -> str:
        if not x.kids:
            return x.fmt
        return "(" + x.fmt.format(*[text(k) for k in x.kids]) + ")"
    out.append("  (" + ", ".join(text(o) for o in outs) + ")" if len(outs) > 1 else "  " + text(outs[0]))
    return out + [""]


# ---------------------------------------------------------------------------------------------- one class
def assigns_anchor(fn: ast.FunctionDef):
    """(does some statement assign self.<ANCHOR>, does such a statement read it)"""
    assigns = reads = False

    def is_anchor(t):
        return isinstance(t, ast.Attribute) and t.attr == ANCHOR and isinstance(t.value, ast.Name) and t.value.id == "self"
    for st in ast.walk(fn):
        if isinstance(st, ast.AugAssign) and is_anchor(st.target):
            assigns = reads = True
        elif isinstance(st, ast.Assign) and any(is_anchor(t) for t in st.targets):
            assigns = True
            if any(is_anchor(x) and isinstance(x.ctx, ast.Load) for x in ast.walk(st.value)):
                reads = True
    return assigns, reads


def locate(mod: ast.Module, rel: str):
    found = []
    for c in mod.body:
        if not isinstance(c, ast.ClassDef):
            continue
        inits, acts = [], []
        for f in c.body:
            if isinstance(f, ast.FunctionDef):
                a, r = assigns_anchor(f)
                if a and r:
                    acts.append(f)
                elif a:
                    inits.append(f)
        if inits or acts:
            found.append((c, inits, acts))
    if len(found) != 1:
        raise Unsupported(f"{rel}: expected exactly one top-level class with a method assigning `self.{ANCHOR}`, found {len(found)}")
    c, inits, acts = found[0]
    if len(inits) != 1 or len(acts) != 1:
        raise Unsupported(f"{rel}: class {c.name}: expected one method that initialises `self.{ANCHOR}` and one that updates it, "
                          f"found {[f.name for f in inits]} and {[f.name for f in acts]}")
    return c, inits[0], acts[0]


def need_value(v: Val | None, what: str, kinds) -> Val:
    if v is None:
        raise Unsupported(f"{_current_file[0]}: {what} is not assigned")
    if v.kind == "opaque":
        raise Unsupported(v.why + f" [needed for {what}]")
    if v.kind not in kinds:
        raise Unsupported(f"{_current_file[0]}: {what} is a value of kind {v.kind}")
    return v


def translate_class(ns: str, rel: str, src: str) -> tuple[list[str], list[str]]:
    _current_file[0] = rel
    mod = ast.parse(src)
    cls, f_init, f_act = locate(mod, rel)
    # ---- INIT: every scalar attribute it computes becomes a definition `<attr>0` (so that `sigma0` takes it as
    # a parameter), the anchor's value the definition `sigma0`
    lines: list[str] = []
    b0 = Builder()
    e0 = Exec(b0, f_init, role="init")
    cut_of_attr: dict[str, Node] = {}
    orig_assign = e0.assign

    def assign_cut(st, tg, v, _orig=orig_assign):
        if isinstance(tg, ast.Attribute) and isinstance(tg.value, ast.Name) and tg.value.id == "self" \
                and tg.attr != ANCHOR and v.kind == "nat" and v.node.kids:
            c = b0.cut(f"{tg.attr}0", v)
            cut_of_attr[tg.attr] = c
            v = Val("nat", c, name=tg.attr)
        elif isinstance(tg, ast.Attribute):
            cut_of_attr.pop(tg.attr, None)
        _orig(st, tg, v)
    e0.assign = assign_cut
    e0.run()
    if e0.ret is not None and e0.ret.kind != "none":
        raise Unsupported(f"{rel}: {f_init.name} returns a value")
    sig0 = need_value(e0.attrs.get(ANCHOR), f"`self.{ANCHOR}` at the end of {f_init.name}", ("tensor",))
    if sig0.rank != 2:
        raise Unsupported(f"{rel}: `self.{ANCHOR}` is initialised with a tensor of shape {show_dims(sig0)}, not 2-D")
    anchor_dims = []
    for d in sig0.dims:
        if d is None:
            raise Unsupported(f"{rel}: shape of `self.{ANCHOR}` unknown")
        if d.kind == "int":
            anchor_dims.append(("const", d.const))
            continue
        hit = [k for k, v in e0.attrs.items() if v.kind in ("nat", "selfattr") and v.node is d.node] + \
            [k for k, nd in b0.params.items() if nd is d.node and k[0] == 1]
        hit = [h if isinstance(h, str) else h[1] for h in hit]
        if not hit:
            raise Unsupported(f"{rel}: a dimension of `self.{ANCHOR}` {show_dims(sig0)} is not the value of an attribute")
        anchor_dims.append(("self", sorted(hit)[0]))
    cut_of_attr = {a: c for a, c in cut_of_attr.items() if e0.attrs.get(a) is not None and e0.attrs[a].node is c}
    sig_cut = b0.cut("sigma0", sig0)
    for c in sorted(b0.cut_list, key=lambda x: x.cut[0]):
        doc = (f"`self.{ANCHOR}` right after the initialising method" if c is sig_cut else
               f"`self.{c.cut[1][:-1]}` right after the initialising method")
        lines += render_def(c.cut[1], c.cut[2].node, doc)
    outs = [cut_of_attr[a] for a in sorted(cut_of_attr)] + [sig_cut]
    lines += render_chain("init", outs, "the initialising method: (" + ", ".join(
        [f"`self.{a}`" for a in sorted(cut_of_attr)] + [f"`self.{ANCHOR}`"]) + ") afterwards")
    # ---- ACT
    b1 = Builder()
    e1 = Exec(b1, f_act, anchor_dims=anchor_dims, role="act")
    e1.run()
    sig1 = need_value(e1.attrs.get(ANCHOR), f"`self.{ANCHOR}` at the end of {f_act.name}", ("tensor",))
    if sig1.rank != 2 or not all(same_dim(x, y) for x, y in zip(sig1.dims, e1._attr_before(f_act, ANCHOR, {}, None).dims)):
        raise Unsupported(f"{rel}: {f_act.name} leaves `self.{ANCHOR}` with shape {show_dims(sig1)}")
    if e1.ret is None:
        raise Unsupported(f"{rel}: {f_act.name} has no `return` as its last statement")
    ret = need_value(e1.ret, f"the value {f_act.name} returns", ("nat", "int", "rat", "tensor"))
    upd = b1.cut("update", sig1)
    ret_node = b1.cuts.get(ret.node.uid, ret.node)
    docs = {"sqrt_arg": "the argument of `torch.sqrt`: per arm, the quadratic form of the arm's feature row",
            "scores": "the array whose argmax is taken", "arm": "the index that selects the feature row of the update",
            "update": f"`self.{ANCHOR}` when the method returns"}
    for c in sorted(b1.cut_list, key=lambda x: x.cut[0]):
        lines += render_def(c.cut[1], c.cut[2].node, docs.get(c.cut[1].rstrip("0123456789"), c.cut[1]))
    lines += render_chain("act", [ret_node, upd], f"the deciding method: (returned value, `self.{ANCHOR}` afterwards)")
    return [f"namespace {ns}", ""] + lines + [f"end {ns}", ""], sorted(e0.assumed | e1.assumed)


PRELUDE = """namespace BanditGen

abbrev T1 := List Rat
abbrev T2 := List (List Rat)
abbrev T3 := List (List (List Rat))

/-- a parameter tensor of a layer, as far as `init_params` looks at it -/
structure LayerParam where
  numel : Nat
  requires_grad : Bool
deriving Repr, DecidableEq

def dot (a b : T1) : Rat := (List.zipWith (· * ·) a b).sum
/-- `A[:, j]` (0 beyond the end of a row) -/
def colAt (A : T2) (j : Nat) : T1 := A.map (fun r => r.getD j 0)
/-- `A[i]` -/
def rowOf (A : T2) (i : Nat) : T1 := A.getD i []
/-- `A @ B` for 2-D tensors, `B` with `p` columns -/
def mm (p : Nat) (A B : T2) : T2 := A.map (fun r => (List.range p).map (fun j => dot r (colAt B j)))
/-- `A.T` for a 2-D tensor with `c` columns -/
def tr (c : Nat) (A : T2) : T2 := (List.range c).map (fun j => colAt A j)
/-- `v.unsqueeze(-1)`: a 1-D tensor as a column -/
def unsq1 (v : T1) : T2 := v.map (fun x => [x])
/-- `A[:, None, :]` -/
def insDim1 (A : T2) : T3 := A.map (fun r => [r])
/-- `A[:, :, None]` -/
def insDim2 (A : T2) : T3 := A.map (fun r => unsq1 r)
/-- `A[:, i, :]` -/
def sel3 (A : T3) (i : Nat) : T2 := A.map (fun m => rowOf m i)
/-- `torch.matmul` of a batch with one matrix / of two batches (per leading index) -/
def bmmR (p : Nat) (A : T3) (B : T2) : T3 := A.map (fun x => mm p x B)
def bmm (p : Nat) (A B : T3) : T3 := List.zipWith (fun x y => mm p x y) A B
/-- the single entry of a 1×1 tensor (what broadcasting repeats) -/
def e00 (A : T2) : Rat := (rowOf A 0).getD 0 0
def emap1 (f : Rat → Rat) (v : T1) : T1 := v.map f
def emap2 (f : Rat → Rat) (A : T2) : T2 := A.map (emap1 f)
def emap3 (f : Rat → Rat) (A : T3) : T3 := A.map (emap2 f)
def ew1 (f : Rat → Rat → Rat) (a b : T1) : T1 := List.zipWith f a b
def ew2 (f : Rat → Rat → Rat) (A B : T2) : T2 := List.zipWith (ew1 f) A B
def ew3 (f : Rat → Rat → Rat) (A B : T3) : T3 := List.zipWith (ew2 f) A B
def eye (n : Nat) : T2 := (List.range n).map (fun i => (List.range n).map (fun j => if i = j then 1 else 0))
def zeros (a b : Nat) : T2 := List.replicate a (List.replicate b 0)
def flat2 (A : T2) : T1 := A.flatten
def flat3 (A : T3) : T1 := A.flatten.flatten

/-- strict order on entries; `none` = masked = −∞ -/
def oLt : Option Rat → Option Rat → Bool
  | none, some _ => true
  | some a, some b => decide (a < b)
  | _, none => false
def argmaxGo (best : Option Rat) (bi : Nat) (i : Nat) : List (Option Rat) → Nat
  | [] => bi
  | x :: xs => if oLt best x then argmaxGo x i (i + 1) xs else argmaxGo best bi (i + 1) xs
/-- `np.argmax` of a flattened (masked) array: index of the first maximum; 0 for an empty array -/
def npArgmax : List (Option Rat) → Nat
  | [] => 0
  | x :: xs => argmaxGo x 0 1 xs
/-- `np.ma.array(data, mask=m)`, flattened: an entry is masked iff its mask is non-zero -/
def maArray (data m : T1) : List (Option Rat) := List.zipWith (fun x k => if k ≠ 0 then none else some x) data m
"""


# ----------------------------------------------------------------------------------------------
def repo_dir(arg: str | None) -> Path:
    if arg:
        return Path(arg)
    return Path(os.environ.get("VERIF_REPO", "/repo"))


def translate(repo: Path) -> tuple[str, str]:
    """returns (lean text, sha256 over the two source files); raises Unsupported"""
    h = hashlib.sha256()
    body: list[str] = PRELUDE.split("\n")
    assumed_all: list[str] = []
    for ns, rel in TARGETS:
        path = Path(repo) / rel
        try:
            raw = path.read_bytes()
        except OSError as e:
            raise Unsupported(f"cannot read {path}: {e}") from e
        h.update(rel.encode() + b"\0" + raw + b"\0")
        try:
            lines, assumed = translate_class(ns, rel, raw.decode("utf-8"))
        except SyntaxError as e:
            raise Unsupported(f"{rel}:{e.lineno}: not parseable: {e.msg}") from e
        except RecursionError as e:
            raise Unsupported(f"{rel}: expression too deep") from e
        body += lines
        for a in assumed:
            if a not in assumed_all:
                assumed_all.append(a)
    sha = h.hexdigest()
    header = "\n".join([
        "/-",
        "  Gen/BanditGen.lean — GENERATED by harness/py2lean_bandit.py from the methods of `NeuralUCB`",
        f"  ({REL_SOURCES[0]}) and `NeuralTS` ({REL_SOURCES[1]})",
        f"  that initialise / update `self.{ANCHOR}`; do not edit.  Core Lean only.",
        "  `Proofs/BanditGenEq.lean` proves the definitions equal to their counterparts in `Model/Bandit.lean`.",
        "  Assumed (inputs / identities met in the source):",
    ] + [f"    * {a}" for a in sorted(assumed_all)] + [
        "-/",
        SHA_PREFIX + sha,
        "set_option linter.unusedVariables false",
        "",
    ])
    return header + "\n" + "\n".join(body).rstrip() + "\n\nend BanditGen\n", sha


def strip_sha(text: str) -> str:
    return "\n".join(ln for ln in text.split("\n") if not ln.startswith(SHA_PREFIX))


def write_if_changed(text: str, out: Path, force: bool = False) -> bool:
    """writes `text` unless the file already holds the same translation (sha line ignored)"""
    out = Path(out)
    old = out.read_text() if out.exists() else None
    if old is not None and not force and strip_sha(old) == strip_sha(text):
        return False
    if old == text:
        return False
    out.parent.mkdir(parents=True, exist_ok=True)
    tmp = out.with_suffix(".lean.tmp")
    tmp.write_text(text)
    os.replace(tmp, out)
    return True


def main(argv: list[str]) -> int:
    import argparse
    ap = argparse.ArgumentParser()
    ap.add_argument("--repo", default=None)
    ap.add_argument("--out", default=str(DEFAULT_OUT))
    ap.add_argument("--stdout", action="store_true")
    ap.add_argument("--force", action="store_true", help="rewrite even if only the sha256 line differs")
    a = ap.parse_args(argv)
    try:
        text, sha = translate(repo_dir(a.repo))
    except Unsupported as e:
        print(f"py2lean_bandit: {e}", file=sys.stderr)
        return 1
    if a.stdout:
        sys.stdout.write(text)
        return 0
    changed = write_if_changed(text, Path(a.out), a.force)
    print(f"{a.out}: {'written' if changed else 'unchanged'} (source sha256 {sha[:16]}…, "
          f"translation sha256 {hashlib.sha256(strip_sha(text).encode()).hexdigest()[:16]}…)")
    return 0


if __name__ == "__main__":
    sys.exit(main(sys.argv[1:]))
