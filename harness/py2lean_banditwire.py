#!/usr/bin/env python3
"""
py2lean_banditwire.py — translate the WIRING around the confidence matrix of the neural bandits, from the source text of

    REPO/agilerl/algorithms/neural_ucb_bandit.py   NeuralUCB.{__init__, init_params, get_action, learn}
    REPO/agilerl/algorithms/neural_ts_bandit.py    NeuralTS.{__init__, init_params, get_action, learn}
    REPO/agilerl/algorithms/core/base.py           EvolvableAlgorithm.{mutation_hook, clone, load_checkpoint, load}
    REPO/agilerl/hpo/mutation.py                   Mutations.{mutation, no_mutation, architecture_mutate,
                                                   parameter_mutation, activation_mutation, rl_hyperparam_mutation}

into Lean 4 (property C19: `sigma_inv` has the size of the CURRENT output layer after every op and is re-initialised
exactly by the ops that run the hook).

    python3 harness/py2lean_banditwire.py [--repo DIR] [--out FILE] [--stdout] [--force]

Reads the *source text* only (Python `ast`; agilerl / torch are never imported) and writes
lean/Gen/BanditWireGen.lean (namespace BanditWireGen, core Lean only, imports nothing).  The tensor EXPRESSIONS of
init_params / get_action are the business of py2lean_bandit.py; this translator keeps, per function, the ORDERED list
of the statements that touch the bookkeeping (`Ev`, below), in source order.  `Proofs/BanditWireGenEq.lean` gives each
`Ev` its effect on the abstract state of `Model/Bandit.lean` (`Wire`: identity and parameter count of the current
output layer, what `exp_layer` is bound to, `numel`, `sigma_inv`, ghost history) and proves that running the generated
lists equals the model's ops (`Wire.update / learn / mutate / clone / reload / loadFrom`).

Output: for every function one `def <Cls>.<fn> : List Ev`.  A function body is walked in source order, descending into
`if / for / while / with / try` (nested function definitions are rejected).  A statement becomes an event iff it is

  * `r.mutation_hook()` / `r.init_params()`                          → `.call r m`           (r a plain name)
  * `self.register_mutation_hook(self.X)`                            → `.register "X"`
  * `for h in <…>.registry.hooks: getattr(r, h)()`                   → `.runHooks r`
  * `r.F = E` / `r.F op= E`, F ∈ {actor, exp_layer, numel, sigma_inv, theta_0}  → `.write r F src`, with src read from E:
        `P.get_output_dense()`, or `h(P)` for a module-level helper `h(x)` whose only return is a local bound
        only by `x.get_output_dense()` (`get_exp_layer`)               → `.outputOf "P"`
        `sum(w.numel() for w in P.parameters() if w.requires_grad)`     → `.countOf "P"`
        an expression containing exactly one `torch.eye(P)`             → `.eyeOf "P"`
        an augmented assignment                                         → `.inplace`
        anything else                                                   → `.opaque`
    (P = dotted path, printed as written)
  * `x = type(self)(…)` / `x = self.__class__(…)` / `x = cls(…)`     → `.construct x`
  * `[x =] EvolvableAlgorithm.copy_attributes(a, b)`                 → `.copyAttrs a b`
  * `setattr(r, N, …)`                                               → `.setattr r n it`, n = N printed as written, it =
                                                                       iterable of the innermost enclosing `for`, printed
                                                                       as written ("" if none); the equality proofs
                                                                       classify (n, it) by a fixed table (networks /
                                                                       optimizers / restored attributes / mutated
                                                                       hyper-parameter): a rename of these is NOT absorbed
  * `self.to_device_and_set_individual(r, …)`                        → `.setattr r "to_device_and_set_individual" it`
  * `r = f(r)` where `f` is a target of an enclosing `for`           → `.applyKind r`      (the chosen mutation method)
  * `if T: continue`                                                 → `.skipWhen t`, t = name of the function T calls,
                                                                       else T printed as written
  `if isinstance(r, (NeuralTS, NeuralUCB)):` without else contributes its body unguarded (the state IS a bandit).
  Tracked fields also include `registry` (`self.registry = registry` in `load`).
  An `if` whose two branches give the same events contributes them once; otherwise every event of either branch is
  wrapped as `.guarded e` (the CONDITION is not translated; the equality proofs treat a guarded `setattr` as not
  executed — shared networks / accelerator plumbing, absent for the bandits — and any other guarded event as an error).
  Every other statement is dropped: it cannot touch the tracked fields except through a helper (see Assumptions).

Rejected (`Unsupported`, naming the construct and line): a tracked field as part of a tuple / starred / subscript
target or deleted; `setattr(self, <non-constant>, …)` is fine (it is an event) but `setattr` with a *constant* name of a
tracked field is rejected (write it as an attribute); a tracked call with arguments; nested `def` / `lambda` / `class`
in a translated function; a missing function.

Assumptions (not read): helpers called from the translated functions (`_reinit_bandit_grads`, `reinit_opt`,
`inspect_attributes`, `copy_attributes` — the latter's decision table is translated by py2lean_clone.py: `exp_layer`
is an `nn.Module`, hence callable, hence kept; tensors / numbers are copied) and the network classes
(`get_output_dense` returns the live output layer; a clone / rebuilt network has a new output-layer object with the
same parameter count; an architecture / parameter / activation mutation may replace it, with a count given as input).
"""
from __future__ import annotations

import argparse
import ast
import hashlib
import os
import re
import sys
from pathlib import Path

REL_UCB = "agilerl/algorithms/neural_ucb_bandit.py"
REL_TS = "agilerl/algorithms/neural_ts_bandit.py"
REL_BASE = "agilerl/algorithms/core/base.py"
REL_MUT = "agilerl/hpo/mutation.py"
REL_SOURCE = f"{REL_UCB} + {REL_TS} + {REL_BASE} + {REL_MUT}"
ROOT = Path(__file__).resolve().parent.parent
DEFAULT_OUT = ROOT / "lean" / "Gen" / "BanditWireGen.lean"

TRACKED_FIELDS = {"actor", "exp_layer", "numel", "sigma_inv", "theta_0", "registry"}
TRACKED_CALLS = {"mutation_hook", "init_params"}


class Unsupported(Exception):
    pass


def repo_dir() -> Path:
    return Path(os.environ.get("VERIF_REPO", "/repo"))


def _s(x: str) -> str:
    return '"' + x.replace("\\", "\\\\").replace('"', '\\"') + '"'


def _path(e: ast.AST) -> str | None:
    if isinstance(e, ast.Name):
        return e.id
    if isinstance(e, ast.Attribute):
        p = _path(e.value)
        return None if p is None else f"{p}.{e.attr}"
    return None


class Walker:
    def __init__(self, rel: str, fn: ast.FunctionDef, out_helpers: set[str] = frozenset()):
        self.rel, self.fn, self.out_helpers = rel, fn, out_helpers

    def bad(self, node: ast.AST, what: str):
        raise Unsupported(f"{self.rel}:{getattr(node, 'lineno', '?')}: {self.fn.name}: {what}")

    # ---- sources of a written value
    def src(self, e: ast.AST) -> str:
        if isinstance(e, ast.Call) and isinstance(e.func, ast.Attribute) and e.func.attr == "get_output_dense" \
                and not e.args and not e.keywords:
            p = _path(e.func.value)
            if p is not None:
                return f"(.outputOf {_s(p)})"
        if isinstance(e, ast.Call) and isinstance(e.func, ast.Name) and e.func.id == "sum" and len(e.args) == 1 \
                and isinstance(e.args[0], ast.GeneratorExp) and len(e.args[0].generators) == 1:
            g = e.args[0]
            c = g.generators[0]
            if isinstance(c.target, ast.Name) and isinstance(c.iter, ast.Call) and isinstance(c.iter.func, ast.Attribute) \
                    and c.iter.func.attr == "parameters" and not c.iter.args:
                w = c.target.id
                p = _path(c.iter.func.value)
                elt_ok = (isinstance(g.elt, ast.Call) and isinstance(g.elt.func, ast.Attribute) and g.elt.func.attr == "numel"
                          and isinstance(g.elt.func.value, ast.Name) and g.elt.func.value.id == w and not g.elt.args)
                if_ok = (len(c.ifs) == 1 and isinstance(c.ifs[0], ast.Attribute) and c.ifs[0].attr == "requires_grad"
                         and isinstance(c.ifs[0].value, ast.Name) and c.ifs[0].value.id == w)
                if p is not None and elt_ok and if_ok:
                    return f"(.countOf {_s(p)})"
        if isinstance(e, ast.Call) and isinstance(e.func, ast.Name) and e.func.id in self.out_helpers and len(e.args) == 1 \
                and not e.keywords:
            p = _path(e.args[0])
            if p is not None:
                return f"(.outputOf {_s(p)})"
        eyes = [n for n in ast.walk(e) if isinstance(n, ast.Call) and _path(n.func) == "torch.eye"]
        if len(eyes) == 1 and len(eyes[0].args) == 1 and not eyes[0].keywords:
            p = _path(eyes[0].args[0])
            if p is not None:
                return f"(.eyeOf {_s(p)})"
        return ".opaque"

    def tracked_target(self, t: ast.AST) -> tuple[str, str] | None:
        if isinstance(t, ast.Attribute) and t.attr in TRACKED_FIELDS and isinstance(t.value, ast.Name):
            return t.value.id, t.attr
        for n in ast.walk(t):
            if n is not t and isinstance(n, ast.Attribute) and n.attr in TRACKED_FIELDS and isinstance(n.ctx, (ast.Store, ast.Del)):
                self.bad(t, f"tracked field `{n.attr}` inside a compound assignment target")
        if isinstance(t, ast.Subscript) and isinstance(t.value, ast.Attribute) and t.value.attr in TRACKED_FIELDS:
            self.bad(t, f"subscript store into tracked field `{t.value.attr}`")
        return None

    @staticmethod
    def is_bandit_test(t: ast.AST) -> bool:
        """`isinstance(<name>, (NeuralTS, NeuralUCB))` (either order): true of the agents this translation is about"""
        if not (isinstance(t, ast.Call) and _path(t.func) == "isinstance" and len(t.args) == 2 and isinstance(t.args[0], ast.Name)):
            return False
        c = t.args[1]
        names = sorted(_path(x) or "?" for x in (c.elts if isinstance(c, ast.Tuple) else [c]))
        return names == ["NeuralTS", "NeuralUCB"]

    # ---- statements
    def block(self, body: list[ast.stmt], loops: list[ast.For]) -> list[str]:
        out: list[str] = []
        for st in body:
            out += self.stmt(st, loops)
        return out

    def stmt(self, st: ast.stmt, loops: list[ast.For]) -> list[str]:
        for n in ast.walk(st):
            if isinstance(n, (ast.FunctionDef, ast.AsyncFunctionDef, ast.Lambda, ast.ClassDef)):
                self.bad(n, "nested def / lambda / class")
        if isinstance(st, ast.If):
            if len(st.body) == 1 and isinstance(st.body[0], ast.Continue) and not st.orelse:
                t = st.test
                name = _path(t.func) if isinstance(t, ast.Call) else None
                return [f".skipWhen {_s(name if name is not None else ast.unparse(t))}"]
            a, b = self.block(st.body, loops), self.block(st.orelse, loops)
            if self.is_bandit_test(st.test) and not st.orelse:
                return a
            if a == b:
                return a
            return [e if e.startswith(".guarded ") else f".guarded ({e})" for e in a + b]
        if isinstance(st, ast.For):
            it = ast.unparse(st.iter)
            if it.endswith("registry.hooks") and isinstance(st.target, ast.Name) and len(st.body) == 1 and not st.orelse:
                b = st.body[0]
                if (isinstance(b, ast.Expr) and isinstance(b.value, ast.Call) and not b.value.args and not b.value.keywords
                        and isinstance(b.value.func, ast.Call) and _path(b.value.func.func) == "getattr"
                        and len(b.value.func.args) == 2 and isinstance(b.value.func.args[0], ast.Name)
                        and isinstance(b.value.func.args[1], ast.Name) and b.value.func.args[1].id == st.target.id):
                    return [f".runHooks {_s(b.value.func.args[0].id)}"]
                self.bad(st, "loop over registry.hooks that is not `getattr(r, hook)()`")
            return self.block(st.body, loops + [st]) + self.block(st.orelse, loops)
        if isinstance(st, ast.While):
            return self.block(st.body, loops) + self.block(st.orelse, loops)
        if isinstance(st, (ast.With, ast.AsyncWith)):
            return self.block(st.body, loops)
        if isinstance(st, ast.Try):
            out = self.block(st.body, loops)
            for h in st.handlers:
                hb = self.block(h.body, loops)
                out += [e if e.startswith(".guarded ") else f".guarded ({e})" for e in hb]
            return out + self.block(st.orelse, loops) + self.block(st.finalbody, loops)
        if isinstance(st, ast.Delete):
            for t in st.targets:
                if isinstance(t, ast.Attribute) and t.attr in TRACKED_FIELDS:
                    self.bad(st, f"del of tracked field `{t.attr}`")
            return []
        if isinstance(st, ast.AugAssign):
            tt = self.tracked_target(st.target)
            return [f".write {_s(tt[0])} {_s(tt[1])} .inplace"] if tt else []
        if isinstance(st, ast.AnnAssign):
            if st.value is None:
                return []
            return self.assign([st.target], st.value, st, loops)
        if isinstance(st, ast.Assign):
            return self.assign(st.targets, st.value, st, loops)
        if isinstance(st, ast.Expr):
            return self.call_event(st.value, None, st, loops)
        return []

    def assign(self, targets: list[ast.AST], value: ast.AST, st: ast.stmt, loops: list[ast.For]) -> list[str]:
        out: list[str] = []
        for t in targets:
            tt = self.tracked_target(t)
            if tt:
                out.append(f".write {_s(tt[0])} {_s(tt[1])} {self.src(value)}")
        if out:
            return out
        if len(targets) == 1 and isinstance(targets[0], ast.Name):
            return self.call_event(value, targets[0].id, st, loops)
        return self.call_event(value, None, st, loops)

    def call_event(self, v: ast.AST, bound: str | None, st: ast.stmt, loops: list[ast.For]) -> list[str]:
        if not isinstance(v, ast.Call):
            return []
        f = v.func
        fp = _path(f)
        # r.mutation_hook() / r.init_params()
        if isinstance(f, ast.Attribute) and f.attr in TRACKED_CALLS:
            if not isinstance(f.value, ast.Name):
                self.bad(st, f"`{f.attr}` called on something that is not a plain name")
            if v.args or v.keywords:
                self.bad(st, f"`{f.attr}` called with arguments")
            return [f".call {_s(f.value.id)} {_s(f.attr)}"]
        if fp == "self.register_mutation_hook":
            if len(v.args) != 1 or v.keywords or not (isinstance(v.args[0], ast.Attribute) and isinstance(v.args[0].value, ast.Name)
                                                       and v.args[0].value.id == "self"):
                self.bad(st, "register_mutation_hook with an argument that is not `self.<method>`")
            return [f".register {_s(v.args[0].attr)}"]
        # constructors
        is_ctor = (fp == "cls" or fp == "self.__class__"
                   or (isinstance(f, ast.Call) and _path(f.func) == "type" and len(f.args) == 1 and _path(f.args[0]) == "self"))
        if is_ctor:
            if bound is None:
                self.bad(st, "constructor call whose result is not bound to a name")
            return [f".construct {_s(bound)}"]
        if fp is not None and fp.endswith("copy_attributes"):
            if len(v.args) != 2 or not all(isinstance(a, ast.Name) for a in v.args):
                self.bad(st, "copy_attributes with arguments that are not two names")
            if bound is not None and bound != v.args[1].id:
                self.bad(st, "result of copy_attributes bound to a name other than its second argument")
            return [f".copyAttrs {_s(v.args[0].id)} {_s(v.args[1].id)}"]
        if fp == "setattr":
            if len(v.args) != 3 or not isinstance(v.args[0], ast.Name):
                self.bad(st, "setattr whose receiver is not a plain name")
            if isinstance(v.args[1], ast.Constant) and v.args[1].value in TRACKED_FIELDS:
                self.bad(st, f"setattr with the constant name of tracked field `{v.args[1].value}`")
            it = ast.unparse(loops[-1].iter) if loops else ""
            return [f".setattr {_s(v.args[0].id)} {_s(ast.unparse(v.args[1]))} {_s(it)}"]
        if fp == "self.to_device_and_set_individual":
            if not v.args or not isinstance(v.args[0], ast.Name):
                self.bad(st, "to_device_and_set_individual whose first argument is not a plain name")
            it = ast.unparse(loops[-1].iter) if loops else ""
            return [f".setattr {_s(v.args[0].id)} \"to_device_and_set_individual\" {_s(it)}"]
        # individual = mutation(individual)
        if isinstance(f, ast.Name) and bound is not None and len(v.args) == 1 and isinstance(v.args[0], ast.Name) \
                and v.args[0].id == bound and not v.keywords:
            loopvars = {n.id for lp in loops for n in ast.walk(lp.target) if isinstance(n, ast.Name)}
            if f.id in loopvars:
                return [f".applyKind {_s(bound)}"]
        return []


def _find(tree: ast.Module, rel: str, cls: str, fn: str) -> ast.FunctionDef:
    for n in tree.body:
        if isinstance(n, ast.ClassDef) and n.name == cls:
            for m in n.body:
                if isinstance(m, ast.FunctionDef) and m.name == fn:
                    return m
    raise Unsupported(f"{rel}: {cls}.{fn} not found")


def _output_helpers(tree: ast.Module) -> set[str]:
    """module-level `def h(x)` whose only return is a name bound (only) by `<name> = x.get_output_dense()`"""
    out = set()
    for n in tree.body:
        if not (isinstance(n, ast.FunctionDef) and len(n.args.args) == 1):
            continue
        x = n.args.args[0].arg
        rets = [r for r in ast.walk(n) if isinstance(r, ast.Return)]
        if len(rets) != 1 or not isinstance(rets[0].value, ast.Name):
            continue
        v = rets[0].value.id
        binds = [a for a in ast.walk(n) if isinstance(a, ast.Assign) and any(isinstance(t, ast.Name) and t.id == v for t in a.targets)]
        if len(binds) == 1 and isinstance(binds[0].value, ast.Call) and _path(binds[0].value.func) == f"{x}.get_output_dense" \
                and not binds[0].value.args:
            out.add(n.name)
    return out


PLAN = [
    (REL_UCB, "NeuralUCB", "UCB", ["__init__", "init_params", "get_action", "learn"]),
    (REL_TS, "NeuralTS", "TS", ["__init__", "init_params", "get_action", "learn"]),
    (REL_BASE, "EvolvableAlgorithm", "Base", ["mutation_hook", "clone", "load_checkpoint", "load"]),
    (REL_MUT, "Mutations", "Mut", ["mutation", "no_mutation", "architecture_mutate", "parameter_mutation",
                                   "activation_mutation", "rl_hyperparam_mutation"]),
]
LEAN_NAME = {"__init__": "ctor", "init_params": "initParams", "get_action": "getAction", "learn": "learn",
             "mutation_hook": "mutationHook", "clone": "clone", "load_checkpoint": "loadCheckpoint", "load": "load",
             "mutation": "mutation", "no_mutation": "kindNone", "architecture_mutate": "kindArch",
             "parameter_mutation": "kindParam", "activation_mutation": "kindAct", "rl_hyperparam_mutation": "kindRlHp"}

PRELUDE = '''/-
  GENERATED by harness/py2lean_banditwire.py — do not edit.
  source: {rel}
  sha256: {sha}

  Per translated function the ordered list of the statements that touch the bookkeeping of the confidence matrix
  (see the translator's docstring for the grammar).  Core Lean only.
-/
namespace BanditWireGen

/-- where a written value comes from -/
inductive Src where
  | outputOf (path : String)   -- `path.get_output_dense()`
  | countOf (path : String)    -- `sum(w.numel() for w in path.parameters() if w.requires_grad)`
  | eyeOf (path : String)      -- an expression around `torch.eye(path)` (its arithmetic: Gen/BanditGen.lean)
  | inplace                    -- augmented assignment
  | opaque
deriving Repr, DecidableEq

inductive Ev where
  | call (recv method : String)
  | register (hook : String)
  | runHooks (recv : String)
  | write (recv field : String) (src : Src)
  | construct (bound : String)
  | copyAttrs (src dst : String)
  | setattr (recv name iter : String)
  | applyKind (recv : String)
  | skipWhen (test : String)
  | guarded (e : Ev)
deriving Repr, DecidableEq
'''


def translate(repo: Path) -> tuple[str, str]:
    h = hashlib.sha256()
    parts: list[str] = []
    for rel, cls, ns, fns in PLAN:
        p = repo / rel
        if not p.exists():
            raise Unsupported(f"{rel}: file not found")
        text = p.read_text()
        h.update(text.encode())
        try:
            tree = ast.parse(text)
        except SyntaxError as e:
            raise Unsupported(f"{rel}: syntax error: {e}")
        parts.append(f"\n/-! ### {cls} ({rel}) -/")
        helpers = _output_helpers(tree)
        for fn in fns:
            node = _find(tree, rel, cls, fn)
            evs = Walker(rel, node, helpers).block(node.body, [])
            body = "[]" if not evs else "[\n    " + ",\n    ".join(evs) + "]"
            parts.append(f"/-- `{cls}.{fn}` (line {node.lineno}) -/\ndef {ns}.{LEAN_NAME[fn]} : List Ev := {body}")
    sha = h.hexdigest()
    text = PRELUDE.format(rel=REL_SOURCE, sha=sha) + "\n".join(parts) + "\n\nend BanditWireGen\n"
    return text, sha


def strip_sha(text: str) -> str:
    text = re.sub(r"^\s*sha256: .*$", "", text, flags=re.M)
    return re.sub(r" \(line \d+\)", "", text)


def write_if_changed(text: str, out: Path, force: bool = False) -> bool:
    out = Path(out)
    if out.exists() and not force:
        if strip_sha(out.read_text()) == strip_sha(text):
            return False
    out.parent.mkdir(parents=True, exist_ok=True)
    out.write_text(text)
    return True


def main(argv=None) -> int:
    ap = argparse.ArgumentParser()
    ap.add_argument("--repo", default=None)
    ap.add_argument("--out", default=str(DEFAULT_OUT))
    ap.add_argument("--stdout", action="store_true")
    ap.add_argument("--force", action="store_true")
    a = ap.parse_args(argv)
    repo = Path(a.repo) if a.repo else repo_dir()
    try:
        text, sha = translate(repo)
    except Unsupported as e:
        print(f"unsupported: {e}", file=sys.stderr)
        return 2
    if a.stdout:
        sys.stdout.write(text)
        return 0
    changed = write_if_changed(text, Path(a.out), a.force)
    print(f"{a.out}: {'written' if changed else 'unchanged'} (source sha256 {sha[:12]})")
    return 0


if __name__ == "__main__":
    sys.exit(main())
