#!/usr/bin/env python3
"""
py2lean_bellman.py — translate the target-network tracking (`soft_update`, which pairs `learn` updates and under
which policy-delay condition) and the Bellman target of the value-based learners DQN, CQN, RainbowDQN, DDPG, TD3,
MADDPG, MATD3 (REPO/agilerl/algorithms/{dqn,cqn,dqn_rainbow,ddpg,td3,maddpg,matd3}.py) into Lean 4.

    python3 harness/py2lean_bellman.py [--repo DIR] [--out FILE] [--stdout] [--force]

Reads the *source text* only (Python `ast`; agilerl / torch are never imported) and writes
lean/Gen/BellmanGen.lean (one namespace per learner: `BellmanGen.DQN`, `.CQN`, `.Rainbow`, `.DDPG`, `.TD3`,
`.MADDPG`, `.MATD3`; core Lean only).  `Proofs/BellmanGenEq.lean` proves the generated definitions equal to
`blend`, `fires`, `runTargets`, `y`, `maxL`, `argmaxL`, `gather`, `rmin` of the hand-written `Model/Bellman.lean`;
`Props/C08.lean` restates the C08 theorems over the generated definitions (`C08_source_translation_*`).

What is translated, per file.  Everything is located *by structure*:
  * THE CLASS = the one top-level class with a SOFT method;  SOFT = its one method whose body is (a docstring,
    scalar assignments and) one loop `for a, b in zip(X.parameters(), Y.parameters()): …`, X / Y a parameter of
    the method or `self.<attr>`;  LEARN = its one method that calls `self.SOFT(…)`;  the LOSS callables = the
    attributes some method assigns `nn.MSELoss(…)` to, and `F.mse_loss` / `torch.nn.functional.mse_loss`.
  * (A) SOFT is executed per entry of the flattened weights: the loop variables are the entries `p0` (of the
    first zipped network) and `p1` (of the second); `.data` is the tensor itself; `t.copy_(e)`, `t.mul_(e)`,
    `t.add_(e[, alpha=c])`, `t.sub_(e[, alpha=c])`, `t.data = e`, `t op= e` write the entry of the tensor they are
    called on.  Output: `soft_update_body … p0 p1 : Rat × Rat` (both entries after the body),
    `soft_update … a0 a1 : List Rat × List Rat` (the two network operands — parameters of SOFT in parameter order,
    then attributes by name — after the loop: `zipLoop`, the entries the zip reaches are rewritten, the others
    stay).  Which operand is read, which is written, `tau` vs `1 - tau`, the constants all flow from the AST.
  * LEARN is *executed symbolically* statement by statement (methods of the class it calls that contain a
    loss call, a SOFT call or an attribute store are inlined with their arguments bound).  Every call
    `self.SOFT(…)` met is recorded with its network operands (`self.<attr>` → key (attr, 0); the loop variable of
    a loop over the agents `for … in [enumerate(]zip(self.<list>, …)[)]` → key (list, i)) and the PATH
    CONDITION under which it runs (the tests of the enclosing `if`s and of earlier `if …: return`s, evaluated
    over the symbolic state: after `self.learn_counter += 1` the test `self.learn_counter % self.policy_freq == 0`
    reads `(self_learn_counter + 1) % self_policy_freq == 0`; after the per-agent loop that runs
    `self.learn_counter[agent_id] += 1` the leaked loop variable `agent_id` names the LAST agent, so the test reads
    the last agent's slot `self_learn_counter_last + 1`).  Output: `updates_on … : Bool` (the common condition
    of all SOFT calls; `true` when unconditional), `<attr>_after` for every counter the condition reads and
    LEARN changes, `soft_updates[_at] … (s : Nets) : Nets` (the SOFT calls in source order on the state
    `Nets = attribute → agent index → flattened weights`; a loop over the agents is a `foldl` over
    `List.range n_agents`), `learn_nets` = `if updates_on then soft_updates else id`.
  * (B) (not for RainbowDQN — its distributional target is property C18): at every LOSS call `crit(a, b)` met
    during the execution the two arguments are evaluated in the symbolic state of that point, per batch row.
    The argument that is a computed arithmetic expression is the TARGET, the other the PREDICTION; all LOSS
    calls of a learner must have one and the same target.  Output: `target … : Rat`, `pred[k] … : Rat`.
    Inputs of these definitions (their NAMES flow from the AST and are pinned by named arguments in the proofs):
      - `self_<attr>`: scalar attributes (`self.gamma : Rat`, `self.double : Bool`, …; type by inference);
      - experience fields `reward`, `done`, `action`, … (`experiences["reward"]`; position k of a 5-tuple batch is
        field k of (obs, action, reward, next_obs, done)); per-agent entries `rewards[agent_id]` are `reward_i`;
      - network outputs: the value of `self.<net>(args)` / `<loop variable bound to a network>(args)` is an opaque
        input named `<net>[_i]_of_<sorted provenance of the arguments>` where the provenance of an argument is the
        set of experience fields and networks it was computed from (e.g. `critic_target_of_actor_target_next_obs`
        for `self.critic_target(next_obs, clamp(self.actor_target(next_obs) + noise))`).  A row of Q-values
        (`List Rat`) when the code takes `.max(dim=1)`, `.argmax(dim=1)`, `.gather(1, ·)` of it, else one number.
    Statements and expressions the executor cannot follow do not stop it: what they may have changed becomes a
    BLOB (an untranslatable value that still carries its provenance).  A blob may be an *argument of a network
    call*; an output (target, prediction, condition, operand of SOFT) that needs the *value* of a blob raises
    `Unsupported` with the file:line of the construct that made it one.  Never guessed.

Supported subset on the way to an output:
  * statements: `x = e`, tuple / chained assignment, `self.a = e`, `x op= e` (in place on a tensor: every alias sees
    it), `self.a op= e`, `self.a[agent key] op= e` inside a loop over the agents, `with torch.no_grad():` and
    `with <net>.no_sync():` (inlined), `if` (both branches executed; values merged: equal → kept, different under
    a translatable test → `if … then … else`, otherwise a blob), `return` as the last statement of a block,
    loops over the agents (body executed once for a symbolic agent `i`; a local it leaves behind is the LAST
    agent's; a local it accumulates into is a blob), expression statements, `assert`, `pass`.
    Any other statement is a black box: locals it mentions and attributes it stores become blobs; a LOSS / SOFT call
    inside one is `Unsupported`.
  * expressions: int / float / bool literals, locals, `self.<attr>`, `+ - * / %`, unary `-`, `not / and / or`,
    comparisons, `a if c else b`, `experiences["key"]`, `{k: v.to(…) for k, v in d.items()}` (identity),
    `d[agent key]`, `self.<list>[i]`, `t.max(dim=1)[0|1]`, `.argmax(dim=1)`, `.gather(1, idx)`, `.long()`,
    `torch.min(a, b)`, `torch.max(a, b)`, `torch.minimum`, `torch.maximum`.

Assumptions (the forms met are listed in the header of the generated file):
  * floats are exact rationals; per batch row: a `(batch,)` and a `(batch, 1)` tensor are the same column (broadcasting
    between them is NOT modelled — the loss suite of harness/c08.py compares the real loss);
  * identity on a row: `.to .cpu .detach .float .double .clone .contiguous .squeeze .unsqueeze .view .reshape`
    (the last four only on one number per row), `.data`, `torch.no_grad()`, `<net>.no_sync()`;
  * paired parameter tensors have equal shapes (the model flattens the weights);
  * network forward passes, `self.preprocess_observation`, `self.stack_critic_observations`, `torch.*` functions
    without `out=` and without trailing underscore, methods of the class without attribute stores do not change their
    arguments or attributes; `preprocess_observation` keeps the provenance of its argument;
  * the lists zipped in a loop over the agents have one entry per agent (`n_agents ≥ 1`), agent keys are distinct;
  * `argmax` / `max(dim)[1]` = index of the first maximum; an index outside a row reads 0 (torch: error).

The header carries the sha256 of the seven source files; `write_if_changed` compares everything *but* that line.
"""
from __future__ import annotations

import ast
import hashlib
import os
import sys
from fractions import Fraction
from pathlib import Path

HERE = Path(__file__).resolve().parent
DEFAULT_OUT = HERE.parent / "lean" / "Gen" / "BellmanGen.lean"
TARGETS = (            # namespace, source, translate the Bellman target (B)?
    ("DQN", "agilerl/algorithms/dqn.py", True),
    ("CQN", "agilerl/algorithms/cqn.py", True),
    ("Rainbow", "agilerl/algorithms/dqn_rainbow.py", False),      # distributional target: property C18
    ("DDPG", "agilerl/algorithms/ddpg.py", True),
    ("TD3", "agilerl/algorithms/td3.py", True),
    ("MADDPG", "agilerl/algorithms/maddpg.py", True),
    ("MATD3", "agilerl/algorithms/matd3.py", True),
)
REL_SOURCES = tuple(t[1] for t in TARGETS)
REL_SOURCE = "agilerl/algorithms/{dqn,cqn,dqn_rainbow,ddpg,td3,maddpg,matd3}.py"   # messages only
SHA_PREFIX = "-- sha256(source) = "
FIELD_ORDER = ("obs", "action", "reward", "next_obs", "done")

ID_METHODS = {"to", "cpu", "cuda", "detach", "float", "double", "clone", "contiguous"}
RESHAPE_METHODS = {"squeeze", "unsqueeze", "view", "reshape"}
PURE_METHODS = {"values", "items", "keys", "mean", "sum", "item", "size", "dim", "numel", "any", "all", "tolist", "get",
                "numpy", "type", "parameters", "abs", "pow", "clamp", "exp", "log", "softmax", "eval", "train"}
INPLACE_METHODS = {"copy_", "mul_", "add_", "sub_"}
PURE_INHERITED = {"preprocess_observation", "stack_critic_observations"}
PURE_BUILTINS = {"isinstance", "len", "list", "dict", "tuple", "zip", "enumerate", "range", "float", "int", "str", "bool",
                 "min", "max", "abs", "sum", "sorted", "reversed", "all", "any", "getattr", "hasattr", "type", "print"}
FRESH_TORCH = {"empty_like", "zeros_like", "ones_like", "rand_like", "randn_like", "empty", "zeros", "ones", "rand", "randn"}
ARITH = {ast.Add: "+", ast.Sub: "-", ast.Mult: "*", ast.Div: "/", ast.Mod: "%"}
CMP = {ast.Eq: "=", ast.NotEq: "≠", ast.Lt: "<", ast.LtE: "≤", ast.Gt: ">", ast.GtE: "≥"}


class Unsupported(Exception):
    pass


_current_file = [REL_SOURCE]


def where(node) -> str:
    return f"{_current_file[0]}:{getattr(node, 'lineno', '?')}"


def unparse(n, k: int = 70) -> str:
    s = " ".join(ast.unparse(n).split())
    return s if len(s) <= k else s[:k] + "…"


def is_docstring(st) -> bool:
    return isinstance(st, ast.Expr) and isinstance(st.value, ast.Constant) and isinstance(st.value.value, str)


def is_self(n) -> bool:
    return isinstance(n, ast.Name) and n.id == "self"


def self_attr(n):
    """'x' for the AST of `self.x`"""
    return n.attr if isinstance(n, ast.Attribute) and is_self(n.value) else None


# ---------------------------------------------------------------------------------------------- types
class Ty:
    """union-find type variable; con ∈ {None, 'Nat', 'Rat', 'Bool', 'Vec'}"""

    def __init__(self, con=None):
        self.con, self.up = con, None

    def find(self) -> "Ty":
        t = self
        while t.up is not None:
            t = t.up
        return t


def unify(a: Ty, b: Ty) -> bool:
    a, b = a.find(), b.find()
    if a is b:
        return True
    if a.con is not None and b.con is not None and a.con != b.con:
        return False
    if a.con is None:
        a.up = b
    else:
        b.up = a
    return True


def con(t: Ty):
    return t.find().con


LEAN_TY = {"Nat": "Nat", "Rat": "Rat", "Bool": "Bool", "Vec": "List Rat"}
PRELUDE_SIG = {"rowMax": (("Vec",), "Rat"), "rowArgmax": (("Vec",), "Nat"), "rowGather": (("Vec", "Nat"), "Rat"),
               "tmin": (("Rat", "Rat"), "Rat"), "tmax": (("Rat", "Rat"), "Rat"), "truncNat": (("Rat",), "Nat")}


# ---------------------------------------------------------------------------------------------- expression IR
class E:
    """op ∈ num | bool | param | + - * / % | neg | cmp | and | or | not | ite | call;  aux: literal / parameter
    descriptor / comparison symbol / prelude function"""
    __slots__ = ("op", "args", "aux", "ty", "_key")

    def __init__(self, op, args=(), aux=None, ty=None):
        self.op, self.args, self.aux, self.ty = op, tuple(args), aux, ty or Ty()
        self._key = None

    def key(self):
        if self._key is None:
            self._key = (self.op, self.aux if self.op != "param" else self.aux.ident(), tuple(a.key() for a in self.args))
        return self._key

    def params(self, acc=None) -> dict:
        acc = {} if acc is None else acc
        if self.op == "param":
            acc[self.aux.ident()] = self
        for a in self.args:
            a.params(acc)
        return acc


class PDesc:
    """descriptor of an input: group 0 self attribute, 1 experience field, 2 network output, 3 loop entry;
    pieces: ((text, agent index | None), …) — the name is the pieces joined by `_`; tokens: provenance"""

    def __init__(self, group: int, pieces, tokens=frozenset()):
        self.group, self.pieces, self.tokens = group, tuple(pieces), frozenset(tokens)

    def ident(self):
        return (self.group, self.pieces)

    def name(self) -> str:
        return "_".join(t if i is None else f"{t}_{i}" for t, i in self.pieces)

    def has_idx(self, idx) -> bool:
        return any(i == idx for _, i in self.pieces)

    def subst(self, old, new) -> "PDesc":
        return PDesc(self.group, [(t, new if i == old else i) for t, i in self.pieces],
                     [(t, new if i == old else i) for t, i in self.tokens])


def tok_name(tok) -> str:
    t, i = tok
    return t if i is None else f"{t}_{i}"


# ---------------------------------------------------------------------------------------------- symbolic values
class Val:
    """kind: sc (.e IR, .obj identity of the tensor object | None) | blob (.deps provenance tokens, .why) |
    selfattr (.attr) | elem (.attr, .idx: entry of a per-agent list / dict attribute) | aidx (.idx) | exp |
    field (.key, .idx) | tup (.items) | none | str (.s) | module (.s) | meth (.s) | params (.of Val) |
    items (.of field Val)"""

    def __init__(self, kind, **kw):
        self.kind = kind
        self.__dict__.update(kw)


def blob(deps, why: str) -> Val:
    return Val("blob", deps=frozenset(deps), why=why)


NONE = Val("none")


# ---------------------------------------------------------------------------------------------- symbolic execution
class Machine:
    """symbolic state of one learner class + the executor of its methods"""

    def __init__(self, rel: str, cls: ast.ClassDef, soft_name: str | None, loss_attrs: set):
        self.rel, self.cls, self.soft_name, self.loss_attrs = rel, cls, soft_name, loss_attrs
        self.methods = {f.name: f for f in cls.body if isinstance(f, ast.FunctionDef)}
        self.assigned_attrs = {x.attr for x in ast.walk(cls) if isinstance(x, ast.Attribute) and is_self(x.value)
                               and isinstance(x.ctx, ast.Store)}
        self.soft_operands = None            # set by translate_soft: [("param", name) | ("attr", name)] * 2
        self.pmap: dict = {}
        self.locals: dict[str, Val] = {}
        self.attrs: dict[str, Val] = {}
        self.dirty: set = set()
        self.unknown: str | None = None
        self.slots: dict[str, Val] = {}
        self.slotfun: dict[str, Val] = {}
        self.objval: dict = {}
        self.path: list = []                 # [(E | None, polarity, why)]
        self.loop = None
        self.loopnode = None
        self.rets: list = []
        self.end_states: list = []
        self.stack: list[str] = []
        self.soft_sites: list = []
        self.loss_sites: list = []
        self.assumed: set[str] = set()
        self.notvec: list = []
        self.natsub: list = []
        self.stored_attrs: set = set()
        self.loop_lists: list = []
        self._inline: dict = {}
        self.nobj = 0

    # ------------------------------------------------------------------ small helpers
    def new_obj(self):
        self.nobj += 1
        return self.nobj

    def param(self, desc: PDesc, c=None) -> E:
        k = desc.ident()
        if k not in self.pmap:
            self.pmap[k] = E("param", aux=desc, ty=Ty(c))
        elif c is not None:
            unify(self.pmap[k].ty, Ty(c))
        return self.pmap[k]

    def sc(self, e: E, obj=None) -> Val:
        return Val("sc", e=e, obj=obj)

    def bad(self, n, what: str, deps=()) -> Val:
        return blob(deps, f"{where(n)}: unsupported construct: {what}")

    def snapshot(self):
        return (dict(self.locals), dict(self.attrs), set(self.dirty), self.unknown, dict(self.slots), dict(self.slotfun),
                dict(self.objval))

    def restore(self, s):
        self.locals, self.attrs, self.dirty, self.unknown, self.slots, self.slotfun, self.objval = \
            dict(s[0]), dict(s[1]), set(s[2]), s[3], dict(s[4]), dict(s[5]), dict(s[6])

    def deps(self, v: Val) -> frozenset:
        if v.kind == "sc":
            out = set()
            for p in v.e.params().values():
                d = p.aux
                if d.group == 1:
                    out.add(d.pieces[0])
                elif d.group == 2:
                    out |= d.tokens
            return frozenset(out)
        if v.kind == "blob":
            return v.deps
        if v.kind == "field":
            return frozenset([(v.key, v.idx)])
        if v.kind == "tup":
            return frozenset().union(*[self.deps(x) for x in v.items]) if v.items else frozenset()
        if v.kind in ("params", "items"):
            return self.deps(v.of)
        return frozenset()

    def deps_all(self, vs) -> frozenset:
        out = frozenset()
        for v in vs:
            out |= self.deps(v)
        return out

    def resolve(self, v: Val) -> Val:
        if v.kind == "sc" and v.obj is not None and v.obj in self.objval:
            return self.objval[v.obj]
        if v.kind == "field" and ("field", v.key, v.idx) in self.objval:
            return self.objval[("field", v.key, v.idx)]
        return v

    # ------------------------------------------------------------------ values as numbers
    def as_sc(self, n, v: Val, what: str) -> Val:
        v = self.resolve(v)
        if v.kind in ("sc", "blob"):
            return v
        if v.kind == "field":
            return self.sc(self.param(PDesc(1, [(v.key, v.idx)])), obj=("field", v.key, v.idx))
        if v.kind == "selfattr":
            if v.attr in self.dirty:
                return self.bad(n, f"value of `self.{v.attr}` after a call that may have changed it in place")
            return self.sc(self.param(PDesc(0, [("self_" + v.attr, None)])))
        if v.kind == "elem":
            return self.slot_read(n, v.attr, v.idx)
        return self.bad(n, f"{what}: a value of kind {v.kind} where a number is needed", self.deps(v))

    def slot_read(self, n, attr: str, idx) -> Val:
        if attr in self.attrs:
            o = self.attrs[attr]
            return o if o.kind == "blob" else self.bad(n, f"entry of `self.{attr}` after it was rebound")
        if self.unknown:
            return blob((), self.unknown)
        if attr in self.dirty:
            return self.bad(n, f"entry of `self.{attr}` after a call that may have changed it in place")
        if idx == "i" and attr in self.slots:
            return self.slots[attr]
        if attr in self.slotfun:
            return self.slotfun[attr] if idx == "i" else self.subst_val(self.slotfun[attr], "i", idx)
        return self.sc(self.param(PDesc(0, [("self_" + attr, idx)])))

    def as_bool(self, n, v: Val):
        s = self.as_sc(n, v, "condition")
        if s.kind == "sc" and unify(s.e.ty, Ty("Bool")):
            return s
        return s if s.kind == "blob" else self.bad(n, "a number used as a condition", self.deps(s))

    def read_attr(self, n, attr: str) -> Val:
        if attr in self.attrs:
            return self.attrs[attr]
        if self.unknown:
            return blob((), self.unknown)
        return Val("selfattr", attr=attr)

    # ------------------------------------------------------------------ IR constructors
    def arith(self, n, op: str, a: Val, b: Val) -> Val:
        a, b = self.as_sc(n, a, f"`{op}`"), self.as_sc(n, b, f"`{op}`")
        if a.kind == "blob" or b.kind == "blob":
            return blob(self.deps(a) | self.deps(b), (a if a.kind == "blob" else b).why)
        r = E(op, [a.e, b.e])
        ok = unify(a.e.ty, b.e.ty) and unify(r.ty, a.e.ty)
        if op == "%":
            ok = ok and unify(r.ty, Ty("Nat"))
        if op == "/":
            ok = ok and unify(r.ty, Ty("Rat"))
        if op == "-":
            self.natsub.append((r.ty, where(n)))
        if not ok:
            return self.bad(n, f"`{unparse(n)}`: operands of `{op}` have different types "
                               f"({con(a.e.ty)}, {con(b.e.ty)})", self.deps(a) | self.deps(b))
        return self.sc(r, obj=self.new_obj())

    def prelude(self, n, fname: str, args: list) -> Val:
        sig, res = PRELUDE_SIG[fname]
        ss = [self.as_sc(n, a, fname) for a in args]
        for s in ss:
            if s.kind == "blob":
                return blob(self.deps_all(ss), s.why)
        for s, c in zip(ss, sig):
            if not unify(s.e.ty, Ty(c)):
                return self.bad(n, f"`{unparse(n)}`: a value of type {con(s.e.ty)} where {c} is needed", self.deps_all(ss))
        return self.sc(E("call", [s.e for s in ss], aux=fname, ty=Ty(res)), obj=self.new_obj())

    def subst_e(self, e: E, old, new) -> E:
        if e.op == "param":
            if not e.aux.has_idx(old):
                return e
            p = self.param(e.aux.subst(old, new))
            unify(p.ty, e.ty)
            return p
        if not e.args:
            return e
        return E(e.op, [self.subst_e(a, old, new) for a in e.args], e.aux, e.ty)

    def subst_val(self, v: Val, old, new) -> Val:
        if v.kind == "sc":
            return self.sc(self.subst_e(v.e, old, new), obj=self.new_obj())
        if v.kind == "blob":
            return blob([(t, new if i == old else i) for t, i in v.deps], v.why)
        if v.kind in ("field", "elem", "aidx"):
            if v.idx != old:
                return v
            d = dict(v.__dict__)
            d["idx"] = new
            return Val(**d)
        if v.kind == "tup":
            return Val("tup", items=[self.subst_val(x, old, new) for x in v.items])
        return v

    def same(self, a: Val, b: Val) -> bool:
        if a is b:
            return True
        if a.kind != b.kind:
            return False
        if a.kind == "sc":
            return a.e.key() == b.e.key()
        if a.kind == "field":
            return (a.key, a.idx) == (b.key, b.idx)
        if a.kind in ("elem",):
            return (a.attr, a.idx) == (b.attr, b.idx)
        if a.kind == "selfattr":
            return a.attr == b.attr
        if a.kind == "aidx":
            return a.idx == b.idx
        if a.kind in ("none", "exp"):
            return True
        if a.kind in ("str", "module", "meth"):
            return a.s == b.s
        if a.kind == "tup":
            return len(a.items) == len(b.items) and all(self.same(x, y) for x, y in zip(a.items, b.items))
        return False

    # ------------------------------------------------------------------ expressions
    def ev(self, n) -> Val:
        if isinstance(n, ast.Constant):
            c = n.value
            if c is None:
                return NONE
            if isinstance(c, bool):
                return self.sc(E("bool", aux=c, ty=Ty("Bool")))
            if isinstance(c, int):
                return self.sc(E("num", aux=Fraction(c)))
            if isinstance(c, float):
                if c != c or abs(c) == float("inf"):
                    return self.bad(n, f"float constant {c!r}")
                return self.sc(E("num", aux=Fraction(c), ty=Ty("Rat")))
            if isinstance(c, str):
                return Val("str", s=c)
            return self.bad(n, f"constant {c!r}")
        if isinstance(n, ast.Name):
            if n.id in self.locals:
                return self.resolve(self.locals[n.id])
            if n.id in ("torch", "np", "numpy", "F", "nn", "copy", "math", "random", "warnings"):
                return Val("module", s=n.id)
            return self.bad(n, f"name `{n.id}`")
        if isinstance(n, ast.Attribute):
            if is_self(n.value):
                return Val("meth", s=n.attr) if n.attr in self.methods else self.read_attr(n, n.attr)
            v = self.ev(n.value)
            if v.kind == "module":
                return Val("module", s=v.s + "." + n.attr)
            if n.attr == "data" and v.kind in ("sc", "field"):
                self.assumed.add("`.data` is the tensor itself")
                return v
            if v.kind == "tup" and n.attr in ("values", "indices") and getattr(v, "maxpair", False):
                return v.items[0 if n.attr == "values" else 1]
            if v.kind == "blob":
                return v
            return self.bad(n, f"attribute `.{n.attr}` of a value of kind {v.kind}", self.deps(v))
        if isinstance(n, ast.UnaryOp):
            v = self.ev(n.operand)
            if isinstance(n.op, ast.Not):
                s = self.as_bool(n, v)
                return s if s.kind == "blob" else self.sc(E("not", [s.e], ty=Ty("Bool")))
            if isinstance(n.op, ast.USub):
                s = self.as_sc(n, v, "unary minus")
                if s.kind == "blob":
                    return s
                if s.e.op == "num":
                    return self.sc(E("num", aux=-s.e.aux, ty=s.e.ty))
                self.natsub.append((s.e.ty, where(n)))
                return self.sc(E("neg", [s.e], ty=s.e.ty), obj=self.new_obj())
            return self.bad(n, f"unary operator {type(n.op).__name__}", self.deps(v))
        if isinstance(n, ast.BinOp):
            a, b = self.ev(n.left), self.ev(n.right)
            op = ARITH.get(type(n.op))
            if op is None:
                return self.bad(n, f"operator {type(n.op).__name__}", self.deps(a) | self.deps(b))
            return self.arith(n, op, a, b)
        if isinstance(n, ast.Compare):
            items = [self.ev(n.left)] + [self.ev(c) for c in n.comparators]
            if any(type(o) not in CMP for o in n.ops):
                return self.bad(n, f"comparison `{unparse(n)}`", self.deps_all(items))
            ss = [self.as_sc(n, x, "comparison") for x in items]
            for s in ss:
                if s.kind == "blob":
                    return blob(self.deps_all(ss), s.why)
            parts = []
            for o, x, y in zip(n.ops, ss, ss[1:]):
                if not unify(x.e.ty, y.e.ty) or con(x.e.ty) in ("Bool", "Vec"):
                    return self.bad(n, f"comparison `{unparse(n)}` of values of types {con(x.e.ty)}, {con(y.e.ty)}")
                parts.append(E("cmp", [x.e, y.e], aux=CMP[type(o)], ty=Ty("Bool")))
            e = parts[0]
            for p in parts[1:]:
                e = E("and", [e, p], ty=Ty("Bool"))
            return self.sc(e)
        if isinstance(n, ast.BoolOp):
            ss = [self.as_bool(x, self.ev(x)) for x in n.values]
            for s in ss:
                if s.kind == "blob":
                    return blob(self.deps_all(ss), s.why)
            e = ss[0].e
            for s in ss[1:]:
                e = E("and" if isinstance(n.op, ast.And) else "or", [e, s.e], ty=Ty("Bool"))
            return self.sc(e)
        if isinstance(n, ast.IfExp):
            c, a, b = self.ev(n.test), self.ev(n.body), self.ev(n.orelse)
            return self.merge_vals(n, self.as_bool(n, c), a, b, f"`{unparse(n, 40)}`")
        if isinstance(n, (ast.Tuple, ast.List)):
            if any(isinstance(x, ast.Starred) for x in n.elts):
                return self.bad(n, "starred element", self.deps_all([self.ev(x.value if isinstance(x, ast.Starred) else x) for x in n.elts]))
            return Val("tup", items=[self.ev(x) for x in n.elts])
        if isinstance(n, ast.Subscript):
            return self.subscript(n)
        if isinstance(n, ast.Call):
            return self.call(n)
        if isinstance(n, ast.DictComp):
            return self.dictcomp(n)
        if isinstance(n, ast.JoinedStr):
            return blob((), f"{where(n)}: unsupported construct: f-string")
        # anything else: a value computed from the locals it mentions
        ds = self.deps_all([self.locals[x.id] for x in ast.walk(n) if isinstance(x, ast.Name) and x.id in self.locals])
        return self.bad(n, f"{type(n).__name__} `{unparse(n, 40)}`", ds)

    def merge_vals(self, n, c: Val, a: Val, b: Val, what: str) -> Val:
        """the value that is `a` when `c` holds and `b` otherwise (c: sc Bool | blob | None = untranslatable test)"""
        if self.same(a, b):
            return a
        if c is not None and c.kind == "sc":
            x, y = self.as_sc(n, a, what), self.as_sc(n, b, what)
            if x.kind == "sc" and y.kind == "sc" and unify(x.e.ty, y.e.ty):
                return self.sc(E("ite", [c.e, x.e, y.e], ty=x.e.ty), obj=self.new_obj())
        why = next((v.why for v in (a, b, c) if v is not None and v.kind == "blob"), None) or \
            f"{where(n)}: unsupported construct: {what} has different values in the branches of a test that cannot be translated"
        return blob(self.deps(a) | self.deps(b) | (self.deps(c) if c is not None else frozenset()), why)

    def const_int(self, node):
        if isinstance(node, ast.Constant) and type(node.value) is int:
            return node.value
        if isinstance(node, ast.UnaryOp) and isinstance(node.op, ast.USub) and isinstance(node.operand, ast.Constant) \
                and type(node.operand.value) is int:
            return -node.operand.value
        return None

    def subscript(self, n) -> Val:
        v = self.ev(n.value)
        k = self.ev(n.slice) if not isinstance(n.slice, ast.Slice) else self.bad(n, "slice")
        ci = self.const_int(n.slice)
        if v.kind == "exp" and k.kind == "str":
            return Val("field", key=k.s, idx=None)
        if v.kind == "field" and v.idx is None and k.kind in ("elem", "aidx"):
            return Val("field", key=v.key, idx=k.idx)
        if v.kind == "selfattr" and k.kind in ("elem", "aidx"):
            return Val("elem", attr=v.attr, idx=k.idx)
        if v.kind == "selfattr" and ci is not None and ci >= 0:
            return Val("elem", attr=v.attr, idx=ci)
        if v.kind == "tup" and ci is not None and -len(v.items) <= ci < len(v.items):
            return v.items[ci]
        if v.kind == "blob":
            return blob(self.deps(v) | self.deps(k), v.why)
        return self.bad(n, f"subscript `{unparse(n, 40)}` of a value of kind {v.kind}", self.deps(v) | self.deps(k))

    def dictcomp(self, n: ast.DictComp) -> Val:
        """`{k: v.to(…) for k, v in d.items()}`: the dictionary itself"""
        g = n.generators[0] if len(n.generators) == 1 else None
        if g and not g.ifs and isinstance(g.target, ast.Tuple) and len(g.target.elts) == 2 \
                and all(isinstance(x, ast.Name) for x in g.target.elts) and isinstance(n.key, ast.Name) \
                and n.key.id == g.target.elts[0].id:
            it = self.ev(g.iter)
            if it.kind == "items" and it.of.kind == "field" and it.of.idx is None:
                saved = dict(self.locals)
                self.locals[g.target.elts[0].id] = Val("aidx", idx="k")
                self.locals[g.target.elts[1].id] = Val("field", key=it.of.key, idx="k")
                try:
                    r = self.ev(n.value)
                finally:
                    self.locals = saved
                if r.kind == "field" and (r.key, r.idx) == (it.of.key, "k"):
                    return it.of
                return self.bad(n, "dict comprehension that changes the entries", self.deps(it.of))
        ds = self.deps_all([self.locals[x.id] for x in ast.walk(n) if isinstance(x, ast.Name) and x.id in self.locals])
        return self.bad(n, f"dict comprehension `{unparse(n, 40)}`", ds)

    # ------------------------------------------------------------------ calls
    def ev_args(self, n: ast.Call) -> list:
        out = []
        for a in n.args:
            out.append(self.ev(a.value if isinstance(a, ast.Starred) else a))
        for kw in n.keywords:
            out.append(self.ev(kw.value))
        return out

    def root_local(self, node):
        while isinstance(node, (ast.Attribute, ast.Subscript, ast.Call)):
            node = node.func if isinstance(node, ast.Call) else node.value
        return node.id if isinstance(node, ast.Name) and node.id in self.locals else None

    def poison_local(self, name: str, deps, why: str):
        old = self.locals.get(name)
        ds = frozenset(deps) | (self.deps(old) if old is not None else frozenset())
        b = blob(ds, why)
        if old is not None:
            o = ("field", old.key, old.idx) if old.kind == "field" else getattr(old, "obj", None) if old.kind == "sc" else None
            if o is not None:
                self.objval[o] = b
        self.locals[name] = b

    def poison_args(self, n: ast.Call, why: str):
        """an unknown callee may change the mutable locals it is handed"""
        for a in list(n.args) + [k.value for k in n.keywords]:
            a = a.value if isinstance(a, ast.Starred) else a
            if isinstance(a, ast.Name) and a.id in self.locals and self.locals[a.id].kind in ("sc", "blob", "field", "tup", "exp") \
                    and not (self.locals[a.id].kind == "sc" and self.locals[a.id].obj is None):
                self.poison_local(a.id, (), why)

    def all_unknown(self, why: str):
        self.unknown = why
        for k in list(self.attrs):
            self.attrs[k] = blob((), why)

    def net_call(self, n: ast.Call, attr: str, idx) -> Val:
        args = self.ev_args(n)
        toks = self.deps_all(args)
        pieces = [(attr, idx)] + ([("of", None)] + sorted(toks, key=tok_name) if toks else [("out", None)])
        self.assumed.add("the value of a network call is an input named `<network>_of_<provenance of its arguments>`; "
                         "forward passes change neither their arguments nor the attributes")
        return self.sc(self.param(PDesc(2, pieces, toks | {(attr, idx)})), obj=self.new_obj())

    def call(self, n: ast.Call) -> Val:
        f = n.func
        a = self_attr(f)
        if a is not None:
            if a == self.soft_name:
                return self.soft_call(n)
            if a in self.loss_attrs:
                return self.loss_call(n)
            if a in self.methods:
                return self.method_call(n, a)
            if a in PURE_INHERITED:
                args = self.ev_args(n)
                self.assumed.add(f"`self.{a}(…)` changes neither its argument nor the attributes"
                                 + (" and keeps the provenance of its argument" if a == "preprocess_observation" else ""))
                if a == "preprocess_observation" and len(n.args) == 1 and not n.keywords:
                    return args[0]
                return blob(self.deps_all(args), f"{where(n)}: unsupported construct: value of `self.{a}(…)`")
            if a in self.attrs:
                v = self.attrs[a]
                if v.kind == "elem":
                    return self.net_call(n, v.attr, v.idx)
                return self.bad(n, f"call of `self.{a}` after it was rebound", self.deps_all(self.ev_args(n)))
            if a in self.assigned_attrs and not self.unknown:
                return self.net_call(n, a, None)
            args = self.ev_args(n)
            why = f"{where(n)}: unsupported construct: call of `self.{a}(…)` (neither a method of the class nor an attribute " \
                  f"it assigns): it may assign any attribute"
            self.all_unknown(why)
            self.poison_args(n, why)
            return blob(self.deps_all(args), why)
        if isinstance(f, ast.Name):
            if f.id in self.locals:
                v = self.resolve(self.locals[f.id])
                if v.kind == "elem":
                    return self.net_call(n, v.attr, v.idx)
                if v.kind == "selfattr":
                    return self.net_call(n, v.attr, None)
            args = self.ev_args(n)
            why = f"{where(n)}: unsupported construct: call of `{f.id}(…)`"
            if not (f.id in PURE_BUILTINS and f.id not in self.locals):
                self.poison_args(n, why)
            return blob(self.deps_all(args), why)
        if isinstance(f, ast.Subscript):
            v = self.ev(f)
            if v.kind == "elem":
                return self.net_call(n, v.attr, v.idx)
            why = f"{where(n)}: unsupported construct: call of `{unparse(f, 40)}`"
            self.poison_args(n, why)
            return blob(self.deps(v) | self.deps_all(self.ev_args(n)), why)
        if isinstance(f, ast.Attribute):
            base = self.ev(f.value)
            if base.kind == "module":
                return self.module_call(n, base.s + "." + f.attr)
            return self.value_method(n, base, f.attr)
        why = f"{where(n)}: unsupported construct: call of `{unparse(f, 40)}`"
        self.poison_args(n, why)
        return blob(self.deps_all(self.ev_args(n)), why)

    @staticmethod
    def is_mse_path(path: str) -> bool:
        return path in ("F.mse_loss", "nn.functional.mse_loss", "torch.nn.functional.mse_loss")

    def module_call(self, n: ast.Call, path: str) -> Val:
        if self.is_mse_path(path):
            return self.loss_call(n)
        if path in ("torch.min", "torch.minimum", "torch.max", "torch.maximum") and len(n.args) == 2 and not n.keywords \
                and self.const_int(n.args[1]) is None:
            return self.prelude(n, "tmin" if "min" in path else "tmax", [self.ev(n.args[0]), self.ev(n.args[1])])
        args = self.ev_args(n)
        why = f"{where(n)}: unsupported construct: value of `{path}(…)`"
        last = path.rsplit(".", 1)[-1]
        if path.startswith("torch.") and last in FRESH_TORCH:
            return blob((), why)
        if path == "copy.deepcopy" or (path.startswith("torch.") and not last.endswith("_")
                                       and not any(k.arg == "out" for k in n.keywords)):
            return blob(self.deps_all(args), why)
        self.poison_args(n, why)
        return blob(self.deps_all(args), why)

    def dim_is_one(self, n: ast.Call, extra=()) -> bool:
        """the call has exactly the dimension argument (positional, dim= or axis=) 1 or -1 (+ keepdim=…)"""
        d = None
        if len(n.args) == 1:
            d = self.const_int(n.args[0])
        elif n.args:
            return False
        for kw in n.keywords:
            if kw.arg in ("dim", "axis") and d is None:
                d = self.const_int(kw.value)
            elif kw.arg == "keepdim" and isinstance(kw.value, ast.Constant) and isinstance(kw.value.value, bool):
                pass
            else:
                return False
        return d in (1, -1)

    def value_method(self, n: ast.Call, base: Val, m: str) -> Val:
        f = n.func
        rcv = unparse(f.value, 30)
        if base.kind == "field" and m in ("items", "values", "keys") and not n.args and not n.keywords:
            return Val("items", of=base) if m == "items" else blob(self.deps(base), f"{where(n)}: unsupported construct: `{rcv}.{m}()`")
        if base.kind in ("field", "sc"):
            if m in ID_METHODS:
                self.assumed.add(f"`.{m}(…)` is the identity")
                if m == "clone" and base.kind == "sc":
                    return self.sc(base.e, obj=self.new_obj())
                return base
            if m in RESHAPE_METHODS:
                s = self.as_sc(n, base, m)
                if s.kind == "blob":
                    return s
                if con(s.e.ty) == "Vec":
                    return self.bad(n, f"`.{m}(…)` of a row of values", self.deps(s))
                self.notvec.append((s.e.ty, f"{where(n)}: unsupported construct: `.{m}(…)` of a row of values"))
                self.assumed.add(f"`.{m}(…)` is the identity on one number per row")
                return base
            if m in ("long", "int") and not n.args and not n.keywords:
                s = self.as_sc(n, base, m)
                if s.kind == "blob" or con(s.e.ty) == "Nat":
                    return s
                self.assumed.add(f"`.{m}()` of a (non-negative) entry is `truncNat`")
                return self.prelude(n, "truncNat", [s])
            if m == "max" and self.dim_is_one(n):
                r = Val("tup", items=[self.prelude(n, "rowMax", [base]), self.prelude(n, "rowArgmax", [base])])
                r.maxpair = True
                return r
            if m == "argmax" and self.dim_is_one(n):
                return self.prelude(n, "rowArgmax", [base])
            if m == "gather":
                kw = {k.arg: k.value for k in n.keywords}
                pos = list(n.args)
                d = pos[0] if pos else kw.get("dim")
                i = pos[1] if len(pos) > 1 else kw.get("index")
                if d is not None and i is not None and self.const_int(d) in (1, -1) and len(pos) + len(kw) == 2:
                    return self.prelude(n, "rowGather", [base, self.ev(i)])
                return self.bad(n, f"`{unparse(n, 50)}` (only gather along dimension 1)", self.deps(base) | self.deps_all(self.ev_args(n)))
            if m in INPLACE_METHODS:
                return self.inplace(n, base, m)
        args = self.ev_args(n)
        ds = self.deps(base) | self.deps_all(args)
        why = base.why if base.kind == "blob" else f"{where(n)}: unsupported construct: method `.{m}(…)` of `{rcv}`"
        if base.kind in ("selfattr", "elem"):
            if m == "parameters" and not n.args and not n.keywords:
                return Val("params", of=base)
            if m != "no_sync":
                self.dirty.add(base.attr)
            return blob(ds, why)
        if m in PURE_METHODS or m in ID_METHODS or m in RESHAPE_METHODS:
            return blob(ds, why)
        r = self.root_local(f.value)
        if r is not None:
            self.poison_local(r, ds, why + "; a value it may have changed is needed")
        return blob(ds, why)

    def inplace(self, n: ast.Call, base: Val, m: str) -> Val:
        s = self.as_sc(n, base, m)
        kw = {k.arg: k.value for k in n.keywords}
        if s.kind == "blob":
            return s
        if s.obj is None or len(n.args) != 1 or (set(kw) - {"alpha"}) or (kw and m not in ("add_", "sub_")):
            r = self.root_local(n.func.value)
            why = f"{where(n)}: unsupported construct: `{unparse(n, 50)}`"
            if r is not None:
                self.poison_local(r, (), why)
            return blob(self.deps(s), why)
        e = self.ev(n.args[0])
        if "alpha" in kw:
            e = self.arith(n, "*", self.ev(kw["alpha"]), e)
        new = e if m == "copy_" else self.arith(n, {"mul_": "*", "add_": "+", "sub_": "-"}[m], s, e)
        new = self.as_sc(n, new, m)
        if new.kind == "sc":
            if not unify(new.e.ty, s.e.ty):
                new = self.bad(n, f"`{unparse(n, 50)}`: types differ", self.deps(new))
            else:
                new = self.sc(new.e, obj=s.obj)
        self.objval[s.obj] = new
        return new

    # ------------------------------------------------------------------ calls of methods of the class
    def needs_inline(self, name: str, seen=()) -> bool:
        if name in self._inline:
            return self._inline[name]
        fn = self.methods[name]
        r = False
        for x in ast.walk(fn):
            if isinstance(x, ast.Attribute) and is_self(x.value) and isinstance(x.ctx, (ast.Store, ast.Del)):
                r = True
            elif isinstance(x, (ast.Subscript, ast.Attribute)) and isinstance(x.ctx, (ast.Store, ast.Del)) and self_attr(x.value):
                r = True
            elif isinstance(x, ast.Call) and self.is_site_call(x, seen + (name,)):
                r = True
        self._inline[name] = r
        return r

    def is_site_call(self, x: ast.Call, seen=()) -> bool:
        a = self_attr(x.func)
        if a is not None:
            if a == self.soft_name or a in self.loss_attrs:
                return True
            return a in self.methods and a not in seen and self.needs_inline(a, seen)
        p = []
        f = x.func
        while isinstance(f, ast.Attribute):
            p.append(f.attr)
            f = f.value
        return isinstance(f, ast.Name) and self.is_mse_path(".".join([f.id] + p[::-1]))

    def contains_site(self, st) -> ast.Call | None:
        for x in ast.walk(st):
            if isinstance(x, ast.Call) and self.is_site_call(x):
                return x
        return None

    def bind_args(self, n: ast.Call, fn: ast.FunctionDef) -> dict:
        a = fn.args
        if a.vararg or a.kwarg or a.posonlyargs or not a.args or a.args[0].arg != "self" \
                or any(isinstance(x, ast.Starred) for x in n.args) or any(k.arg is None for k in n.keywords):
            raise Unsupported(f"{where(n)}: unsupported construct: call `{unparse(n, 50)}` (starred arguments / signature of {fn.name})")
        names = [p.arg for p in a.args[1:]]
        if len(n.args) > len(names):
            raise Unsupported(f"{where(n)}: unsupported construct: too many arguments for {fn.name}")
        out = {k: self.ev(v) for k, v in zip(names, n.args)}
        kwonly = [p.arg for p in a.kwonlyargs]
        for k in n.keywords:
            if k.arg in out or k.arg not in names + kwonly:
                raise Unsupported(f"{where(n)}: unsupported construct: argument `{k.arg}` of {fn.name}")
            out[k.arg] = self.ev(k.value)
        defaults = dict(zip(names[len(names) - len(a.defaults):], a.defaults))
        defaults.update({p: d for p, d in zip(kwonly, a.kw_defaults) if d is not None})
        for p in names + kwonly:
            if p not in out:
                if p not in defaults:
                    raise Unsupported(f"{where(n)}: unsupported construct: argument `{p}` of {fn.name} missing")
                saved, self.locals = self.locals, {}
                try:
                    out[p] = self.ev(defaults[p])
                finally:
                    self.locals = saved
        return out

    def method_call(self, n: ast.Call, name: str) -> Val:
        fn = self.methods[name]
        if not self.needs_inline(name):
            args = self.ev_args(n)
            self.assumed.add(f"`self.{name}(…)` (no attribute store, no loss / soft-update call inside) changes neither its "
                             f"arguments nor the attributes")
            return blob(self.deps_all(args), f"{where(n)}: unsupported construct: value of `self.{name}(…)`")
        if name in self.stack:
            raise Unsupported(f"{where(n)}: unsupported construct: recursive call of {name}")
        binding = self.bind_args(n, fn)
        saved = (self.locals, self.rets, list(self.path))
        self.locals, self.rets = binding, []
        self.stack.append(name)
        try:
            self.run_block(fn.body)
            rets = self.rets
        finally:
            self.stack.pop()
            self.locals, self.rets, self.path = saved
        if not rets:
            return NONE
        r = rets[0]
        for x in rets[1:]:
            r = self.merge_vals(n, None, r, x, f"the value `self.{name}(…)` returns")
        return r

    def soft_call(self, n: ast.Call) -> Val:
        fn = self.methods[self.soft_name]
        binding = self.bind_args(n, fn)
        keys = []
        for kind, nm in self.soft_operands:
            v = binding.get(nm) if kind == "param" else self.read_attr(n, nm)
            v = self.resolve(v) if v is not None else None
            if v is not None and v.kind == "selfattr":
                keys.append((v.attr, 0))
            elif v is not None and v.kind == "elem":
                keys.append((v.attr, v.idx))
            else:
                why = v.why if v is not None and v.kind == "blob" else f"a value of kind {getattr(v, 'kind', '?')}"
                raise Unsupported(f"{where(n)}: unsupported construct: operand `{nm}` of `{unparse(n, 60)}` is not a network "
                                  f"attribute / the loop variable of a loop over the agents ({why})")
        if keys[0] == keys[1]:
            raise Unsupported(f"{where(n)}: unsupported construct: `{unparse(n, 60)}` blends a network into itself")
        for c, _pol, why in self.path:
            if c is None:
                raise Unsupported(f"{where(n)}: the soft update `{unparse(n, 60)}` runs under a condition that cannot be "
                                  f"translated ({why})")
        self.soft_sites.append({"keys": keys, "path": list(self.path), "loop": self.loop, "node": n, "loopnode": self.loopnode})
        return NONE

    def loss_call(self, n: ast.Call) -> Val:
        kw = {k.arg: k.value for k in n.keywords}
        pos = list(n.args)
        a = pos[0] if pos else kw.get("input")
        b = pos[1] if len(pos) > 1 else kw.get("target")
        if a is None or b is None or len(pos) > 2 or set(kw) - {"input", "target", "reduction"}:
            raise Unsupported(f"{where(n)}: unsupported construct: loss call `{unparse(n, 60)}`")
        va, vb = self.ev(a), self.ev(b)
        for c, _pol, why in self.path:
            if c is None:
                raise Unsupported(f"{where(n)}: the loss `{unparse(n, 60)}` is computed under a condition that cannot be "
                                  f"translated ({why})")
        self.loss_sites.append({"vals": (va, vb), "path": list(self.path), "loop": self.loop, "node": n})
        return blob(self.deps(va) | self.deps(vb), f"{where(n)}: unsupported construct: value of the loss `{unparse(n, 40)}`")

    # ------------------------------------------------------------------ statements
    def black_box(self, st, what: str):
        """a statement outside the subset: what it may change becomes a blob"""
        c = self.contains_site(st)
        if c is not None:
            raise Unsupported(f"{where(c)}: `{unparse(c, 50)}` stands inside a construct that cannot be followed "
                              f"({where(st)}: {what})")
        for x in ast.walk(st):
            if isinstance(x, ast.Return):       # what follows runs only on the paths that did not return
                self.path = self.path + [(None, True, f"a `return` inside the {what} at {where(st)}")]
                break
        why = f"{where(st)}: unsupported construct: {what}; a value it may have changed is needed"
        names = [x for x in ast.walk(st) if isinstance(x, ast.Name) and x.id != "self"]
        ds = self.deps_all([self.locals[x.id] for x in names if x.id in self.locals])
        for x in names:
            if isinstance(x.ctx, (ast.Store, ast.Del)):
                self.locals[x.id] = blob(ds, why)
            elif x.id in self.locals:
                v = self.locals[x.id]
                if v.kind in ("blob", "field", "tup", "exp") or (v.kind == "sc" and v.obj is not None):
                    self.poison_local(x.id, ds, why)
        for x in ast.walk(st):
            if isinstance(x, (ast.Attribute, ast.Subscript)) and isinstance(x.ctx, (ast.Store, ast.Del)):
                y = x
                while isinstance(y, (ast.Attribute, ast.Subscript)) and self_attr(y) is None:
                    y = y.value
                if self_attr(y):
                    self.attrs[self_attr(y)] = blob(ds, why)
                    self.stored_attrs.add(self_attr(y))
            if isinstance(x, ast.Call) and isinstance(x.func, ast.Attribute):
                chain, y = [], x.func
                while isinstance(y, (ast.Attribute, ast.Subscript)):
                    if isinstance(y, ast.Attribute):
                        chain.append(y.attr)
                    y = y.value
                if is_self(y):
                    chain = chain[::-1]
                    if len(chain) >= 2:
                        self.dirty.add(chain[0])
                    elif chain[0] not in self.methods and chain[0] not in PURE_INHERITED and chain[0] not in self.assigned_attrs:
                        self.all_unknown(why + f" (`self.{chain[0]}(…)` may assign any attribute)")
                    elif chain[0] in self.methods and self.needs_inline(chain[0]):
                        self.all_unknown(why + f" (`self.{chain[0]}(…)` assigns attributes)")

    def store(self, st, tg, v: Val):
        if isinstance(tg, ast.Name):
            self.locals[tg.id] = v
            return
        a = self_attr(tg)
        if a is not None:
            self.attrs[a] = v
            self.stored_attrs.add(a)
            self.slots.pop(a, None)
            self.slotfun.pop(a, None)
            return
        if isinstance(tg, (ast.Tuple, ast.List)) and not any(isinstance(x, ast.Starred) for x in tg.elts):
            v = self.resolve(v)
            if v.kind == "tup" and len(v.items) == len(tg.elts):
                items = v.items
            elif v.kind == "exp" and len(tg.elts) == len(FIELD_ORDER):
                self.assumed.add("a tuple batch holds the fields in the order (obs, action, reward, next_obs, done)")
                items = [Val("field", key=k, idx=None) for k in FIELD_ORDER]
            else:
                b = blob(self.deps(v), v.why if v.kind == "blob" else
                         f"{where(st)}: unsupported construct: unpacking of a value of kind {v.kind}")
                items = [b] * len(tg.elts)
            for t, x in zip(tg.elts, items):
                self.store(st, t, x)
            return
        if isinstance(tg, ast.Subscript) and self_attr(tg.value) and self.loop == "i":
            k = self.ev(tg.slice) if not isinstance(tg.slice, ast.Slice) else NONE
            if k.kind in ("elem", "aidx") and k.idx == "i" and self_attr(tg.value) not in self.attrs:
                self.slots[self_attr(tg.value)] = self.as_sc(st, v, "entry of a per-agent attribute")
                self.stored_attrs.add(self_attr(tg.value))
                self.assumed.add("agent keys are distinct: a store into one agent's entry leaves the other entries")
                return
        if isinstance(tg, ast.Attribute) and tg.attr == "data":
            base = self.ev(tg.value)
            s = self.as_sc(st, base, "`.data =`") if base.kind in ("sc", "field") else None
            if s is not None and s.kind == "sc" and s.obj is not None:
                new = self.as_sc(st, v, "`.data =`")
                self.objval[s.obj] = self.sc(new.e, obj=s.obj) if new.kind == "sc" and unify(new.e.ty, s.e.ty) else \
                    blob(self.deps(new), getattr(new, "why", f"{where(st)}: unsupported construct: `.data =` of another type"))
                return
        # any other target
        why = f"{where(st)}: unsupported construct: assignment target `{unparse(tg, 40)}`; a value it may have changed is needed"
        y = tg
        while isinstance(y, (ast.Attribute, ast.Subscript)) and self_attr(y) is None:
            y = y.value
        if self_attr(y):
            self.attrs[self_attr(y)] = blob(self.deps(v), why)
            self.stored_attrs.add(self_attr(y))
        r = self.root_local(tg)
        if r is not None:
            self.poison_local(r, self.deps(v), why)

    def aug_assign(self, st: ast.AugAssign):
        op = ARITH.get(type(st.op))
        tg = st.target
        ok_tg = isinstance(tg, ast.Name) or self_attr(tg) or (isinstance(tg, ast.Subscript) and self_attr(tg.value)) or \
            (isinstance(tg, ast.Attribute) and tg.attr == "data")
        if op is None or not ok_tg:
            self.black_box(st, f"in-place `{unparse(st, 50)}`")
            return
        load = ast.parse(ast.unparse(tg), mode="eval").body
        ast.copy_location(load, tg)
        for x in ast.walk(load):
            ast.copy_location(x, tg)
        old = self.ev(load)
        new = self.arith(st, op, old, self.ev(st.value))
        if isinstance(tg, ast.Name):
            o = self.resolve(old)
            obj = o.obj if o.kind == "sc" else ("field", o.key, o.idx) if o.kind == "field" else None
            if obj is not None:                     # a tensor: `x op= e` writes into the object every alias shares
                if new.kind == "sc":
                    new = self.sc(new.e, obj=obj)
                self.objval[obj] = new
            self.locals[tg.id] = new
            return
        self.store(st, tg, new)

    def with_inline(self, st: ast.With) -> bool:
        if len(st.items) != 1 or st.items[0].optional_vars is not None:
            return False
        c = st.items[0].context_expr
        if not (isinstance(c, ast.Call) and not c.args and not c.keywords and isinstance(c.func, ast.Attribute)):
            return False
        if c.func.attr == "no_grad" and isinstance(c.func.value, ast.Name) and c.func.value.id == "torch":
            self.assumed.add("`with torch.no_grad():` does not change values")
            return True
        if c.func.attr == "no_sync":
            self.assumed.add("`with <network>.no_sync():` does not change values")
            return True
        return False

    def run_block(self, stmts) -> bool:
        """executes the statements; True if every path through them ends in `return` / `raise`"""
        for k, st in enumerate(stmts):
            if is_docstring(st) or isinstance(st, (ast.Pass, ast.Assert, ast.Import, ast.ImportFrom)):
                continue
            if isinstance(st, ast.Return):
                self.rets.append(self.ev(st.value) if st.value is not None else NONE)
                if len(self.stack) == 1:
                    self.end_states.append(self.snapshot())
                if k != len(stmts) - 1:
                    raise Unsupported(f"{where(stmts[k + 1])}: unsupported construct: statement after `return`")
                return True
            if isinstance(st, ast.Raise):
                return True
            if isinstance(st, ast.Assign):
                v = self.ev(st.value)
                for tg in st.targets:
                    self.store(st, tg, v)
                continue
            if isinstance(st, ast.AnnAssign):
                if st.value is not None:
                    self.store(st, st.target, self.ev(st.value))
                continue
            if isinstance(st, ast.AugAssign):
                self.aug_assign(st)
                continue
            if isinstance(st, ast.Expr):
                self.ev(st.value)
                continue
            if isinstance(st, ast.With) and self.with_inline(st):
                if self.run_block(st.body):
                    return True
                continue
            if isinstance(st, ast.If):
                if self.if_stmt(st):
                    if k != len(stmts) - 1:
                        raise Unsupported(f"{where(stmts[k + 1])}: unsupported construct: statement after `return`")
                    return True
                continue
            if isinstance(st, ast.For) and self.agent_loop(st):
                continue
            self.black_box(st, f"{type(st).__name__} statement `{unparse(st, 40)}`")
        return False

    def if_stmt(self, st: ast.If) -> bool:
        c = self.as_bool(st.test, self.ev(st.test))
        if c.kind == "sc":
            ce, why = c.e, None
        else:
            ce, why = None, f"`{unparse(st.test, 50)}` at {where(st)}" + (f": {c.why}" if c.kind == "blob" else "")
        s0, p0 = self.snapshot(), list(self.path)
        self.path = p0 + [(ce, True, why)]
        t1 = self.run_block(st.body)
        s1, p1 = self.snapshot(), self.path
        self.restore(s0)
        self.path = p0 + [(ce, False, why)]
        t2 = self.run_block(st.orelse)
        s2, p2 = self.snapshot(), self.path
        if t1 and t2:
            return True
        if t1:
            self.path = p2
            return False
        if t2:
            self.restore(s1)
            self.path = p1
            return False
        if len(p1) != len(p0) + 1 or len(p2) != len(p0) + 1:
            self.path = p0 + [(None, True, f"an early `return` inside the `if` at {where(st)}")]
        else:
            self.path = p0
        # merge
        what = lambda k: f"`{k}` after the `if` at line {st.lineno}"
        cv = c if c.kind == "sc" else None
        out_l = {}
        for k in dict.fromkeys(list(s1[0]) + list(s2[0])):
            a, b = s1[0].get(k), s2[0].get(k)
            if a is None or b is None:
                out_l[k] = blob(self.deps(a or b), f"{where(st)}: unsupported construct: `{k}` is assigned in one branch of the `if` only")
            else:
                out_l[k] = self.merge_vals(st, cv, a, b, what(k))
        out_a = {}
        for k in dict.fromkeys(list(s1[1]) + list(s2[1])):
            a = s1[1].get(k) or (blob((), s1[3]) if s1[3] else Val("selfattr", attr=k))
            b = s2[1].get(k) or (blob((), s2[3]) if s2[3] else Val("selfattr", attr=k))
            out_a[k] = self.merge_vals(st, cv, a, b, what("self." + k))
        out_s = {}
        for k in dict.fromkeys(list(s1[4]) + list(s2[4])):
            self.restore(s1)
            a = self.slot_read(st, k, "i")
            self.restore(s2)
            b = self.slot_read(st, k, "i")
            out_s[k] = self.merge_vals(st, cv, a, b, what(f"self.{k}[…]"))
        out_f = {}
        for k in dict.fromkeys(list(s1[5]) + list(s2[5])):
            a, b = s1[5].get(k), s2[5].get(k)
            out_f[k] = a if a is not None and b is not None and self.same(a, b) else \
                blob((), f"{where(st)}: unsupported construct: `self.{k}[…]` is changed in one branch of the `if` only")
        out_o = {}
        for k in dict.fromkeys(list(s1[6]) + list(s2[6])):
            a, b = s1[6].get(k), s2[6].get(k)
            if a is None or b is None:
                x = a or b
                out_o[k] = blob(self.deps(x), f"{where(st)}: unsupported construct: a tensor is changed in place in one branch of the `if` only")
            else:
                out_o[k] = self.merge_vals(st, cv, a, b, "a tensor changed in place")
        self.locals, self.attrs, self.dirty, self.unknown = out_l, out_a, s1[2] | s2[2], s1[3] or s2[3]
        self.slots, self.slotfun, self.objval = out_s, out_f, out_o
        return False

    # ------------------------------------------------------------------ loops over the agents
    def agent_loop(self, st: ast.For) -> bool:
        if st.orelse or self.loop is not None:
            return False
        it, tg, idx_t = st.iter, st.target, None
        if isinstance(it, ast.Call) and isinstance(it.func, ast.Name) and it.func.id == "enumerate" and len(it.args) == 1 \
                and not it.keywords and isinstance(tg, ast.Tuple) and len(tg.elts) == 2:
            idx_t, tg, it = tg.elts[0], tg.elts[1], it.args[0]
        if self_attr(it):
            lists, tgs = [self_attr(it)], [tg]
        elif isinstance(it, ast.Call) and isinstance(it.func, ast.Name) and it.func.id == "zip" and not it.keywords \
                and it.args and all(self_attr(a) for a in it.args) and isinstance(tg, ast.Tuple) and len(tg.elts) == len(it.args):
            lists, tgs = [self_attr(a) for a in it.args], list(tg.elts)
        else:
            return False
        if not all(isinstance(t, ast.Name) for t in tgs) or (idx_t is not None and not isinstance(idx_t, ast.Name)):
            return False
        if any(a in self.attrs or a in self.methods for a in lists) or self.unknown:
            return False
        if any(isinstance(x, (ast.Break, ast.Continue, ast.Return, ast.Yield, ast.YieldFrom)) for x in ast.walk(st)):
            return False
        self.assumed.add("the list attributes a loop over the agents iterates have one entry per agent (`n_agents` ≥ 1 entries)")
        self.loop_lists += lists
        before_l, before_a, p0 = dict(self.locals), dict(self.attrs), list(self.path)
        for a in self.slotfun:
            self.slots.setdefault(a, self.slotfun[a])
        for a, t in zip(lists, tgs):
            self.locals[t.id] = Val("elem", attr=a, idx="i")
        if idx_t is not None:
            self.locals[idx_t.id] = Val("aidx", idx="i")
        self.loop, self.loopnode = "i", st
        try:
            self.run_block(st.body)
        finally:
            self.loop, self.loopnode = None, None
        self.path = p0
        why = f"{where(st)}: unsupported construct: a value accumulated over the iterations of the loop over the agents is needed"
        gen = lambda ds: frozenset((t, None if i == "i" else i) for t, i in ds)
        for k, v in list(self.locals.items()):
            if k in before_l and before_l[k] is v:
                continue
            if k in before_l and k not in [t.id for t in tgs] and (idx_t is None or k != idx_t.id):
                self.locals[k] = blob(gen(self.deps(before_l[k]) | self.deps(v)), v.why if v.kind == "blob" else why)
            else:
                self.locals[k] = self.subst_val(v, "i", "last")
        for k, v in list(self.attrs.items()):
            if not (k in before_a and before_a[k] is v):
                self.attrs[k] = blob(gen(self.deps(v)), v.why if v.kind == "blob" else why)
        for k, v in list(self.objval.items()):
            if v.kind == "sc" and any(p.aux.has_idx("i") for p in v.e.params().values()):
                self.objval[k] = blob(gen(self.deps(v)), why)
        for a, v in self.slots.items():
            self.slotfun[a] = v
        self.slots = {}
        return True

    # ------------------------------------------------------------------ a whole method
    def run_method(self, fn: ast.FunctionDef, first_is_batch: bool):
        a = fn.args
        if a.vararg or a.kwarg or a.posonlyargs or not a.args or a.args[0].arg != "self":
            raise Unsupported(f"{where(fn)}: unsupported construct: signature of {fn.name}")
        self.locals = {}
        for i, p in enumerate(a.args[1:] + a.kwonlyargs):
            self.locals[p.arg] = Val("exp") if (i == 0 and first_is_batch) else \
                blob((), f"{where(fn)}: unsupported construct: parameter `{p.arg}` of {fn.name} used as a value")
        self.rets, self.path = [], []
        self.stack.append(fn.name)
        try:
            if not self.run_block(fn.body):
                self.end_states.append(self.snapshot())
        finally:
            self.stack.pop()


# ---------------------------------------------------------------------------------------------- rendering
def finalize_types(m: Machine, roots: list):
    """tensor entries are rationals unless the code uses them as a row / an index; literals follow their context"""
    for p in m.pmap.values():
        if p.aux.group in (1, 2, 3) and con(p.ty) is None:
            unify(p.ty, Ty("Rat"))
    for ty, why in m.notvec:
        if con(ty) == "Vec":
            raise Unsupported(why)
    for ty, wh in m.natsub:
        if con(ty) == "Nat":
            raise Unsupported(f"{wh}: unsupported construct: subtraction / negation of a natural number "
                              f"(Python integers are unbounded below)")

    def walk(e: E):
        if e.op == "num" and con(e.ty) is None:
            unify(e.ty, Ty("Nat") if e.aux.denominator == 1 and e.aux >= 0 else Ty("Rat"))
        for a in e.args:
            walk(a)
    for r in roots:
        walk(r)
    for r in roots:
        for p in r.params().values():
            if con(p.ty) is None:
                raise Unsupported(f"{m.rel}: cannot tell whether `{p.aux.name()}` is a size or a number (it is only passed on)")


def render(e: E) -> str:
    c = con(e.ty)
    if e.op == "num":
        v = e.aux
        if c == "Nat":
            if v.denominator != 1 or v < 0:
                raise Unsupported(f"constant {v} used as a natural number")
            return str(v.numerator)
        n = f"({v.numerator} : Rat)" if v.numerator >= 0 else f"(-{-v.numerator} : Rat)"
        return n if v.denominator == 1 else f"({n} / {v.denominator})"
    if e.op == "bool":
        return "true" if e.aux else "false"
    if e.op == "param":
        return e.aux.name()
    if e.op in ("+", "-", "*", "/", "%"):
        return f"({render(e.args[0])} {e.op} {render(e.args[1])})"
    if e.op == "neg":
        return f"(-{render(e.args[0])})"
    if e.op == "cmp":
        return f"(decide ({render(e.args[0])} {e.aux} {render(e.args[1])}))"
    if e.op == "and":
        return f"({render(e.args[0])} && {render(e.args[1])})"
    if e.op == "or":
        return f"({render(e.args[0])} || {render(e.args[1])})"
    if e.op == "not":
        return f"(!{render(e.args[0])})"
    if e.op == "ite":
        return f"(if {render(e.args[0])} then {render(e.args[1])} else {render(e.args[2])})"
    if e.op == "call":
        return "(" + " ".join([e.aux] + [render(a) for a in e.args]) + ")"
    raise Unsupported(f"cannot render {e.op}")


def sig_params(roots: list) -> list[E]:
    ps: dict = {}
    for r in roots:
        r.params(ps)
    return sorted(ps.values(), key=lambda p: (p.aux.group, p.aux.name()))


def sig_text(ps: list[E]) -> str:
    return "".join(f" ({p.aux.name()} : {LEAN_TY[con(p.ty)]})" for p in ps)


def path_expr(path) -> E | None:
    e = None
    for c, pol, _ in path:
        x = c if pol else E("not", [c], ty=Ty("Bool"))
        e = x if e is None else E("and", [e, x], ty=Ty("Bool"))
    return e


def need_sc(v: Val, what: str, rel: str) -> E:
    if v is None:
        raise Unsupported(f"{rel}: {what} is not assigned")
    if v.kind == "blob":
        raise Unsupported(v.why + f" [needed for {what}]")
    if v.kind != "sc":
        raise Unsupported(f"{rel}: {what} is a value of kind {v.kind}")
    return v.e


# ---------------------------------------------------------------------------------------------- SOFT
def soft_shape(fn: ast.FunctionDef):
    """(statements before the loop, the loop, [operand of zip position 0, of position 1]) or None"""
    body = [s for s in fn.body if not is_docstring(s)]
    if not body or not isinstance(body[-1], ast.For) or any(isinstance(s, (ast.For, ast.While)) for s in body[:-1]):
        return None
    loop = body[-1]
    it = loop.iter
    if loop.orelse or not (isinstance(it, ast.Call) and isinstance(it.func, ast.Name) and it.func.id == "zip"
                           and len(it.args) == 2 and not it.keywords):
        return None
    if not (isinstance(loop.target, ast.Tuple) and len(loop.target.elts) == 2
            and all(isinstance(x, ast.Name) for x in loop.target.elts)):
        return None
    params = [p.arg for p in fn.args.args[1:]]
    ops = []
    for a in it.args:
        if not (isinstance(a, ast.Call) and not a.args and not a.keywords and isinstance(a.func, ast.Attribute)
                and a.func.attr == "parameters"):
            return None
        x = a.func.value
        if isinstance(x, ast.Name) and x.id in params:
            ops.append(("param", x.id))
        elif self_attr(x):
            ops.append(("attr", self_attr(x)))
        else:
            return None
    return body[:-1], loop, ops


def translate_soft(m: Machine, fn: ast.FunctionDef) -> list[str]:
    pre, loop, zops = soft_shape(fn)
    if zops[0] == zops[1]:
        raise Unsupported(f"{where(loop)}: unsupported construct: the loop zips a network with itself")
    params = [p.arg for p in fn.args.args[1:]]
    operands = sorted(zops, key=lambda o: (0, params.index(o[1])) if o[0] == "param" else (1, o[1]))
    m.soft_operands = operands
    saved_soft, m.soft_name = m.soft_name, None           # a call of SOFT inside SOFT is not a site
    m.locals = {p: blob((), f"{where(fn)}: unsupported construct: parameter `{p}` of {fn.name} used as a value") for p in params}
    m.stack.append(fn.name)
    try:
        if m.run_block(pre):
            raise Unsupported(f"{where(fn)}: unsupported construct: `return` before the loop of {fn.name}")
        vars_ = [t.id for t in loop.target.elts]
        ents = []
        for k, v in enumerate(vars_):
            s = m.sc(m.param(PDesc(3, [(f"p{k}", None)]), "Rat"), obj=m.new_obj())
            ents.append(s)
            m.locals[v] = s
        if m.run_block(loop.body):
            raise Unsupported(f"{where(loop)}: unsupported construct: `return` inside the loop of {fn.name}")
    finally:
        m.stack.pop()
        m.soft_name = saved_soft
    if m.stored_attrs or m.loss_sites or m.unknown:
        raise Unsupported(f"{where(fn)}: unsupported construct: {fn.name} stores attributes / calls the loss / calls unknown methods")
    outs = [need_sc(m.resolve(s), f"entry `{v}` of the {'first' if k == 0 else 'second'} zipped network after the loop body", m.rel)
            for k, (s, v) in enumerate(zip(ents, vars_))]
    finalize_types(m, outs)
    for o in outs:
        if con(o.ty) != "Rat":
            raise Unsupported(f"{where(loop)}: the loop body leaves an entry of type {con(o.ty)}")
    ps = [p for p in sig_params(outs) if p.aux.group != 3]
    if any(p.aux.group != 0 for p in ps):
        raise Unsupported(f"{where(loop)}: the loop body reads `{[p.aux.name() for p in ps if p.aux.group != 0][0]}`")
    m.soft_sig = ps
    st = sig_text(ps)
    args = "".join(" " + p.aux.name() for p in ps)
    z = [operands.index(o) for o in zops]                  # zip position -> operand index
    pos = [z.index(k) + 1 for k in range(2)]               # operand index -> component of the loop result
    opdoc = ", ".join(f"a{k} = " + (f"parameter `{o[1]}`" if o[0] == "param" else f"`self.{o[1]}`") for k, o in enumerate(operands))
    return [
        f"/-- body of `for {unparse(loop.target)} in {unparse(loop.iter)}`, per entry of the flattened weights: (entry of the",
        f"    first zipped network, entry of the second) after `{'; '.join(unparse(s, 90) for s in loop.body if not is_docstring(s))}` -/",
        f"def soft_update_body{st} (p0 p1 : Rat) : Rat × Rat :=",
        f"  ({render(outs[0])}, {render(outs[1])})",
        "",
        f"/-- `{fn.name}`: the two network operands ({opdoc}) after the loop -/",
        f"def soft_update{st} (a0 a1 : List Rat) : List Rat × List Rat :=",
        f"  let r := zipLoop (soft_update_body{args}) a{z[0]} a{z[1]}",
        f"  (r.{pos[0]}, r.{pos[1]})",
        "",
    ]


# ---------------------------------------------------------------------------------------------- one class
def locate(mod: ast.Module, rel: str):
    """(class, SOFT, LEARN, loss attributes)"""
    found = []
    for c in mod.body:
        if isinstance(c, ast.ClassDef):
            softs = [f for f in c.body if isinstance(f, ast.FunctionDef) and soft_shape(f) is not None]
            if softs:
                found.append((c, softs))
    if len(found) != 1 or len(found[0][1]) != 1:
        raise Unsupported(f"{rel}: expected exactly one top-level class with exactly one method of the form "
                          f"`for a, b in zip(X.parameters(), Y.parameters()): …`, found "
                          f"{[(c.name, [f.name for f in fs]) for c, fs in found]}")
    cls, soft = found[0][0], found[0][1][0]
    learns = [f for f in cls.body if isinstance(f, ast.FunctionDef) and f is not soft and any(
        isinstance(x, ast.Call) and self_attr(x.func) == soft.name for x in ast.walk(f))]
    if len(learns) != 1:
        raise Unsupported(f"{rel}: class {cls.name}: expected exactly one method that calls `self.{soft.name}(…)`, "
                          f"found {[f.name for f in learns]}")
    loss_attrs = set()
    for x in ast.walk(cls):
        if isinstance(x, ast.Assign) and isinstance(x.value, ast.Call):
            f = x.value.func
            nm = f.attr if isinstance(f, ast.Attribute) else f.id if isinstance(f, ast.Name) else None
            if nm == "MSELoss":
                loss_attrs |= {self_attr(t) for t in x.targets if self_attr(t)}
    return cls, soft, learns[0], loss_attrs


def key_text(k, ivar="i") -> str:
    a, i = k
    return f'"{a}" {ivar if i == "i" else i}'


def translate_class(ns: str, rel: str, src: str, with_target: bool) -> tuple[list[str], list[str]]:
    _current_file[0] = rel
    mod = ast.parse(src)
    cls, soft, learn, loss_attrs = locate(mod, rel)
    m = Machine(rel, cls, soft.name, loss_attrs)
    lines = translate_soft(m, soft)
    soft_sig = m.soft_sig
    # ---- LEARN
    m.stored_attrs = set()
    m.run_method(learn, first_is_batch=True)
    if not m.soft_sites:
        raise Unsupported(f"{rel}: no call of `self.{soft.name}(…)` is reached in {learn.name}")
    nets = {k[0] for s in m.soft_sites for k in s["keys"]}
    if nets & m.stored_attrs:
        raise Unsupported(f"{rel}: {learn.name} rebinds the network attribute(s) {sorted(nets & m.stored_attrs)} it soft-updates")
    g0 = m.soft_sites[0]
    gkey = lambda s: [(c.key(), pol) for c, pol, _ in s["path"]]
    for s in m.soft_sites[1:]:
        if gkey(s) != gkey(g0):
            raise Unsupported(f"{where(s['node'])}: `{unparse(s['node'], 50)}` runs under another condition than "
                              f"`{unparse(g0['node'], 50)}` ({where(g0['node'])})")
    guard = path_expr(g0["path"])
    roots = [guard] if guard is not None else []
    # counters the condition reads and LEARN changes
    after = []
    if guard is not None:
        for p in sig_params([guard]):
            if p.aux.group != 0:
                raise Unsupported(f"{where(g0['node'])}: the condition of the soft updates reads `{p.aux.name()}`")
            (nm, idx), = p.aux.pieces
            if idx == "i":
                raise Unsupported(f"{where(g0['node'])}: the condition of the soft updates depends on the agent of the loop")
            attr = nm[len("self_"):]
            vals = []
            for st in m.end_states:
                m.restore(st)
                if idx is None:
                    v = m.as_sc(learn, m.read_attr(learn, attr), attr)
                else:
                    v = m.slot_read(learn, attr, "i")
                vals.append(v)
            v0 = vals[0]
            if any(not m.same(v0, v) for v in vals[1:]):
                raise Unsupported(f"{rel}: `self.{attr}` has different values on the different paths through {learn.name}")
            e = need_sc(v0, f"`self.{attr}` when {learn.name} returns", rel)
            own = m.param(PDesc(0, [(nm, None if idx is None else "i")]))
            if e.key() != own.key():
                after.append((attr, e, idx))
                roots.append(e)
    # ---- (B)
    tgt = None
    preds: list[E] = []
    if with_target:
        if not m.loss_sites:
            raise Unsupported(f"{rel}: no call of the loss ({sorted(loss_attrs) or 'nn.MSELoss attribute'} / F.mse_loss) "
                              f"is reached in {learn.name}")
        for s in m.loss_sites:
            if s["path"]:
                raise Unsupported(f"{where(s['node'])}: the loss `{unparse(s['node'], 50)}` is computed under a condition")
            es = [need_sc(m.as_sc(s["node"], v, "argument of the loss"), f"argument {k + 1} of the loss `{unparse(s['node'], 50)}`", rel)
                  for k, v in enumerate(s["vals"])]
            comp = [e.op in ("+", "-", "*", "/", "neg", "ite") for e in es]
            if comp[0] == comp[1]:
                raise Unsupported(f"{where(s['node'])}: cannot tell the target from the prediction in `{unparse(s['node'], 60)}` "
                                  f"(exactly one argument must be a computed arithmetic expression)")
            t, p = (es[0], es[1]) if comp[0] else (es[1], es[0])
            if tgt is not None and t.key() != tgt.key():
                raise Unsupported(f"{where(s['node'])}: the loss calls of {cls.name} regress on different targets")
            tgt = t
            if all(p.key() != q.key() for q in preds):
                preds.append(p)
        roots += [tgt] + preds
    finalize_types(m, roots)
    # ---- emit
    ps_g = sig_params([guard]) if guard is not None else []
    lines += [
        f"/-- `{learn.name}`: the condition under which the soft updates run"
        + (f" (`{'` and `'.join(('' if pol else 'not ') + unparse(x, 80) for x, pol in guard_tests(g0, m))}`" if guard is not None else " (unconditional")
        + ", over the attributes as they are when the method is entered) -/",
        f"def updates_on{sig_text(ps_g)} : Bool :=",
        f"  {render(guard) if guard is not None else 'true'}",
        "",
    ]
    for attr, e, idx in after:
        lines += [
            f"/-- `self.{attr}`" + ("" if idx is None else " (every agent's entry)") + f" when `{learn.name}` returns -/",
            f"def {attr}_after{sig_text(sig_params([e]))} : {LEAN_TY[con(e.ty)]} :=",
            f"  {render(e)}",
            "",
        ]
    sargs = "".join(" " + p.aux.name() for p in soft_sig)
    segs: list = []
    for s in m.soft_sites:
        kind = "loop" if s["loop"] == "i" else "one"
        if any(i == "i" for _, i in s["keys"]) != (kind == "loop"):
            raise Unsupported(f"{where(s['node'])}: operand of `{unparse(s['node'], 50)}` from another loop")
        if any(i == "last" for _, i in s["keys"]):
            raise Unsupported(f"{where(s['node'])}: `{unparse(s['node'], 50)}` uses a loop variable after its loop")
        if segs and segs[-1][0] == kind and (kind == "one" or segs[-1][2] is s["loopnode"]):
            segs[-1][1].append(s)
        else:
            segs.append((kind, [s], s.get("loopnode")))

    def calls_text(sites) -> list[str]:
        out = []
        for s in sites:
            k0, k1 = s["keys"]
            out += [f"  let r := soft_update{sargs} (s {key_text(k0)}) (s {key_text(k1)})   -- {unparse(s['node'], 80)}",
                    f"  let s := (s.put {key_text(k0)} r.1).put {key_text(k1)} r.2"]
        return out
    has_loop = any(k == "loop" for k, _, _ in segs)
    nloop = 0
    body = []
    for kind, sites, _ in segs:
        if kind == "one":
            body += calls_text(sites)
        else:
            nm = "soft_updates_at" if nloop == 0 else f"soft_updates_at{nloop}"
            nloop += 1
            lines += [f"/-- the soft updates of one iteration `i` of the loop over the agents -/",
                      f"def {nm}{sig_text(soft_sig)} (i : Nat) (s : Nets) : Nets :="] + calls_text(sites) + ["  s", ""]
            body += [f"  let s := (List.range n_agents).foldl (fun s i => {nm}{sargs} i s) s"]
    na = " (n_agents : Nat)" if has_loop else ""
    lines += [f"/-- all `self.{soft.name}(…)` calls of `{learn.name}`, in source order, on the networks' flattened weights -/",
              f"def soft_updates{sig_text(soft_sig)}{na} (s : Nets) : Nets :="] + body + ["  s", ""]
    allp = sorted({p.aux.ident(): p for p in soft_sig + ps_g}.values(), key=lambda p: (p.aux.group, p.aux.name()))
    gargs = "".join(" " + p.aux.name() for p in ps_g)
    lines += [f"/-- the networks after one `{learn.name}` step, as far as the soft updates are concerned -/",
              f"def learn_nets{sig_text(allp)}{na} (s : Nets) : Nets :=",
              f"  if updates_on{gargs} then soft_updates{sargs}{' n_agents' if has_loop else ''} s else s", ""]
    if with_target:
        inputs = [p for p in sig_params([tgt] + preds) if p.aux.group == 2]
        lines += [f"/-- the Bellman target: the computed argument of `{'`, `'.join(dict.fromkeys(unparse(s['node'], 80) for s in m.loss_sites))}`,",
                  "    per batch row" + (" and per agent `i`" if any(s["loop"] for s in m.loss_sites) else "") + ".  Opaque inputs: "
                  + ", ".join(f"`{p.aux.name()}`" for p in inputs) + " -/",
                  f"def target{sig_text(sig_params([tgt]))} : Rat :=", f"  {render(tgt)}", ""]
        if con(tgt.ty) != "Rat":
            raise Unsupported(f"{rel}: the target has type {con(tgt.ty)}")
        for k, p in enumerate(preds):
            lines += [f"/-- the prediction the loss compares with the target ({k + 1} of {len(preds)}) -/",
                      f"def pred{k if k else ''}{sig_text(sig_params([p]))} : {LEAN_TY[con(p.ty)]} :=", f"  {render(p)}", ""]
    return [f"namespace {ns}", ""] + lines + [f"end {ns}", ""], sorted(m.assumed)


def guard_tests(site, m):
    """(AST of the test, polarity) for the doc comment: recovered from the `why`-less path entries is not possible, so the
    tests are looked up by line: every `if` whose test the site stands under"""
    out = []
    n = site["node"]
    for x in ast.walk(m.cls):
        if isinstance(x, ast.If):
            inb = any(y is n for s in x.body for y in ast.walk(s))
            ino = any(y is n for s in x.orelse for y in ast.walk(s))
            if inb or ino:
                out.append((x.test, inb))
    return out or [(ast.Constant(value=True), True)]


PRELUDE = """namespace BellmanGen

/-- `torch.min(a, b)` / `torch.max(a, b)` of two tensors, per entry -/
def tmin (a b : Rat) : Rat := if a ≤ b then a else b
def tmax (a b : Rat) : Rat := if a ≤ b then b else a

/-- `t.max(dim=1)[0]` of one row (torch raises on an empty row; 0 here) -/
def rowMax : List Rat → Rat
  | [] => 0
  | [x] => x
  | x :: y :: r => tmax x (rowMax (y :: r))

/-- `t.argmax(dim=1)` / `t.max(dim=1)[1]` of one row: the index of the FIRST maximal entry -/
def rowArgmax : List Rat → Nat
  | [] => 0
  | [_] => 0
  | x :: y :: r => if rowMax (y :: r) ≤ x then 0 else rowArgmax (y :: r) + 1

/-- `t.gather(1, idx)` of one row (an index outside the row: torch raises; 0 here) -/
def rowGather (l : List Rat) (i : Nat) : Rat := l.getD i 0

/-- `.long()` of a non-negative entry -/
def truncNat (x : Rat) : Nat := x.floor.toNat

/-- `for x, y in zip(xs, ys): body` where the body rewrites the two entries in place: the entries the zip
    reaches are replaced by what the body leaves, the others stay -/
def zipLoop (body : Rat → Rat → Rat × Rat) (xs ys : List Rat) : List Rat × List Rat :=
  (List.zipWith (fun x y => (body x y).1) xs ys ++ xs.drop ys.length,
   List.zipWith (fun x y => (body x y).2) xs ys ++ ys.drop xs.length)

/-- the flattened weights of every network of a learner: attribute name → agent index (0 for a single network) → weights -/
abbrev Nets := String → Nat → List Rat

def Nets.put (s : Nets) (a : String) (i : Nat) (v : List Rat) : Nets :=
  fun b j => if b = a ∧ j = i then v else s b j
"""


# ----------------------------------------------------------------------------------------------
def repo_dir(arg: str | None) -> Path:
    if arg:
        return Path(arg)
    return Path(os.environ.get("VERIF_REPO", "/repo"))


def translate(repo: Path) -> tuple[str, str]:
    """returns (lean text, sha256 over the seven source files); raises Unsupported"""
    h = hashlib.sha256()
    body: list[str] = PRELUDE.split("\n")
    assumed_all: list[str] = []
    for ns, rel, with_target in TARGETS:
        path = Path(repo) / rel
        try:
            raw = path.read_bytes()
        except OSError as e:
            raise Unsupported(f"cannot read {path}: {e}") from e
        h.update(rel.encode() + b"\0" + raw + b"\0")
        try:
            lines, assumed = translate_class(ns, rel, raw.decode("utf-8"), with_target)
        except SyntaxError as e:
            raise Unsupported(f"{rel}:{e.lineno}: not parseable: {e.msg}") from e
        except RecursionError as e:
            raise Unsupported(f"{rel}: expression too deep") from e
        body += lines
        for a in assumed:
            if a not in assumed_all:
                assumed_all.append(a)
    sha = h.hexdigest()
    header = "\n".join([
        "/-",
        "  Gen/BellmanGen.lean — GENERATED by harness/py2lean_bellman.py from `soft_update`, the soft-update calls and",
        "  their condition in `learn`, and the Bellman target handed to the loss, of",
        "  " + REL_SOURCE + "; do not edit.  Core Lean only.",
        "  `Proofs/BellmanGenEq.lean` proves the definitions equal to their counterparts in `Model/Bellman.lean`.",
        "  Assumed (inputs / identities met in the source):",
    ] + [f"    * {a}" for a in sorted(assumed_all)] + [
        "-/",
        SHA_PREFIX + sha,
        "set_option linter.unusedVariables false",
        "",
    ])
    return header + "\n" + "\n".join(body).rstrip() + "\n\nend BellmanGen\n", sha


def strip_sha(text: str) -> str:
    return "\n".join(ln for ln in text.split("\n") if not ln.startswith(SHA_PREFIX))


def write_if_changed(text: str, out: Path, force: bool = False) -> bool:
    """writes `text` unless the file already holds the same translation (sha line ignored)"""
    out = Path(out)
    old = out.read_text() if out.exists() else None
    if old is not None and not force and strip_sha(old) == strip_sha(text):
        return False
    if old == text:
        return False
    out.parent.mkdir(parents=True, exist_ok=True)
    tmp = out.with_suffix(".lean.tmp")
    tmp.write_text(text)
    os.replace(tmp, out)
    return True


def main(argv: list[str]) -> int:
    import argparse
    ap = argparse.ArgumentParser()
    ap.add_argument("--repo", default=None)
    ap.add_argument("--out", default=str(DEFAULT_OUT))
    ap.add_argument("--stdout", action="store_true")
    ap.add_argument("--force", action="store_true", help="rewrite even if only the sha256 line differs")
    a = ap.parse_args(argv)
    try:
        text, sha = translate(repo_dir(a.repo))
    except Unsupported as e:
        print(f"py2lean_bellman: {e}", file=sys.stderr)
        return 1
    if a.stdout:
        sys.stdout.write(text)
        return 0
    changed = write_if_changed(text, Path(a.out), a.force)
    print(f"{a.out}: {'written' if changed else 'unchanged'} (source sha256 {sha[:16]}…, "
          f"translation sha256 {hashlib.sha256(strip_sha(text).encode()).hexdigest()[:16]}…)")
    return 0


if __name__ == "__main__":
    sys.exit(main(sys.argv[1:]))
