#!/usr/bin/env python3
"""
py2lean_bellmanshape.py — SHAPE INFERENCE for the TD loss of the value-based learners DQN, CQN, DDPG, TD3, MADDPG,
MATD3 (REPO/agilerl/algorithms/{dqn,cqn,ddpg,td3,maddpg,matd3}.py) → lean/Gen/BellmanShapeGen.lean.

    python3 harness/py2lean_bellmanshape.py [--repo DIR] [--out FILE] [--stdout] [--force]

Companion of py2lean_bellman.py, which executes the same methods per batch ROW and therefore cannot see the classic
failure of TD code: a `(B, 1)` prediction against a `(B,)` target (or a `(B,)` reward against `(B, 1)` Q-values) is
BROADCAST by torch to `(B, B)` without an error.  This translator executes LEARN (located by py2lean_bellman.locate:
the method that calls the soft update; methods of the class it calls that contain a loss call are inlined with their
arguments bound) over the abstract domain of tensor SHAPES and emits, for every loss call `crit(x, y)` met
(`self.<attr>` assigned `nn.MSELoss()`, `F.mse_loss`), in source order k = 0, 1, …:

    pred<k>_shape … : Option Shape      shape of the first argument  (torch: `input`)
    target<k>_shape … : Option Shape    shape of the second argument (torch: `target`)
    loss_elem<k>_shape … := bcast pred target      the element-wise loss before the reduction
    loss<k>_shape …   := sAll (loss_elem…)         `nn.MSELoss()` (mean reduction): a 0-d tensor

`Option Shape`: `none` = torch raises.  Reads the source text only (`ast`; agilerl / torch are never imported).

Inputs of the generated definitions (their names flow from the AST and are pinned by named arguments in the proofs):
  * `self_<attr> : Bool` for attributes used as the test of an `if` (`self.double`);
  * `<field> : Shape` for the batch fields read (`experiences["reward"]`; position k of a 5-tuple batch is field k of
    (obs, action, reward, next_obs, done); a per-agent entry `rewards[agent_id]` has the shape parameter of its field);
  * `<net>_out : Shape` for the value of a network call `self.<net>(…)` / `<loop variable bound to self.<nets>[i]>(…)`.
Every shape-relevant operation flows from the AST into the output:
  `a + b`, `- * / ** %`, `torch.min / max / minimum / maximum(a, b)`     → `bcast a b`  (Python numbers and scalar
                                                                              attributes are 0-d: `scalarS`)
  `t.max(dim=d[, keepdim=k])[0|1]`, `t.argmax(dim=d[, keepdim=k])`,
  `t.mean(dim=d)`, `t.sum(dim=d)`, `torch.logsumexp(t, dim=d)`            → `sReduce d k t`
  `t.unsqueeze(d)` `t.squeeze(d)` `t.squeeze()` `t.view(…)` `t.reshape(…)` → `sUnsqueeze d` `sSqueeze d` `sSqueezeAll` `sView […]`
  `t.gather(d, idx)`                                                       → `sGather d t idx`
  `t.mean()` `t.sum()`                                                     → `sAll t`
  `t.ndim == c` as the test of an `if`                                     → `decide (sNdim t = c)`
  `if c: … else: …`: both branches are executed; a local with different shapes becomes `if c then … else …` when the
  test is translatable (`self.<attr>`, `not`, `t.ndim == c`), and must have the same shape in both branches otherwise
  (`isinstance(…)`, `self.accelerator is not None`) — else it is UNKNOWN.
Identity on shapes: `.to .cpu .cuda .detach .float .double .long .int .clone .contiguous .abs .pow .clamp .exp .log
.sqrt .normal_ .uniform_ .data`, `torch.empty_like / zeros_like / ones_like / randn_like / rand_like / abs / clamp`,
`{k: v.<identity> for k, v in d.items()}`, `with torch.no_grad()`, `with <net>.no_sync()`.
A loop over the agents (`for … in [enumerate(]zip(self.<list>, …)[)]`) is executed once for a symbolic agent.
Anything else (network inputs, optimiser steps, `torch.cat`, …) is UNKNOWN; an UNKNOWN value that reaches a loss
argument, or a statement form outside the subset that contains a loss call, raises `Unsupported` with file:line.

Assumptions: network forward passes return one tensor whose shape is the parameter `<net>_out` whatever their
arguments (batch size B of the observations handed in); in-place updates `x op= y` of a tensor are outside the subset
(UNKNOWN); the first argument of the loss call is called the prediction, the second the target (torch's own naming;
the element-wise shape is symmetric).

The header carries the sha256 of the six source files; `write_if_changed` compares everything *but* that line.
"""
from __future__ import annotations

import ast
import hashlib
import os
import sys
from pathlib import Path

HERE = Path(__file__).resolve().parent
sys.path.insert(0, str(HERE))
import py2lean_bellman as PB      # noqa: E402   (locate / soft_shape: AST only)

Unsupported = PB.Unsupported
DEFAULT_OUT = HERE.parent / "lean" / "Gen" / "BellmanShapeGen.lean"
TARGETS = tuple((ns, rel) for ns, rel, with_target in PB.TARGETS if with_target)
REL_SOURCES = tuple(t[1] for t in TARGETS)
REL_SOURCE = "agilerl/algorithms/{dqn,cqn,ddpg,td3,maddpg,matd3}.py"
SHA_PREFIX = "-- sha256(source) = "
FIELD_ORDER = ("obs", "action", "reward", "next_obs", "done")

ID_METHODS = {"to", "cpu", "cuda", "detach", "float", "double", "long", "int", "clone", "contiguous", "abs", "pow", "clamp",
              "exp", "log", "sqrt", "normal_", "uniform_", "clamp_", "requires_grad_", "type"}
ID_TORCH = {"empty_like", "zeros_like", "ones_like", "randn_like", "rand_like", "abs", "clamp", "exp", "log", "sqrt", "square"}
PAIR_TORCH = {"min", "max", "minimum", "maximum"}
_file = [REL_SOURCE]


def where(n) -> str:
    return f"{_file[0]}:{getattr(n, 'lineno', '?')}"


class V:
    """abstract value: kind ∈ T (tensor, `e` : Lean term of type Option Shape), NUM, NET (name), PAIR (e: the shape
    of both members of `t.max(dim)`), BATCH, FIELDS, UNK (why), BOOL (e : Lean Bool term), NAT (e : Lean Nat term)"""

    def __init__(self, kind, e=None, field=False, why=""):
        self.kind, self.e, self.field, self.why = kind, e, field, why

    def __eq__(self, o):
        return isinstance(o, V) and (self.kind, self.e, self.field) == (o.kind, o.e, o.field)


NUM = V("NUM")


def unk(why):
    return V("UNK", why=why)


class Shapes:
    def __init__(self, rel, cls, soft_name, loss_attrs):
        self.rel, self.cls, self.soft, self.loss_attrs = rel, cls, soft_name, set(loss_attrs)
        self.methods = {f.name: f for f in cls.body if isinstance(f, ast.FunctionDef)}
        self.env: dict[str, V] = {}
        self.sites: list[tuple[ast.Call, V, V]] = []
        self.bools: list[str] = []
        self.fields: list[str] = []
        self.nets: list[str] = []
        self.depth = 0

    # ---- parameters ----
    def p_bool(self, attr):
        nm = f"self_{attr}"
        if nm not in self.bools:
            self.bools.append(nm)
        return nm

    def p_field(self, f):
        if f not in self.fields:
            self.fields.append(f)
        return V("T", f"(some {f})", field=True)

    def p_net(self, name):
        nm = f"{name}_out"
        if nm not in self.nets:
            self.nets.append(nm)
        return V("T", f"(some {nm})")

    # ---- helpers ----
    def has_site(self, node, seen=()) -> bool:
        for x in ast.walk(node):
            if isinstance(x, ast.Call):
                if self.is_loss_func(x.func):
                    return True
                a = PB.self_attr(x.func)
                if a in self.methods and a not in seen and a != self.soft and self.has_site(self.methods[a], seen + (a,)):
                    return True
        return False

    def is_loss_func(self, f) -> bool:
        a = PB.self_attr(f)
        if a is not None and a in self.loss_attrs:
            return True
        try:
            return PB.Machine.is_mse_path(ast.unparse(f))
        except Exception:
            return False

    def shape_of(self, n, v: V) -> str:
        if v.kind == "T":
            return v.e
        if v.kind == "NUM":
            return "scalarS"
        raise Unsupported(f"{where(n)}: the shape of `{PB.unparse(n)}` is needed but unknown"
                          + (f" ({v.why})" if v.why else f" (a {v.kind} value)"))

    def int_const(self, n):
        if isinstance(n, ast.Constant) and isinstance(n.value, int) and not isinstance(n.value, bool):
            return n.value
        if isinstance(n, ast.UnaryOp) and isinstance(n.op, ast.USub):
            v = self.int_const(n.operand)
            return None if v is None else -v
        return None

    @staticmethod
    def lint(k: int) -> str:
        return f"({k})" if k < 0 else str(k)

    def dim_kw(self, n: ast.Call, pos=0, names=("dim", "axis")):
        """(dim or None, keepdim) of a reduction call"""
        dim, keep = None, False
        args = list(n.args)
        if len(args) > pos:
            dim = self.int_const(args[pos])
            if dim is None:
                raise Unsupported(f"{where(n)}: reduction axis `{PB.unparse(args[pos])}` is not an integer literal")
        if len(args) > pos + 1:
            if not (isinstance(args[pos + 1], ast.Constant) and isinstance(args[pos + 1].value, bool)):
                raise Unsupported(f"{where(n)}: keepdim `{PB.unparse(args[pos + 1])}` is not a literal")
            keep = args[pos + 1].value
        for k in n.keywords:
            if k.arg in names:
                dim = self.int_const(k.value)
                if dim is None:
                    raise Unsupported(f"{where(n)}: reduction axis `{PB.unparse(k.value)}` is not an integer literal")
            elif k.arg == "keepdim":
                if not (isinstance(k.value, ast.Constant) and isinstance(k.value.value, bool)):
                    raise Unsupported(f"{where(n)}: keepdim `{PB.unparse(k.value)}` is not a literal")
                keep = k.value.value
            else:
                raise Unsupported(f"{where(n)}: keyword `{k.arg}` of `{PB.unparse(n.func)}`")
        return dim, keep

    # ---- expressions ----
    def ev(self, n) -> V:
        if isinstance(n, ast.Constant):
            if isinstance(n.value, (int, float)) and not isinstance(n.value, bool):
                return NUM
            return unk(f"constant {n.value!r}")
        if isinstance(n, ast.Name):
            return self.env.get(n.id, unk(f"`{n.id}` is not a known local"))
        if isinstance(n, ast.Attribute):
            a = PB.self_attr(n)
            if a is not None:
                return V("SELF", a)
            base = self.ev(n.value)
            if n.attr == "data" and base.kind == "T":
                return base
            if n.attr == "ndim" and base.kind == "T":
                return V("NAT", f"sNdim {base.e}")
            if base.kind == "SELF":
                return unk(f"`{PB.unparse(n)}`")
            return unk(f"attribute `.{n.attr}`")
        if isinstance(n, ast.UnaryOp) and isinstance(n.op, (ast.USub, ast.UAdd)):
            return self.num_or(self.ev(n.operand))
        if isinstance(n, ast.BinOp):
            if isinstance(n.op, ast.MatMult):
                raise_if = self.has_site  # noqa: F841
                return unk(f"{where(n)}: `@`")
            a, b = self.num_or(self.ev(n.left)), self.num_or(self.ev(n.right))
            if a.kind == "NUM" and b.kind == "NUM":
                return NUM
            if a.kind in ("T", "NUM") and b.kind in ("T", "NUM"):
                return V("T", f"(bcast {self.shape_of(n.left, a)} {self.shape_of(n.right, b)})")
            return unk((a.why if a.kind == "UNK" else b.why) or f"{where(n)}: operand of `{PB.unparse(n)}`")
        if isinstance(n, ast.Subscript):
            return self.subscript(n)
        if isinstance(n, ast.DictComp):
            return self.dictcomp(n)
        if isinstance(n, ast.IfExp):
            c = self.test(n.test)
            return self.merge(c, self.ev(n.body), self.ev(n.orelse))
        if isinstance(n, ast.Call):
            return self.call(n)
        return unk(f"{where(n)}: `{PB.unparse(n)}`")

    @staticmethod
    def num_or(v: V) -> V:
        return NUM if v.kind in ("SELF", "NAT") else v

    def subscript(self, n: ast.Subscript) -> V:
        base = self.ev(n.value)
        k = self.int_const(n.slice)
        if base.kind == "PAIR":
            if k in (0, 1):
                return V("T", base.e)
            raise Unsupported(f"{where(n)}: member `{PB.unparse(n.slice)}` of the result of `.max(dim)`")
        if base.kind == "BATCH":
            if isinstance(n.slice, ast.Constant) and n.slice.value in FIELD_ORDER:
                return self.p_field(n.slice.value)
            if k is not None and 0 <= k < 5:
                return self.p_field(FIELD_ORDER[k])
            return unk(f"{where(n)}: batch entry `{PB.unparse(n.slice)}`")
        if base.kind == "T" and base.field and k is None and not isinstance(n.slice, (ast.Slice, ast.Tuple)):
            return base          # per-agent entry of a dict field: the per-agent shape parameter of that field
        if base.kind == "SELF" and base.e is not None:
            return V("NETLIST", base.e)
        return unk(f"{where(n)}: `{PB.unparse(n)}`")

    def dictcomp(self, n: ast.DictComp) -> V:
        if len(n.generators) == 1 and not n.generators[0].ifs:
            g = n.generators[0]
            it = g.iter
            if (isinstance(it, ast.Call) and isinstance(it.func, ast.Attribute) and it.func.attr == "items" and not it.args
                    and isinstance(g.target, ast.Tuple) and len(g.target.elts) == 2
                    and all(isinstance(e, ast.Name) for e in g.target.elts)):
                src = self.ev(it.func.value)
                if src.kind == "T" and src.field:
                    kn, vn = (e.id for e in g.target.elts)
                    saved = dict(self.env)
                    self.env[vn] = src
                    self.env[kn] = unk("agent key")
                    out = self.ev(n.value)
                    self.env = saved
                    if out.kind == "T":
                        return V("T", out.e, field=True)
        return unk(f"{where(n)}: dict comprehension")

    def call(self, n: ast.Call) -> V:
        f = n.func
        if self.is_loss_func(f):
            return self.loss_call(n)
        a = PB.self_attr(f)
        if a is not None:
            if a in self.methods:
                if a != self.soft and self.has_site(self.methods[a]):
                    return self.inline(n, self.methods[a])
                return unk(f"{where(n)}: value of `self.{a}(…)`")
            if a in PB.PURE_INHERITED or a.startswith("_") or a in ("multi_dim_clamp", "share_encoder_parameters"):
                return unk(f"{where(n)}: value of `self.{a}(…)`")
            return self.p_net(a)
        if isinstance(f, ast.Name):
            v = self.env.get(f.id)
            if v is not None and v.kind == "NET":
                return self.p_net(v.e)
            return unk(f"{where(n)}: value of `{f.id}(…)`")
        if isinstance(f, ast.Subscript):
            b = self.ev(f)
            if b.kind == "NETLIST":
                return self.p_net(b.e)
        if isinstance(f, ast.Attribute):
            path = ast.unparse(f)
            if path.startswith("torch."):
                return self.torch_call(n, path[6:])
            return self.method(n, self.ev(f.value), f.attr)
        return unk(f"{where(n)}: `{PB.unparse(n)}`")

    def torch_call(self, n: ast.Call, name: str) -> V:
        if name in PAIR_TORCH and len(n.args) == 2 and not n.keywords and self.int_const(n.args[1]) is None:
            a, b = self.ev(n.args[0]), self.ev(n.args[1])
            if a.kind in ("T", "NUM") and b.kind in ("T", "NUM") and "T" in (a.kind, b.kind):
                return V("T", f"(bcast {self.shape_of(n.args[0], a)} {self.shape_of(n.args[1], b)})")
            return unk(a.why or b.why or f"{where(n)}: `torch.{name}`")
        if name in ID_TORCH and n.args:
            return self.ev(n.args[0])
        if name == "logsumexp" and n.args:
            t = self.ev(n.args[0])
            if t.kind == "T":
                dim, keep = self.dim_kw(n, pos=1)
                if dim is None:
                    raise Unsupported(f"{where(n)}: `torch.logsumexp` without an axis")
                return V("T", f"(sReduce {self.lint(dim)} {str(keep).lower()} {t.e})")
        return unk(f"{where(n)}: value of `torch.{name}(…)`")

    def method(self, n: ast.Call, base: V, m: str) -> V:
        if base.kind != "T":
            if m == "item":
                return NUM
            return unk(base.why or f"{where(n)}: `.{m}(…)` of a non-tensor")
        t = base.e
        if m in ID_METHODS:
            return V("T", t, field=base.field)
        if m in ("max", "min"):
            if len(n.args) == 1 and self.int_const(n.args[0]) is None and not n.keywords:
                return unk(f"{where(n)}: `.{m}(tensor)`")
            dim, keep = self.dim_kw(n)
            if dim is None:
                return V("T", f"(sAll {t})")
            return V("PAIR", f"(sReduce {self.lint(dim)} {str(keep).lower()} {t})")
        if m in ("argmax", "argmin", "mean", "sum", "logsumexp", "amax", "amin"):
            dim, keep = self.dim_kw(n)
            if dim is None:
                if m in ("argmax", "argmin"):
                    raise Unsupported(f"{where(n)}: `.{m}()` over the flattened tensor")
                return V("T", f"(sAll {t})")
            return V("T", f"(sReduce {self.lint(dim)} {str(keep).lower()} {t})")
        if m == "unsqueeze":
            dim, _ = self.dim_kw(n)
            if dim is None:
                raise Unsupported(f"{where(n)}: `.unsqueeze` without an axis")
            return V("T", f"(sUnsqueeze {self.lint(dim)} {t})")
        if m == "squeeze":
            dim, _ = self.dim_kw(n)
            return V("T", f"(sSqueezeAll {t})" if dim is None else f"(sSqueeze {self.lint(dim)} {t})")
        if m in ("view", "reshape"):
            elts = n.args[0].elts if len(n.args) == 1 and isinstance(n.args[0], (ast.Tuple, ast.List)) else n.args
            ks = [self.int_const(e) for e in elts]
            if n.keywords or not ks or any(k is None for k in ks):
                raise Unsupported(f"{where(n)}: `.{m}({', '.join(PB.unparse(e) for e in elts)})`: sizes must be integer literals")
            return V("T", f"(sView [{', '.join(self.lint(k) for k in ks)}] {t})")
        if m == "gather":
            args = {k.arg: k.value for k in n.keywords}
            pos = list(n.args)
            dn = pos[0] if pos else args.get("dim")
            ix = pos[1] if len(pos) > 1 else args.get("index")
            d = self.int_const(dn) if dn is not None else None
            if d is None or ix is None or set(args) - {"dim", "index"}:
                raise Unsupported(f"{where(n)}: `.gather` needs a literal axis and an index")
            iv = self.ev(ix)
            return V("T", f"(sGather {self.lint(d)} {t} {self.shape_of(ix, iv)})")
        if m == "item":
            return NUM
        return unk(f"{where(n)}: shape of `.{m}(…)`")

    def loss_call(self, n: ast.Call) -> V:
        if len(n.args) != 2 or n.keywords:
            raise Unsupported(f"{where(n)}: loss call `{PB.unparse(n)}`: expected two positional arguments")
        a, b = self.ev(n.args[0]), self.ev(n.args[1])
        sa, sb = self.shape_of(n.args[0], a), self.shape_of(n.args[1], b)
        self.sites.append((n, sa, sb))
        return V("T", f"(sAll (bcast {sa} {sb}))")

    def inline(self, n: ast.Call, fn: ast.FunctionDef) -> V:
        if self.depth > 4:
            raise Unsupported(f"{where(n)}: recursion through `self.{fn.name}`")
        params = [a.arg for a in fn.args.args][1:]
        if fn.args.vararg or fn.args.kwarg or fn.args.kwonlyargs or any(isinstance(a, ast.Starred) for a in n.args):
            raise Unsupported(f"{where(n)}: call of `self.{fn.name}` with * / ** arguments")
        bound = {}
        for p, a in zip(params, n.args):
            bound[p] = self.ev(a)
        for k in n.keywords:
            if k.arg not in params:
                raise Unsupported(f"{where(n)}: unknown keyword `{k.arg}` of `self.{fn.name}`")
            bound[k.arg] = self.ev(k.value)
        for p in params:
            bound.setdefault(p, unk(f"default of `{p}`"))
        saved, self.env = self.env, bound
        self.depth += 1
        ret = self.block(fn.body)
        self.depth -= 1
        self.env = saved
        return ret if ret is not None else unk(f"{where(n)}: `self.{fn.name}` returns nothing")

    # ---- tests ----
    def test(self, n):
        """Lean Bool term or None (untranslatable)"""
        a = PB.self_attr(n)
        if a is not None:
            return self.p_bool(a)
        if isinstance(n, ast.UnaryOp) and isinstance(n.op, ast.Not):
            c = self.test(n.operand)
            return None if c is None else f"(!{c})"
        if isinstance(n, ast.Compare) and len(n.ops) == 1 and type(n.ops[0]) in PB.CMP:
            l, r = self.ev(n.left), self.int_const(n.comparators[0])
            if l.kind == "NAT" and r is not None and r >= 0:
                return f"(decide ({l.e} {PB.CMP[type(n.ops[0])]} {r}))"
        return None

    def merge(self, c, a: V, b: V) -> V:
        if a == b:
            return a
        if c is not None and a.kind in ("T", "NUM") and b.kind in ("T", "NUM") and "T" in (a.kind, b.kind):
            ea = a.e if a.kind == "T" else "scalarS"
            eb = b.e if b.kind == "T" else "scalarS"
            return V("T", f"(if {c} then {ea} else {eb})")
        return unk(a.why or b.why or "different values in the branches of an untranslatable test")

    # ---- statements ----
    def assign(self, tg, v: V, st):
        if isinstance(tg, ast.Name):
            self.env[tg.id] = v
        elif isinstance(tg, (ast.Tuple, ast.List)):
            if v.kind == "BATCH" and len(tg.elts) == 5:
                for k, e in enumerate(tg.elts):
                    self.assign(e, self.p_field(FIELD_ORDER[k]), st)
            else:
                for e in tg.elts:
                    self.assign(e, unk(f"{where(st)}: tuple assignment"), st)
        elif isinstance(tg, ast.Subscript) and isinstance(tg.value, ast.Name):
            old = self.env.get(tg.value.id)
            if old is not None and old.kind == "T":
                self.env[tg.value.id] = unk(f"{where(st)}: item store")
        # attribute stores: no shape tracked

    def block(self, stmts):
        ret = None
        for st in stmts:
            if PB.is_docstring(st) or isinstance(st, (ast.Pass, ast.Assert)):
                continue
            if isinstance(st, ast.Assign):
                v = self.ev(st.value)
                for tg in st.targets:
                    self.assign(tg, v, st)
            elif isinstance(st, ast.AnnAssign):
                if st.value is not None:
                    self.assign(st.target, self.ev(st.value), st)
            elif isinstance(st, ast.AugAssign):
                self.ev(st.value)
                if isinstance(st.target, ast.Name):
                    old = self.env.get(st.target.id)
                    if old is not None and old.kind != "NUM":
                        self.env[st.target.id] = unk(f"{where(st)}: in-place `{PB.unparse(st)}`")
            elif isinstance(st, ast.Expr):
                self.ev(st.value)
            elif isinstance(st, ast.Return):
                ret = self.ev(st.value) if st.value is not None else None
            elif isinstance(st, ast.With):
                r = self.block(st.body)
                ret = r if r is not None else ret
            elif isinstance(st, ast.If):
                c = self.test(st.test)
                before = dict(self.env)
                n0 = len(self.sites)
                r1 = self.block(st.body)
                env1, sites1 = self.env, self.sites[n0:]
                self.env, self.sites = dict(before), self.sites[:n0]
                r2 = self.block(st.orelse)
                env2, sites2 = self.env, self.sites[n0:]
                self.sites = self.sites[:n0]
                if sites1 or sites2:
                    if [(s[1], s[2]) for s in sites1] != [(s[1], s[2]) for s in sites2]:
                        raise Unsupported(f"{where(st)}: the branches of `if {PB.unparse(st.test)}` call the loss on "
                                          f"different shapes / a different number of times")
                    self.sites += sites1
                self.env = {}
                for k in set(env1) | set(env2):
                    a = env1.get(k, unk(f"`{k}` is bound in one branch only"))
                    b = env2.get(k, unk(f"`{k}` is bound in one branch only"))
                    self.env[k] = self.merge(c, a, b)
                if r1 is not None or r2 is not None:
                    ret = self.merge(c, r1 or unk("no return"), r2 or unk("no return"))
            elif isinstance(st, ast.For) and not st.orelse and self.agent_loop(st):
                pass
            else:
                if self.has_site(st):
                    raise Unsupported(f"{where(st)}: a loss call inside `{type(st).__name__}` (outside the subset)")
                for x in ast.walk(st):
                    if isinstance(x, ast.Name) and isinstance(x.ctx, ast.Store):
                        self.env[x.id] = unk(f"{where(st)}: bound inside `{type(st).__name__}`")
        return ret

    def agent_loop(self, st: ast.For) -> bool:
        it, tg = st.iter, st.target
        if isinstance(it, ast.Call) and isinstance(it.func, ast.Name) and it.func.id == "enumerate" and len(it.args) == 1:
            it = it.args[0]
            if not (isinstance(tg, ast.Tuple) and len(tg.elts) == 2):
                return False
            self.assign(tg.elts[0], unk("loop index"), st)
            tg = tg.elts[1]
        if isinstance(it, ast.Call) and isinstance(it.func, ast.Name) and it.func.id == "zip":
            srcs = it.args
            tgs = tg.elts if isinstance(tg, ast.Tuple) else None
            if tgs is None or len(tgs) != len(srcs):
                return False
        else:
            srcs, tgs = [it], [tg]
        for s, t in zip(srcs, tgs):
            a = PB.self_attr(s)
            if a is None or not isinstance(t, ast.Name):
                if self.has_site(st):
                    raise Unsupported(f"{where(st)}: loop over `{PB.unparse(s)}` around a loss call")
                return False
            self.env[t.id] = V("NET", a)      # callable iff it is a network list; other uses are UNKNOWN
        self.block(st.body)
        return True


PRELUDE = '''namespace BellmanShapeGen

/-- the shape of a tensor; `[]` = a 0-d tensor / a Python number -/
abbrev Shape := List Nat

/-- one axis of torch broadcasting -/
def bdim (a b : Nat) : Option Nat :=
  if a = b then some a else if a = 1 then some b else if b = 1 then some a else none

def bcastRev : Shape → Shape → Option Shape
  | [], l => some l
  | a :: as, [] => some (a :: as)
  | a :: as, b :: bs =>
    match bdim a b, bcastRev as bs with
    | some d, some r => some (d :: r)
    | _, _ => none

/-- shape of an element-wise binary operation (`none` = torch raises) -/
def bcast (s t : Option Shape) : Option Shape :=
  match s, t with
  | some s, some t => (bcastRev s.reverse t.reverse).map List.reverse
  | _, _ => none

def scalarS : Option Shape := some []

def normDim (n : Nat) (d : Int) : Option Nat :=
  if 0 ≤ d then (if d.toNat < n then some d.toNat else none)
  else (if (-d).toNat ≤ n then some (n - (-d).toNat) else none)

def eraseAt : Shape → Nat → Shape
  | [], _ => []
  | _ :: r, 0 => r
  | a :: r, k + 1 => a :: eraseAt r k

def insertAt : Shape → Nat → Nat → Shape
  | l, 0, v => v :: l
  | [], _ + 1, v => [v]
  | a :: r, k + 1, v => a :: insertAt r k v

def setAt : Shape → Nat → Nat → Shape
  | [], _, _ => []
  | _ :: r, 0, v => v :: r
  | a :: r, k + 1, v => a :: setAt r k v

/-- `.max(dim=d, keepdim=k)[·]`, `.argmax(dim=d)`, `.mean(dim=d)` -/
def sReduce (d : Int) (keep : Bool) : Option Shape → Option Shape
  | some s =>
    match normDim s.length d with
    | some k => if s.getD k 0 = 0 then none else some (if keep then setAt s k 1 else eraseAt s k)
    | none => none
  | none => none

def sUnsqueeze (d : Int) : Option Shape → Option Shape
  | some s => (normDim (s.length + 1) d).map (fun k => insertAt s k 1)
  | none => none

def sSqueeze (d : Int) : Option Shape → Option Shape
  | some s => (normDim s.length d).map (fun k => if s.getD k 0 = 1 then eraseAt s k else s)
  | none => none

/-- `.squeeze()` without an axis: every axis of size 1 goes (also a batch axis of size 1) -/
def sSqueezeAll : Option Shape → Option Shape
  | some s => some (s.filter (· ≠ 1))
  | none => none

def numel (s : Shape) : Nat := s.foldl (· * ·) 1

def sView (new : List Int) : Option Shape → Option Shape
  | some s =>
    let known := (new.filter (0 ≤ ·)).map Int.toNat
    let holes := (new.filter (· < 0)).length
    if holes = 0 then (if numel known = numel s then some known else none)
    else if holes = 1 ∧ numel known ≠ 0 ∧ numel s % numel known = 0 then
      some (new.map (fun v => if v < 0 then numel s / numel known else v.toNat))
    else none
  | none => none

def gatherFits : Nat → Shape → Shape → Nat → Bool
  | _, [], [], _ => true
  | k, a :: as, b :: bs, j => (j == k || decide (b ≤ a)) && gatherFits k as bs (j + 1)
  | _, _, _, _ => false

/-- `t.gather(d, idx)`: the result has the shape of `idx` -/
def sGather (d : Int) (s idx : Option Shape) : Option Shape :=
  match s, idx with
  | some s, some i =>
    match normDim s.length d with
    | some k => if gatherFits k s i 0 then some i else none
    | none => none
  | _, _ => none

/-- `.mean()` / `.sum()` / the mean reduction of `nn.MSELoss()` -/
def sAll : Option Shape → Option Shape
  | some _ => some []
  | none => none

def sNdim : Option Shape → Nat
  | some s => s.length
  | none => 0
'''


def translate_class(ns: str, rel: str, src: str) -> list[str]:
    _file[0] = rel
    PB._current_file[0] = rel
    mod = ast.parse(src)
    cls, soft, learn, loss_attrs = PB.locate(mod, rel)
    m = Shapes(rel, cls, soft.name, loss_attrs)
    params = [a.arg for a in learn.args.args][1:]
    if not params:
        raise Unsupported(f"{rel}:{learn.lineno}: `{learn.name}` takes no batch")
    m.env = {p: unk(f"parameter `{p}`") for p in params}
    m.env[params[0]] = V("BATCH")
    m.block(learn.body)
    if not m.sites:
        raise Unsupported(f"{rel}:{learn.lineno}: no loss call reached from `{learn.name}`")
    fields = [f for f in FIELD_ORDER if f in m.fields]
    used = lambda txt, nm: any(tok == nm for tok in txt.replace("(", " ").replace(")", " ").split())   # noqa: E731
    out = [f"namespace {ns}", ""]
    for k, (node, sa, sb) in enumerate(m.sites):
        sfx = "" if k == 0 else str(k)
        both = sa + " " + sb
        sig = "".join(f" ({b} : Bool)" for b in m.bools if used(both, b)) \
            + "".join(f" ({f} : Shape)" for f in fields if used(both, f)) \
            + "".join(f" ({nn} : Shape)" for nn in sorted(m.nets) if used(both, nn))
        names = " ".join([b for b in m.bools if used(both, b)] + [f for f in fields if used(both, f)]
                         + [nn for nn in sorted(m.nets) if used(both, nn)])
        call = PB.unparse(node, 90)
        out += [f"/-- shape of the first argument of `{call}` ({rel}) -/",
                f"def pred{sfx}_shape{sig} : Option Shape :=", f"  {sa}", "",
                f"/-- shape of the second argument of `{call}` -/",
                f"def target{sfx}_shape{sig} : Option Shape :=", f"  {sb}", "",
                f"/-- shape of the element-wise loss of `{call}` before the reduction -/",
                f"def loss_elem{sfx}_shape{sig} : Option Shape :=",
                f"  bcast (pred{sfx}_shape {names}) (target{sfx}_shape {names})", "",
                f"/-- shape of the value of `{call}` (mean reduction) -/",
                f"def loss{sfx}_shape{sig} : Option Shape :=", f"  sAll (loss_elem{sfx}_shape {names})", ""]
    out += [f"end {ns}", ""]
    return out


def repo_dir(arg: str | None) -> Path:
    if arg:
        return Path(arg)
    return Path(os.environ.get("VERIF_REPO", "/repo"))


def translate(repo: Path) -> tuple[str, str]:
    h = hashlib.sha256()
    body: list[str] = PRELUDE.split("\n")
    for ns, rel in TARGETS:
        path = Path(repo) / rel
        try:
            raw = path.read_bytes()
        except OSError as e:
            raise Unsupported(f"cannot read {path}: {e}") from e
        h.update(rel.encode() + b"\0" + raw + b"\0")
        try:
            body += translate_class(ns, rel, raw.decode("utf-8"))
        except SyntaxError as e:
            raise Unsupported(f"{rel}:{e.lineno}: not parseable: {e.msg}") from e
        except RecursionError as e:
            raise Unsupported(f"{rel}: expression too deep") from e
    sha = h.hexdigest()
    header = "\n".join([
        "/-",
        "  Gen/BellmanShapeGen.lean — GENERATED by harness/py2lean_bellmanshape.py: the SHAPES of the two arguments of every",
        "  loss call of `learn` (incl. inlined `update` / `_learn_individual`) of " + REL_SOURCE + ",",
        "  by abstract execution over tensor shapes with torch's broadcasting rules; do not edit.  Core Lean only.",
        "  Inputs: the shapes of the batch fields and of the network outputs.  `none` = torch raises.",
        "  `Proofs/BellmanShapeGenEq.lean` proves the definitions equal to `tdTargetShape` / `tdLossShape` of `Model/Bellman.lean`.",
        "-/",
        SHA_PREFIX + sha,
        "set_option linter.unusedVariables false",
        "",
    ])
    return header + "\n" + "\n".join(body).rstrip() + "\n\nend BellmanShapeGen\n", sha


def strip_sha(text: str) -> str:
    return "\n".join(ln for ln in text.split("\n") if not ln.startswith(SHA_PREFIX))


def write_if_changed(text: str, out: Path, force: bool = False) -> bool:
    out = Path(out)
    old = out.read_text() if out.exists() else None
    if old is not None and not force and strip_sha(old) == strip_sha(text):
        return False
    if old == text:
        return False
    out.parent.mkdir(parents=True, exist_ok=True)
    tmp = out.with_suffix(".lean.tmp")
    tmp.write_text(text)
    os.replace(tmp, out)
    return True


def main(argv: list[str]) -> int:
    import argparse
    ap = argparse.ArgumentParser()
    ap.add_argument("--repo", default=None)
    ap.add_argument("--out", default=str(DEFAULT_OUT))
    ap.add_argument("--stdout", action="store_true")
    ap.add_argument("--force", action="store_true")
    a = ap.parse_args(argv)
    try:
        text, sha = translate(repo_dir(a.repo))
    except Unsupported as e:
        print(f"py2lean_bellmanshape: {e}", file=sys.stderr)
        return 1
    if a.stdout:
        sys.stdout.write(text)
        return 0
    changed = write_if_changed(text, Path(a.out), a.force)
    print(f"{a.out}: {'written' if changed else 'unchanged'} (source sha256 {sha[:16]}…, "
          f"translation sha256 {hashlib.sha256(strip_sha(text).encode()).hexdigest()[:16]}…)")
    return 0


if __name__ == "__main__":
    sys.exit(main(sys.argv[1:]))
