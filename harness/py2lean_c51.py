#!/usr/bin/env python3
"""
py2lean_c51.py — translate the categorical (C51) target of Rainbow DQN
(REPO/agilerl/algorithms/dqn_rainbow.py: `RainbowDQN._dqn_loss`, the part of `learn` that combines the 1-step and
n-step element-wise losses into priorities, and the two statements of `__init__` that build the support) into Lean 4.

    python3 harness/py2lean_c51.py [--repo DIR] [--out FILE] [--stdout] [--force]

Reads the *source text* only (Python `ast`; agilerl / torch are never imported) and writes lean/Gen/C51Gen.lean
(namespace `C51Gen`, core Lean only).  `Proofs/C51GenEq.lean` proves the generated definitions equal to `bpos`,
`lowUp`, `projOne`, `Sample.row`, `dqnLoss`, `learn` of the hand-written `Model/C51.lean`; `Props/C18.lean` restates
the C18 theorems over the generated definitions (`C18_source_translation_*`).

What is translated.  Everything is located *by structure*:
  * THE CLASS = the one top-level class with a method that calls `.index_add_(…)`;  LOSS = that method
    (`_dqn_loss`);  LEARN = its one method that calls `self.LOSS(…)`;  INIT = its `__init__`.
  * All three are *executed symbolically*, statement by statement, over a small tensor algebra with SHAPE and DTYPE
    INFERENCE, PER BATCH ROW: a tensor is (dims, dtype, entry function); dims are `B` (the batch — always leading;
    the row is implicit), `A` (actions: the length of a network's q-row, never materialised), `1`, or an integer
    expression such as `self.num_atoms`; broadcasting, `unsqueeze`, `expand`, advanced indexing
    `t[range(B), idx]`, `argmax(1)`, `sum(1)` are computed on the entry functions.  Locals are substituted by their
    values (renaming a local, introducing a temporary, `x -= y` ↔ `x = x - y`, reordering independent statements
    do not change the output).  In-place updates are sequential: `L[mask] -= 1` rewrites the entries of the object
    `L` names (`if mask then L - 1 else L`), a later mask reads the updated object; `t.view(-1)` is a view, so
    `proj.view(-1).index_add_(0, idx.view(-1), src.view(-1))` updates `proj`.
  * THE ROW OFFSET.  A `(B, n)` tensor flattened by `.view(-1)` keeps row `i` in `[i·n, (i+1)·n)`.  The index of an
    `index_add_` on such a view must be `<row-relative index> + <offset>` (either order) where the offset entry of
    row `i` is recognised *from the AST* as `i·n`: `torch.linspace(0, (B - 1) * n, B).long()` (then `unsqueeze(1)`,
    `expand(B, n)`), `B` the size of the batch dimension and `n` the column dimension of the updated tensor.  Then
    the scatter is translated per row (`indexAdd` on one row with row-relative indices).  Any other index — no
    offset, another start / end / step count, another `n` — is `Unsupported`.  (That row-relative indices stay
    inside `[0, n)`, i.e. that rows never mix, is a theorem of the model: `C18_scatter_in_range`,
    `C18_row_is_single_projection`.)
  * The output is cut into definitions at structural points only:
      INIT   `<attr>0`      the value `__init__` computes for an attribute LOSS / LEARN read
                            (`support0 = linspace v_min v_max num_atoms`, `delta_z0`), over the attributes it reads;
      LOSS   `pos`          the argument of `floor` / `ceil` (the fractional atom position `b` of one entry), the
                            entries `v[j]` of row vectors abstracted as parameters (`self_support_j`);
             `scatter<k>`   (row-relative index, value) that the k-th `index_add_` contributes for one entry, as a
                            function of the position `b` and the entries of row vectors (`x`: the source mass);
             `target_dist`  the row vector(s) of network origin the scatter reads (`actor_target(next_states,
                            q=False)[range(B), actor(next_states).argmax(1)]`);
             `project`      the row of the updated tensor after all `index_add_`s, over a vector parameter `p`;
             `dqn_loss`     the returned entry of the row.
      LEARN  `learn_ret<k>` per component of the returned tuple, the row's entry as `Option` (`None` → `none`), a
                            decision tree over the boolean inputs in the order the source tests them (`per`,
                            `n_experiences is not None` as a `match`, `self.combined_reward`): LEARN is executed
                            once per path.  `torch.mean(t)` of a per-row tensor is reported as `some <entry of t>`
                            (the term of the batch mean); a component that is not row-wise on a path (PER: the
                            `(B,) * (B,1)` product with the weights is a B×B outer product) is `none` there and
                            listed in the header.
    A definition takes as parameters exactly the inputs it reads: network functions, then `self_<attr>`, then the
    formal parameters of the method in signature order, then abstracted entries.
  * Inputs.  Network calls `self.<net>(obs, k=v, …)` are opaque per-row functions named `<net>[_<k>_<v>…]`
    (`actor : Obs → List Rat`, `actor_target_q_False : Obs → List (List Rat)`): which network is asked for which
    quantity on which observation flows from the AST.  `experiences["key"]` is field `key` of the row
    (`Row Obs`: obs action reward next_obs done weights idxs); the formal parameters of LOSS get their kinds from
    the call sites in LEARN (observation / column / Python scalar).

Supported subset (anything else on the way to an output raises `Unsupported` naming the construct and line):
  * statements: `x = e`, `x op= e` (in place on a tensor object), `t[mask] op= c`, `t[mask] = c`,
    `with torch.no_grad():` (inlined), `if` on boolean inputs (forked), `return`, expression statements
    `v.index_add_(0, i, s)`, `assert`, `pass`, docstrings.  Any other statement is a black box: locals it assigns,
    tensors it passes to calls and (if it calls through `self`) the networks become *poisoned*; an output that
    needs a poisoned value is `Unsupported`, everything else is unaffected.
  * expressions: literals, locals, `self.<attr>`, `+ - * / **`, unary `-`, comparisons, `not/and/or`,
    `x is [not] None` on an optional parameter, `.floor() .ceil() .clamp(min=,max=) .long() .float() .argmax(1)
    .sum(1) .size([0]) .unsqueeze(k) .expand(…) .view(-1) .reshape(-1)`, `torch.linspace`, `torch.zeros(size)`,
    `torch.mean`, `range(B)`, `t[range(B), idx]`, `d["key"]`, `self.LOSS(…)`, `self.<net>(…)`.

Assumptions (the forms met are listed in the header of the generated file):
  * floats are exact rationals (float32 rounding is outside; the clamp of `b` that repairs it is translated);
  * identity on values: `.to .cpu .numpy .detach .double .contiguous .item`, `.long()` of a `floor`/`ceil`/integer,
    `.float()`, `torch.no_grad()`, `self.preprocess_observation`, `device=` arguments;
  * networks act row by row and do not change attributes; `net(x)` is a `(B, A)` tensor, `net(x, q=False, …)` a
    `(B, A, n)` tensor whose last dimension is the one it is combined with; `reward / done / action / weights`
    columns are `(B, 1)`;
  * attributes keep the value / shape `__init__` gives them (`self.support` has `self.num_atoms` entries), calls for
    effect (`optimizer.step()`, `soft_update()` …) do not rebind scalar attributes;
  * `argmax` = first maximum; an index outside a list reads `0` / `[]`, `index_add_` outside the row writes nothing
    (torch: error / another row — excluded by the model's theorems); `**` has a natural-number exponent.

The header carries the sha256 of the source file; `write_if_changed` compares everything *but* that line.
"""
from __future__ import annotations

import ast
import hashlib
import os
import sys
from fractions import Fraction
from pathlib import Path

HERE = Path(__file__).resolve().parent
DEFAULT_OUT = HERE.parent / "lean" / "Gen" / "C51Gen.lean"
REL_SOURCE = "agilerl/algorithms/dqn_rainbow.py"
SHA_PREFIX = "-- sha256(source) = "

FIELDS = {"obs": "Obs", "action": "Nat", "reward": "Rat", "next_obs": "Obs", "done": "Rat", "weights": "Rat",
          "idxs": "Nat"}
ALIAS_METHODS = {"to", "cpu", "numpy", "detach", "contiguous", "cuda"}
COPY_ID_METHODS = {"double", "clone"}
PURE_INHERITED = {"preprocess_observation"}
ARITH = {ast.Add: "+", ast.Sub: "-", ast.Mult: "*", ast.Div: "/"}
CMP = {ast.Eq: "=", ast.NotEq: "≠", ast.Lt: "<", ast.LtE: "≤", ast.Gt: ">", ast.GtE: "≥"}


class Unsupported(Exception):
    pass


def where(node) -> str:
    return f"{REL_SOURCE}:{getattr(node, 'lineno', '?')}"


def unparse(n, k: int = 80) -> str:
    s = " ".join(ast.unparse(n).split())
    return s if len(s) <= k else s[:k] + "…"


def is_docstring(st) -> bool:
    return isinstance(st, ast.Expr) and isinstance(st.value, ast.Constant) and isinstance(st.value.value, str)


def is_self(n) -> bool:
    return isinstance(n, ast.Name) and n.id == "self"


# ---------------------------------------------------------------------------------------------- IR
class TySlot:
    """mutable type of an input: None (→ Rat when rendered) | Nat | Rat | Bool | Obs | Vec | Mat | NetVec | NetMat |
    Row | OptRow"""

    def __init__(self, t=None):
        self.t = t


class Leaf:
    """an input of the generated definitions.  group: 0 network function, 1 self attribute, 2 formal parameter,
    3 abstracted entry"""

    def __init__(self, group: int, name: str, t=None, order: int = 0, dims=None):
        self.group, self.name, self.ty, self.order, self.dims = group, name, TySlot(t), order, dims

    def sortkey(self):
        return (self.group, self.order, self.name)

    def force(self, t: str, node=None, what: str = ""):
        if self.ty.t is None:
            self.ty.t = t
        elif self.ty.t != t:
            raise Unsupported(f"{where(node)}: unsupported construct: `{self.name}` is used as {self.ty.t} and as {t} ({what})")


class Def:
    """a generated definition"""

    def __init__(self, name: str, doc: str):
        self.name, self.doc = name, doc
        self.params: list[Leaf] = []
        self.body: E | None = None
        self.ret: str | None = None


class E:
    """expression node.  op: num leaf var row bsym + - * / pow neg cmp and or not ite floor ceil long float clamp getD
    app argmax tab pair sum scatter zeros linvec lin call fld issome omatch some none"""
    __slots__ = ("op", "args", "aux", "_key")

    def __init__(self, op, args=(), aux=None):
        self.op, self.args, self.aux, self._key = op, tuple(args), aux, None

    def key(self):
        if self._key is None:
            a = self.aux
            if isinstance(a, (Leaf, Def)):
                a = id(a)
            self._key = (self.op, a, tuple(x.key() for x in self.args))
        return self._key


def num(c) -> E:
    return E("num", aux=Fraction(c))


NUM0 = num(0)
ROW = E("row")
BSYM = E("bsym")
_nvar = [0]


def fresh_var() -> E:
    _nvar[0] += 1
    return E("var", aux=_nvar[0])


def walk(e: E, seen=None):
    seen = set() if seen is None else seen
    if e.key() in seen:
        return
    seen.add(e.key())
    yield e
    for a in e.args:
        yield from walk(a, seen)


def contains(e: E, pred) -> bool:
    return any(pred(x) for x in walk(e))


def has_var(e: E, v: E) -> bool:
    k = v.key()
    return contains(e, lambda x: x.key() == k)


def subst(e: E, mapping: dict, memo=None) -> E:
    """replace sub-expressions by key (top-down, maximal)"""
    memo = {} if memo is None else memo
    k = e.key()
    if k in mapping:
        return mapping[k]
    if k in memo:
        return memo[k]
    if not e.args:
        memo[k] = e
        return e
    new = [subst(a, mapping, memo) for a in e.args]
    r = e if all(x is y for x, y in zip(new, e.args)) else E(e.op, new, e.aux)
    memo[k] = r
    return r


def veclen(v: E):
    """declared length of a row vector: an E, or None (taken from the context)"""
    if v.op == "scatter":
        return veclen(v.args[0])
    if v.op == "zeros":
        return v.args[0]
    if v.op == "linvec":
        return v.args[2]
    if v.op == "tab":
        return v.args[0]
    if v.op == "leaf" and v.aux.dims:
        return v.aux.dims[0]
    return None


def dim_eq(a, b) -> bool:
    if a is None or b is None:
        return True
    if isinstance(a, E) and isinstance(b, E):
        return a.key() == b.key()
    return a == b and not isinstance(a, E) and not isinstance(b, E)


def mk_tab(n, var: E, body: E) -> E:
    """the row vector [body(var) for var in range(n)] with the identities that hold under the shape assumptions"""
    if body.op == "getD" and body.args[1].key() == var.key() and not has_var(body.args[0], var) \
            and body.args[2].op == "num" and dim_eq(veclen(body.args[0]), n):
        return body.args[0]
    if n == "A" or n is None:
        raise Unsupported("a row over a dimension that is not an input (the number of actions / an unknown size) is "
                          "built from computed entries")
    if body.op == "num" and body.aux == 0:
        return E("zeros", [n])
    if body.op == "lin" and body.args[3].key() == var.key() and body.args[2].key() == n.key() \
            and not any(has_var(a, var) for a in body.args[:3]):
        return E("linvec", body.args[:3])
    return E("tab", [n, var, body])


# ---------------------------------------------------------------------------------------------- types + rendering
RANK = {"Lit": 0, "Nat": 1, "Int": 2, "Rat": 3}


class Renderer:
    def __init__(self):
        self.tmemo: dict = {}
        self.lets: dict = {}          # key → name (active let bindings)
        self.varnames: dict = {}

    def ty(self, e: E) -> str:
        k = e.key()
        if k not in self.tmemo:
            self.tmemo[k] = self._ty(e)
        return self.tmemo[k]

    def join(self, *es) -> str:
        ts = [self.ty(x) for x in es]
        for t in ts:
            if t not in RANK:
                raise Unsupported(f"arithmetic on a value of type {t}")
        return max(ts, key=lambda t: RANK[t])

    def _ty(self, e: E) -> str:
        op = e.op
        if op == "num":
            return "Lit" if e.aux.denominator == 1 else "Rat"
        if op == "leaf":
            return e.aux.ty.t or "Rat"
        if op == "var":
            return "Nat"
        if op in ("row", "bsym"):
            raise Unsupported("an output depends on the position of the row in the batch / on the batch size "
                              "(not a per-row function)")
        if op in ("+", "-", "*"):
            t = self.join(*e.args)
            if t == "Lit":
                return "Int"
            return "Int" if (op == "-" and t == "Nat") else t
        if op in ("/", "pow", "floor", "ceil", "float", "clamp", "lin", "sum"):
            return "Rat"
        if op == "neg":
            t = self.ty(e.args[0])
            return "Int" if t in ("Lit", "Nat") else t
        if op in ("cmp", "and", "or", "not", "issome"):
            return "Bool"
        if op == "ite":
            ta, tb = self.ty(e.args[1]), self.ty(e.args[2])
            if ta in RANK and tb in RANK:
                t = self.join(e.args[1], e.args[2])
                return "Int" if t == "Lit" else t
            return ta
        if op == "omatch":
            return self.ty(e.args[1])
        if op == "long":
            t = self.ty(e.args[0])
            return t if t in ("Nat", "Int") else "Int"
        if op == "getD":
            tv = self.ty(e.args[0])
            if tv == "Vec":
                return "Rat"
            if tv == "Mat":
                return "Vec"
            raise Unsupported(f"indexing a value of type {tv}")
        if op == "app":
            return {"NetVec": "Vec", "NetMat": "Mat"}[e.args[0].aux.ty.t]
        if op == "argmax":
            return "Nat"
        if op == "tab":
            return "Ops" if self.ty(e.args[2]) == "IdxVal" else "Vec"
        if op == "pair":
            return "IdxVal"
        if op in ("scatter", "zeros", "linvec"):
            return "Vec"
        if op == "call":
            return e.aux.ret
        if op == "fld":
            return FIELDS[e.aux]
        if op == "some":
            t = self.ty(e.args[0])
            return "Opt" + ("Int" if t == "Lit" else t)
        if op == "none":
            return "OptNone"
        raise Unsupported(f"internal: type of {op}")

    # ------------------------------------------------------------------ text
    LEAN_TY = {"Nat": "Nat", "Int": "Int", "Rat": "Rat", "Bool": "Bool", "Obs": "Obs", "Vec": "List Rat",
               "Mat": "List (List Rat)", "NetVec": "Obs → List Rat", "NetMat": "Obs → List (List Rat)",
               "IdxVal": "Int × Rat", "Ops": "List (Int × Rat)", "Row": "Row Obs", "OptRow": "Option (Row Obs)",
               "OptRat": "Option Rat", "OptNat": "Option Nat", "OptInt": "Option Int", "OptNone": "Option Rat"}

    def lit(self, c: Fraction, t: str) -> str:
        if c.denominator != 1:
            return f"(mkRat {c.numerator} {c.denominator})" if c >= 0 else f"(mkRat ({c.numerator}) {c.denominator})"
        t = "Int" if t == "Lit" else t
        if c < 0 and t == "Nat":
            t = "Int"
        return f"({c.numerator} : {t})" if c >= 0 else f"(({c.numerator}) : {t})"

    def co(self, e: E, t: str) -> str:
        """text of `e` coerced to the numeric type `t`"""
        te = self.ty(e)
        if e.op == "num":
            return self.lit(e.aux, t if e.aux.denominator == 1 else "Rat")
        if te == t or te not in RANK or t not in RANK:
            return self.r(e)
        if te == "Lit":
            te = "Int"
            if t == "Int":
                return self.r(e)
        if RANK[te] > RANK[t]:
            if te == "Int" and t == "Nat":
                return f"(Int.toNat {self.r(e)})"
            raise Unsupported(f"a value of type {te} where {t} is needed")
        return f"(({self.r(e)} : {te}) : {t})"

    def prop(self, e: E) -> str:
        """a Bool-typed expression as a Lean proposition"""
        op = e.op
        if op == "cmp":
            t = self.join(*e.args)
            t = "Int" if t == "Lit" else t
            return f"({self.co(e.args[0], t)} {e.aux} {self.co(e.args[1], t)})"
        if op == "and":
            return "(" + " ∧ ".join(self.prop(a) for a in e.args) + ")" if e.args else "True"
        if op == "or":
            return "(" + " ∨ ".join(self.prop(a) for a in e.args) + ")" if e.args else "False"
        if op == "not":
            return f"(¬ {self.prop(e.args[0])})"
        if op == "leaf":
            return f"({e.aux.name} = true)"
        if op == "issome":
            return f"({e.args[0].aux.name}.isSome = true)"
        raise Unsupported(f"internal: condition {op}")

    def var(self, v: E) -> str:
        return self.varnames.get(v.aux, "j")

    def r(self, e: E) -> str:
        k = e.key()
        if k in self.lets:
            return self.lets[k]
        op, a = e.op, e.args
        if op == "num":
            return self.lit(e.aux, "Lit")
        if op == "leaf":
            return e.aux.name
        if op == "var":
            return self.var(e)
        if op in ("row", "bsym"):
            self.ty(e)
        if op in ("+", "-", "*"):
            t = self.ty(e)
            return f"({self.co(a[0], t)} {op} {self.co(a[1], t)})"
        if op == "/":
            return f"({self.co(a[0], 'Rat')} / {self.co(a[1], 'Rat')})"
        if op == "pow":
            return f"({self.co(a[0], 'Rat')} ^ {self.co(a[1], 'Nat')})"
        if op == "neg":
            return f"(-{self.co(a[0], self.ty(e))})"
        if op in ("cmp", "and", "or", "not", "issome"):
            return f"(decide {self.prop(e)})"
        if op == "ite":
            t = self.ty(e)
            return f"(if {self.prop(a[0])} then {self.co(a[1], t)} else {self.co(a[2], t)})"
        if op == "omatch":
            nm = a[0].aux.name
            return f"(match {nm} with | some {nm} => {self.r(a[1])} | none => {self.r(a[2])})"
        if op in ("floor", "ceil"):
            return f"((Rat.{op} {self.co(a[0], 'Rat')} : Int) : Rat)"
        if op == "long":
            x = a[0]
            if x.op in ("floor", "ceil"):
                return f"(Rat.{x.op} {self.co(x.args[0], 'Rat')})"
            if self.ty(x) in ("Nat", "Int", "Lit"):
                return self.r(x)
            return f"(truncI {self.co(x, 'Rat')})"
        if op == "float":
            return self.co(a[0], "Rat")
        if op == "clamp":
            lo, hi = e.aux
            xs = [self.co(x, "Rat") for x in a]
            if lo and hi:
                return f"(clampT {xs[0]} {xs[1]} {xs[2]})"
            return f"(clampLo {xs[0]} {xs[1]})" if lo else f"(clampHi {xs[0]} {xs[1]})"
        if op == "getD":
            d = "0" if self.ty(e) == "Rat" else "[]"
            return f"(List.getD {self.r(a[0])} {self.co(a[1], 'Nat')} {d})"
        if op == "app":
            return f"({a[0].aux.name} {self.r(a[1])})"
        if op == "argmax":
            return f"(argmaxFirst {self.r(a[0])})"
        if op == "tab":
            return f"(List.map (fun {self.var(a[1])} => {self.r(a[2])}) (List.range {self.co(a[0], 'Nat')}))"
        if op == "pair":
            return f"({self.co(a[0], 'Int')}, {self.co(a[1], 'Rat')})"
        if op == "sum":
            return f"(List.sum {self.r(a[0])})"
        if op == "scatter":
            return f"(indexAdd {self.r(a[0])} {self.r(a[1])})"
        if op == "zeros":
            return f"(List.replicate {self.co(a[0], 'Nat')} (0 : Rat))"
        if op == "linvec":
            return f"(linspace {self.co(a[0], 'Rat')} {self.co(a[1], 'Rat')} {self.co(a[2], 'Nat')})"
        if op == "lin":
            return (f"(linElem {self.co(a[0], 'Rat')} {self.co(a[1], 'Rat')} {self.co(a[2], 'Nat')} "
                    f"{self.co(a[3], 'Nat')})")
        if op == "call":
            d: Def = e.aux
            parts = []
            for p, x in zip(d.params, a):
                t = p.ty.t or "Rat"
                parts.append(self.co(x, t) if t in RANK else self.r(x))
            return "(" + " ".join([d.name] + parts) + ")"
        if op == "fld":
            return f"{a[0].aux.name}.{e.aux}"
        if op == "some":
            t = self.ty(e)[3:]
            return f"(some {self.co(a[0], t)})"
        if op == "none":
            return "none"
        raise Unsupported(f"internal: render {op}")

    # ------------------------------------------------------------------ definitions
    def free_leaves(self, e: E) -> list[Leaf]:
        out = {}
        for x in walk(e):
            if x.op == "leaf":
                out[id(x.aux)] = x.aux
        return sorted(out.values(), key=Leaf.sortkey)

    def render_def(self, d: Def) -> list[str]:
        body = d.body
        d.ret = self.ty(body)
        if d.ret == "Lit":
            d.ret = "Int"
        # let-sharing of repeated compound sub-expressions that contain no bound variable
        count: dict = {}
        order: list[E] = []

        def visit(x: E, top: bool):
            k = x.key()
            if x.op in ("num", "leaf", "var", "none", "fld", "some"):
                for y in x.args:
                    visit(y, False)
                return
            count[k] = count.get(k, 0) + 1
            if count[k] > 1:
                return
            for y in x.args:
                visit(y, False)
            order.append(x)
        visit(body, True)
        bound = {x.args[1].key() for x in walk(body) if x.op == "tab"}
        optnames = {x.args[0].key() for x in walk(body) if x.op == "omatch"}

        def closed(x: E) -> bool:
            return not contains(x, lambda y: y.key() in bound or (y.op == "fld" and y.args[0].key() in optnames))
        lines = []
        self.lets = {}
        n = 0
        for x in order:
            if count[x.key()] > 1 and x.key() != body.key() and closed(x) and self.ty(x) in self.LEAN_TY:
                txt = self.r(x)
                name = f"t{n}"
                n += 1
                lines.append(f"  let {name} : {self.LEAN_TY[self.ty(x)]} := {txt}")
                self.lets[x.key()] = name
        txt = self.r(body)
        self.lets = {}
        ps = " ".join(f"({p.name} : {self.LEAN_TY[p.ty.t or 'Rat']})" for p in d.params)
        generic = "{Obs : Type} " if any((p.ty.t or "") in ("Obs", "NetVec", "NetMat", "Row", "OptRow") for p in d.params) else ""
        head = f"def {d.name} {generic}{ps} : {self.LEAN_TY[d.ret]} :="
        return [f"/-- {d.doc} -/", head] + lines + [f"  {txt}", ""]


# ---------------------------------------------------------------------------------------------- symbolic values
class T:
    """tensor value (immutable snapshot): dims, dtype float | long | bool, entry function idx-tuple → E, object id"""

    def __init__(self, dims, dtype, fn, obj):
        self.dims, self.dtype, self.fn, self.obj = tuple(dims), dtype, fn, obj


class V:
    """kinds: T (.t) | sc (.e, .isint) | obs (.e) | size (.dims) | range (.e) | flat (.t) | none | poison (.why) |
    batch (.leaf, .optional) | mod (.name) | bmean (.e) | tuple (.items) | str (.s) | selfv"""

    def __init__(self, kind, **kw):
        self.kind = kind
        self.__dict__.update(kw)


def poison(why: str) -> V:
    return V("poison", why=why)


NONE = V("none")


class Fork(Exception):
    def __init__(self, atom: E):
        self.atom = atom


class State:
    def __init__(self):
        self.locals: dict[str, V] = {}
        self.objval: dict[int, object] = {}      # object id → T | poison V
        self.nets_dirty: str | None = None
        self.assume: dict = {}                   # atom key → bool

    def copy(self) -> "State":
        s = State()
        s.locals, s.objval, s.nets_dirty, s.assume = dict(self.locals), dict(self.objval), self.nets_dirty, dict(self.assume)
        return s


class Ctx:
    """what the three executions share: inputs, assumptions, the class"""

    def __init__(self, cls: ast.ClassDef, loss_name: str):
        self.cls, self.loss_name = cls, loss_name
        self.methods = {f.name: f for f in cls.body if isinstance(f, ast.FunctionDef)}
        self.attr_leaf: dict[str, Leaf] = {}
        self.net_leaf: dict[str, Leaf] = {}
        self.attr_init: dict[str, object] = {}   # attr → ("pass", ctor param) | ("val", V) | ("poison", why)
        self.assumed: set[str] = set()
        self.loss_def = Def("dqn_loss", "")
        self.loss_formals: list[str] = []
        self.call_kinds: dict[str, set] = {}
        self.nobj = 0
        self.notes: list[str] = []

    def new_obj(self) -> int:
        self.nobj += 1
        return self.nobj


class Exec:
    """symbolic execution of one method, per batch row"""

    def __init__(self, ctx: Ctx, fn: ast.FunctionDef, role: str):
        self.ctx, self.fn, self.role = ctx, fn, role
        self.st = State()
        self.formal_leaf: dict[str, Leaf] = {}

    # ------------------------------------------------------------------ helpers
    def bad(self, n, what: str) -> V:
        return poison(f"{where(n)}: unsupported construct: {what}")

    def need(self, v: V, n, what: str) -> V:
        if v.kind == "poison":
            raise Unsupported(f"{where(n)}: {what} needs a value that is not translatable — {v.why}")
        return v

    def tensor(self, dims, dtype, fn) -> V:
        return V("T", t=T(dims, dtype, fn, self.ctx.new_obj()))

    def cur(self, v: V) -> V:
        """the current content of the object a tensor value names"""
        if v.kind in ("T", "flat") and v.t.obj in self.st.objval:
            c = self.st.objval[v.t.obj]
            if isinstance(c, V):
                return c
            return V(v.kind, t=c)
        return v

    def attr(self, n, name: str) -> V:
        ini = self.ctx.attr_init.get(name)
        if ini is None:
            return self.bad(n, f"`self.{name}` is not assigned by a top-level statement of __init__")
        if ini[0] == "poison":
            return poison(ini[1])
        if name not in self.ctx.attr_leaf:
            dims = None
            if ini[0] == "val" and ini[1].kind == "T":
                dims = ini[1].t.dims
            self.ctx.attr_leaf[name] = Leaf(1, "self_" + name, dims=dims)
        lf = self.ctx.attr_leaf[name]
        e = E("leaf", aux=lf)
        if ini[0] == "val" and ini[1].kind == "T":
            t0 = ini[1].t
            if len(t0.dims) != 1:
                return self.bad(n, f"`self.{name}` is a tensor of rank {len(t0.dims)}")
            lf.force("Vec", n, "a tensor attribute")
            self.ctx.assumed.add(f"self.{name} keeps the shape __init__ gives it")
            return self.tensor(t0.dims, t0.dtype, lambda idx, e=e: E("getD", [e, idx[0], NUM0]))
        return V("sc", e=e, isint=None)

    def isint(self, v: V):
        e = v.e
        if e.op == "num":
            return e.aux.denominator == 1 and not getattr(v, "isfloat", False)
        if e.op == "bsym":
            return True
        if e.op == "leaf":
            return True if e.aux.ty.t == "Nat" else (False if e.aux.ty.t == "Rat" else None)
        if e.op in ("+", "-", "*"):
            xs = [self.isint(V("sc", e=a)) for a in e.args]
            return True if all(x is True for x in xs) else (False if any(x is False for x in xs) else None)
        if e.op in ("/", "pow"):
            return False
        return None

    # ------------------------------------------------------------------ broadcasting
    def bdims(self, n, da, db):
        k = max(len(da), len(db))
        pa, pb = (1,) * (k - len(da)) + tuple(da), (1,) * (k - len(db)) + tuple(db)
        out = []
        for x, y in zip(pa, pb):
            if x == 1:
                out.append(y)
            elif y == 1:
                out.append(x)
            elif dim_eq(x, y):
                out.append(y if x is None else x)
            else:
                return None
        if "B" in out[1:]:
            return "outer"
        return tuple(out)

    @staticmethod
    def sub_idx(idx, dims):
        """indices of an operand of dims `dims` inside a broadcast result indexed by `idx`"""
        part = idx[len(idx) - len(dims):] if dims else ()
        return tuple(NUM0 if d == 1 else i for d, i in zip(dims, part))

    def binop(self, n, op: str, a: V, b: V) -> V:
        a, b = self.cur(a), self.cur(b)
        for v in (a, b):
            if v.kind == "poison":
                return v
        if a.kind == "sc" and b.kind == "sc":
            e = E("cmp", [a.e, b.e], op) if op in CMP.values() else E(op, [a.e, b.e])
            return V("sc", e=e)
        if a.kind not in ("T", "sc") or b.kind not in ("T", "sc"):
            return self.bad(n, f"`{unparse(n)}`: operands of kind {a.kind}, {b.kind}")
        da = a.t.dims if a.kind == "T" else ()
        db = b.t.dims if b.kind == "T" else ()
        dims = self.bdims(n, da, db)
        if dims is None:
            return self.bad(n, f"`{unparse(n)}`: shapes {show_dims(da)} and {show_dims(db)} do not broadcast")
        if dims == "outer":
            return self.bad(n, f"`{unparse(n)}`: a {show_dims(da)} with a {show_dims(db)} tensor broadcasts to an outer "
                               f"product over the batch (not row-wise)")
        fa = (lambda idx: a.t.fn(self.sub_idx(idx, da))) if a.kind == "T" else (lambda idx: a.e)
        fb = (lambda idx: b.t.fn(self.sub_idx(idx, db))) if b.kind == "T" else (lambda idx: b.e)
        ta = a.t.dtype if a.kind == "T" else None
        tb = b.t.dtype if b.kind == "T" else None
        if op in CMP.values():
            return self.tensor(dims, "bool", lambda idx: E("cmp", [fa(idx), fb(idx)], op))
        if ta == "bool" or tb == "bool":
            if ta == "bool" and tb == "bool" and op in ("*", "&"):
                return self.tensor(dims, "bool", lambda idx: E("and", [fa(idx), fb(idx)]))
            if ta == "bool" and tb == "bool" and op == "|":
                return self.tensor(dims, "bool", lambda idx: E("or", [fa(idx), fb(idx)]))
            return self.bad(n, f"`{unparse(n)}`: arithmetic `{op}` on a boolean tensor")
        if op not in ARITH.values():
            return self.bad(n, f"`{unparse(n)}`: operator `{op}` on tensors")
        dt = None
        if op == "/" or "float" in (ta, tb):
            dt = "float"
        elif ta == "long" and tb == "long":
            dt = "long"
        else:
            s = b if a.kind == "T" else a
            i = self.isint(s)
            if i is None:
                return self.bad(n, f"`{unparse(n)}`: the dtype of the result depends on the type of a Python scalar not "
                                   f"known here")
            dt = "long" if i else "float"

        def fn(idx):
            x, y = fa(idx), fb(idx)
            if dt == "float":       # a long operand is promoted
                if ta == "long":
                    x = E("float", [x])
                if tb == "long":
                    y = E("float", [y])
            return E(op, [x, y])
        return self.tensor(dims, dt, fn)

    # ------------------------------------------------------------------ expressions
    def eval(self, n) -> V:
        m = getattr(self, "e_" + type(n).__name__, None)
        if m is None:
            return self.bad(n, f"expression `{unparse(n)}`")
        return m(n)

    def e_Constant(self, n):
        c = n.value
        if c is None:
            return NONE
        if isinstance(c, bool):
            return V("boolc", b=c)
        if isinstance(c, int):
            return V("sc", e=num(c))
        if isinstance(c, float):
            return V("sc", e=num(Fraction(c)), isfloat=True)
        if isinstance(c, str):
            return V("str", s=c)
        return self.bad(n, f"literal {c!r}")

    def e_Name(self, n):
        if n.id in self.st.locals:
            return self.cur(self.st.locals[n.id])
        if n.id in ("torch", "np"):
            return V("mod", name=n.id)
        if n.id == "self":
            return V("selfv")
        return self.bad(n, f"name `{n.id}` (not a local assigned on this path)")

    def e_Attribute(self, n):
        if is_self(n.value):
            return self.attr(n, n.attr)
        return self.bad(n, f"attribute `{unparse(n)}`")

    def e_UnaryOp(self, n):
        v = self.cur(self.eval(n.operand))
        if v.kind == "poison":
            return v
        if isinstance(n.op, ast.USub):
            if v.kind == "sc":
                return V("sc", e=E("neg", [v.e]))
            if v.kind == "T" and v.t.dtype != "bool":
                t = v.t
                return self.tensor(t.dims, t.dtype, lambda idx: E("neg", [t.fn(idx)]))
        if isinstance(n.op, ast.Not):
            b = self.as_cond(n.operand, v)
            if b is not None:
                return V("sc", e=E("not", [b]))
        return self.bad(n, f"`{unparse(n)}`")

    def as_cond(self, n, v: V):
        if v.kind == "boolc":
            return E("and", []) if v.b else E("or", [])
        if v.kind == "sc":
            e = v.e
            if e.op == "leaf":
                e.aux.force("Bool", n, "used as a condition")
                return e
            if e.op in ("cmp", "and", "or", "not", "issome"):
                return e
        return None

    def e_BoolOp(self, n):
        es = []
        for x in n.values:
            v = self.eval(x)
            if v.kind == "poison":
                return v
            b = self.as_cond(x, v)
            if b is None:
                return self.bad(n, f"`{unparse(x)}` used as a condition")
            es.append(b)
        return V("sc", e=E("and" if isinstance(n.op, ast.And) else "or", es))

    def e_Compare(self, n):
        if len(n.ops) != 1:
            return self.bad(n, f"chained comparison `{unparse(n)}`")
        op, a, b = n.ops[0], self.eval(n.left), self.eval(n.comparators[0])
        if isinstance(op, (ast.Is, ast.IsNot)):
            if b.kind == "none" and a.kind == "batch" and a.optional:
                e = E("issome", [E("leaf", aux=a.leaf)])
                return V("sc", e=e if isinstance(op, ast.IsNot) else E("not", [e]))
            if b.kind == "none" and a.kind == "none":
                return V("boolc", b=isinstance(op, ast.Is))
            return self.bad(n, f"`{unparse(n)}`")
        if type(op) not in CMP:
            return self.bad(n, f"comparison `{unparse(n)}`")
        return self.binop(n, CMP[type(op)], a, b)

    def e_BinOp(self, n):
        a, b = self.eval(n.left), self.eval(n.right)
        if isinstance(n.op, ast.Pow):
            a, b = self.cur(a), self.cur(b)
            for v in (a, b):
                if v.kind == "poison":
                    return v
            if a.kind == "sc" and b.kind == "sc":
                if b.e.op == "leaf":
                    b.e.aux.force("Nat", n, "an exponent")
                    self.ctx.assumed.add("the exponent of `**` is a natural number")
                elif not (b.e.op == "num" and b.e.aux.denominator == 1 and b.e.aux >= 0):
                    return self.bad(n, f"`{unparse(n)}`: exponent is not a natural-number input")
                return V("sc", e=E("pow", [a.e, b.e]))
            return self.bad(n, f"`{unparse(n)}`")
        if isinstance(n.op, ast.BitAnd):
            return self.binop(n, "&", a, b)
        if isinstance(n.op, ast.BitOr):
            return self.binop(n, "|", a, b)
        if type(n.op) not in ARITH:
            return self.bad(n, f"operator in `{unparse(n)}`")
        return self.binop(n, ARITH[type(n.op)], a, b)

    def e_Tuple(self, n):
        return V("tuple", items=[self.eval(x) for x in n.elts])

    def e_Subscript(self, n):
        base = self.cur(self.eval(n.value))
        if base.kind == "poison":
            return base
        if base.kind == "batch":
            k = self.eval(n.slice)
            if k.kind != "str" or k.s not in FIELDS:
                return self.bad(n, f"`{unparse(n)}`: not a known field of the batch")
            if base.optional and not self.st.assume.get(E("issome", [E("leaf", aux=base.leaf)]).key(), False):
                return self.bad(n, f"`{unparse(n)}`: field of a batch that may be None on this path")
            e = E("fld", [E("leaf", aux=base.leaf)], k.s)
            if FIELDS[k.s] == "Obs":
                return V("obs", e=e)
            dt = "long" if FIELDS[k.s] == "Nat" else "float"
            self.ctx.assumed.add(f"`{k.s}` of a batch is a (B, 1) column; field `{k.s}` of the row")
            return self.tensor(("B", 1), dt, lambda idx, e=e, n=n: self.row_only(n, idx, e))
        if base.kind == "T" and isinstance(n.slice, ast.Tuple) and len(n.slice.elts) == 2:
            i0, i1 = self.cur(self.eval(n.slice.elts[0])), self.cur(self.eval(n.slice.elts[1]))
            for v in (i0, i1):
                if v.kind == "poison":
                    return v
            t = base.t
            if i0.kind == "range" and i0.e.key() == BSYM.key() and len(t.dims) >= 2 and t.dims[0] == "B" \
                    and i1.kind == "T" and i1.t.dims == ("B",) and i1.t.dtype == "long":
                ti = i1.t
                return self.tensor(("B",) + t.dims[2:], t.dtype,
                                   lambda idx: t.fn((idx[0], ti.fn((idx[0],))) + tuple(idx[1:])))
            return self.bad(n, f"`{unparse(n)}`: only `t[range(<batch size>), <(B,) integer tensor>]` is supported")
        return self.bad(n, f"subscript `{unparse(n)}`")

    def row_only(self, n, idx, e: E) -> E:
        if idx[0].key() != ROW.key():
            raise Unsupported(f"{where(n)}: unsupported construct: a per-row input is read at another row of the batch")
        return e

    # ------------------------------------------------------------------ calls
    def kwargs(self, n, allowed) -> dict | None:
        out = {}
        for k in n.keywords:
            if k.arg is None or k.arg not in allowed:
                return None
            out[k.arg] = k.value
        return out

    def e_Call(self, n):
        f = n.func
        if isinstance(f, ast.Name):
            if f.id == "range" and len(n.args) == 1 and not n.keywords:
                v = self.eval(n.args[0])
                if v.kind == "sc":
                    return V("range", e=v.e)
            return self.bad_call(n, f"call `{unparse(n)}`")
        if not isinstance(f, ast.Attribute):
            return self.bad_call(n, f"call `{unparse(n)}`")
        if is_self(f.value):
            return self.self_call(n, f.attr)
        recv = self.eval(f.value)
        if recv.kind == "mod":
            return self.torch_call(n, recv.name, f.attr)
        return self.method_call(n, self.cur(recv), f.attr)

    def bad_call(self, n, what: str) -> V:
        self.black_box(n, what)
        return self.bad(n, what)

    def self_call(self, n, name: str) -> V:
        ctx = self.ctx
        if name in PURE_INHERITED and len(n.args) == 1 and not n.keywords:
            ctx.assumed.add(f"self.{name}(x) is the identity on the observation")
            return self.eval(n.args[0])
        if name == ctx.loss_name:
            return self.loss_call(n)
        if name in ctx.methods:
            return self.bad_call(n, f"call of the method `self.{name}`")
        args = [self.eval(a) for a in n.args]
        if len(args) == 1 and args[0].kind == "obs":
            if self.st.nets_dirty:
                return poison(self.st.nets_dirty)
            flags = []
            for k in n.keywords:
                if k.arg is None or not isinstance(k.value, ast.Constant) or not isinstance(k.value.value, bool):
                    return self.bad_call(n, f"`{unparse(n)}`: network keyword that is not a boolean literal")
                flags.append((k.arg, k.value.value))
            nm = name + "".join(f"_{k}_{v}" for k, v in flags)
            rank3 = dict(flags).get("q", True) is False
            if nm not in ctx.net_leaf:
                ctx.net_leaf[nm] = Leaf(0, nm, "NetMat" if rank3 else "NetVec")
            ctx.assumed.add(f"self.{name}({', '.join(['·'] + [f'{k}={v}' for k, v in flags])}) is an input `{nm}` : "
                            + ("Obs → List (List Rat) (one distribution per action)" if rank3
                               else "Obs → List Rat (one value per action)") + ", row by row")
            app = E("app", [E("leaf", aux=ctx.net_leaf[nm]), args[0].e])
            if rank3:
                return self.tensor(("B", "A", None), "float",
                                   lambda idx: E("getD", [E("getD", [self.row_only(n, idx, app), idx[1], NUM0]), idx[2], NUM0]))
            return self.tensor(("B", "A"), "float", lambda idx: E("getD", [self.row_only(n, idx, app), idx[1], NUM0]))
        return self.bad_call(n, f"call `{unparse(n)}`")

    def loss_call(self, n) -> V:
        ctx = self.ctx
        if n.keywords or len(n.args) != len(ctx.loss_formals):
            return self.bad_call(n, f"`{unparse(n)}`: the loss method is not called with its {len(ctx.loss_formals)} "
                                    f"positional arguments")
        actual = []
        for name, a in zip(ctx.loss_formals, n.args):
            v = self.cur(self.eval(a))
            if v.kind == "poison":
                return v
            if v.kind == "obs":
                kind, e = "Obs", v.e
            elif v.kind == "T" and v.t.dims in (("B", 1), ("B",)):
                e = v.t.fn((ROW, NUM0)[:len(v.t.dims)])
                kind = "Nat" if v.t.dtype == "long" else "Rat"
                kind = "col:" + kind
            elif v.kind == "sc":
                kind, e = "scalar", v.e
            else:
                return self.bad_call(n, f"`{unparse(a)}`: argument of the loss method of kind {v.kind}")
            ctx.call_kinds.setdefault(name, set()).add(kind)
            actual.append(e)
        return self.tensor(("B",), "float", lambda idx, actual=tuple(actual): E("losscall", self.row_only(n, idx, actual)))

    def torch_call(self, n, mod: str, name: str) -> V:
        if mod != "torch":
            return self.bad_call(n, f"call `{unparse(n)}`")
        if name == "no_grad" and not n.args:
            return V("ctxmgr")
        if name == "linspace":
            kw = self.kwargs(n, {"device", "dtype"})
            if kw is None or len(n.args) != 3:
                return self.bad_call(n, f"`{unparse(n)}`: torch.linspace(start, end, steps[, device=])")
            if "device" in kw:
                self.ctx.assumed.add("device= arguments do not change values")
            a, b, s = (self.cur(self.eval(x)) for x in n.args)
            for v in (a, b, s):
                if v.kind == "poison":
                    return v
                if v.kind != "sc":
                    return self.bad(n, f"`{unparse(n)}`: argument of kind {v.kind}")
            if s.e.op == "leaf":
                s.e.aux.force("Nat", n, "a number of steps")
            d = "B" if s.e.key() == BSYM.key() else s.e
            return self.tensor((d,), "float", lambda idx: E("lin", [a.e, b.e, s.e, idx[0]]))
        if name == "zeros":
            kw = self.kwargs(n, {"device", "dtype"})
            if kw is None or len(n.args) != 1 or "dtype" in kw:
                return self.bad_call(n, f"`{unparse(n)}`: torch.zeros(size[, device=])")
            v = self.eval(n.args[0])
            if v.kind != "size":
                return self.bad(n, f"`{unparse(n)}`: the size is not the `.size()` of a tensor")
            return self.tensor(v.dims, "float", lambda idx: NUM0)
        if name == "mean" and len(n.args) == 1 and not n.keywords:
            v = self.cur(self.eval(n.args[0]))
            if v.kind == "poison":
                return v
            if v.kind == "T" and v.t.dims in (("B",), ("B", 1)) and v.t.dtype == "float":
                return V("bmean", e=v.t.fn((ROW, NUM0)[:len(v.t.dims)]))
            return self.bad(n, f"`{unparse(n)}`: mean of something that is not a per-row float tensor")
        return self.bad_call(n, f"call `{unparse(n)}`")

    def method_call(self, n, r: V, name: str) -> V:
        if r.kind == "poison":
            return r
        if r.kind == "bmean" and name == "item" and not n.args:
            return r
        if r.kind == "obs" and name in ALIAS_METHODS:
            return r
        if r.kind != "T":
            return self.bad_call(n, f"`{unparse(n)}`: method `.{name}` of a value of kind {r.kind}")
        t = r.t
        args = n.args
        if name in ALIAS_METHODS or name in COPY_ID_METHODS or name == "item":
            self.ctx.assumed.add(f".{name}(…) is the identity on values")
            return r if name in ALIAS_METHODS else self.tensor(t.dims, t.dtype, t.fn)
        if name == "long" and not args:
            if t.dtype == "long":
                return r
            if t.dtype == "bool":
                return self.bad(n, "`.long()` of a boolean tensor")
            return self.tensor(t.dims, "long", lambda idx: E("long", [t.fn(idx)]))
        if name == "float" and not args:
            if t.dtype == "float":
                return r
            if t.dtype == "bool":
                return self.bad(n, "`.float()` of a boolean tensor")
            return self.tensor(t.dims, "float", lambda idx: E("float", [t.fn(idx)]))
        if name in ("floor", "ceil") and not args and not n.keywords:
            if t.dtype != "float":
                return self.bad(n, f"`.{name}()` of a {t.dtype} tensor")
            return self.tensor(t.dims, "float", lambda idx: E(name, [t.fn(idx)]))
        if name == "clamp":
            lo = hi = None
            if len(args) > 2:
                return self.bad(n, f"`{unparse(n)}`")
            pos = list(args) + [None] * (2 - len(args))
            lo, hi = pos
            for k in n.keywords:
                if k.arg == "min" and lo is None:
                    lo = k.value
                elif k.arg == "max" and hi is None:
                    hi = k.value
                else:
                    return self.bad(n, f"`{unparse(n)}`: keyword `{k.arg}` of clamp")
            if t.dtype != "float" or (lo is None and hi is None):
                return self.bad(n, f"`{unparse(n)}`: clamp of a {t.dtype} tensor / without bounds")
            bs = []
            for x in (lo, hi):
                if x is not None:
                    v = self.cur(self.eval(x))
                    if v.kind == "poison":
                        return v
                    if v.kind != "sc":
                        return self.bad(n, f"`{unparse(x)}`: clamp bound that is not a Python scalar")
                    bs.append(v.e)
            return self.tensor(t.dims, "float", lambda idx: E("clamp", [t.fn(idx)] + bs, (lo is not None, hi is not None)))
        if name in ("argmax", "sum"):
            d = None
            if len(args) == 1 and not n.keywords:
                d = args[0]
            elif not args and len(n.keywords) == 1 and n.keywords[0].arg == "dim":
                d = n.keywords[0].value
            if not (isinstance(d, ast.Constant) and d.value in (1, -1) and len(t.dims) == 2 and t.dims[0] == "B"):
                return self.bad(n, f"`{unparse(n)}`: only `.{name}(1)` of a (B, n) tensor is supported")
            if t.dtype == "bool":
                return self.bad(n, f"`.{name}` of a boolean tensor")
            var = fresh_var()
            try:
                row = mk_tab(t.dims[1], var, t.fn((ROW, var)))
            except Unsupported as e:
                return self.bad(n, f"`{unparse(n)}`: {e}")
            if name == "argmax":
                self.ctx.assumed.add("argmax = index of the first maximum")
                return self.tensor(("B",), "long", lambda idx: E("argmax", [self.row_of(n, idx, row)]))
            return self.tensor(("B",), t.dtype, lambda idx: E("sum", [self.row_of(n, idx, row)]))
        if name == "size":
            if not args and not n.keywords:
                return V("size", dims=t.dims)
            if len(args) == 1 and isinstance(args[0], ast.Constant) and isinstance(args[0].value, int) \
                    and 0 <= args[0].value < len(t.dims):
                d = t.dims[args[0].value]
                if d == "B":
                    return V("sc", e=BSYM)
                if isinstance(d, E):
                    return V("sc", e=d)
            return self.bad(n, f"`{unparse(n)}`")
        if name == "unsqueeze" and len(args) == 1 and isinstance(args[0], ast.Constant) and isinstance(args[0].value, int):
            k = args[0].value
            k = k + len(t.dims) + 1 if k < 0 else k
            if not 1 <= k <= len(t.dims):
                return self.bad(n, f"`{unparse(n)}`: position of the new dimension")
            dims = t.dims[:k] + (1,) + t.dims[k:]
            return V("T", t=T(dims, t.dtype, lambda idx: t.fn(tuple(idx[:k]) + tuple(idx[k + 1:])), t.obj))
        if name == "expand" and args and not n.keywords:
            want = []
            for a in args:
                v = self.eval(a)
                if v.kind != "sc":
                    return self.bad(n, f"`{unparse(a)}`: size of kind {v.kind}")
                if v.e.op == "leaf":
                    v.e.aux.force("Nat", a, "a size")
                want.append("B" if v.e.key() == BSYM.key() else (1 if v.e.key() == num(1).key() else v.e))
            if len(want) != len(t.dims) or any(not (d == 1 or dim_eq(d, w)) for d, w in zip(t.dims, want)) \
                    or "B" in want[1:]:
                return self.bad(n, f"`{unparse(n)}`: cannot expand {show_dims(t.dims)} to {show_dims(want)}")
            src = t.dims
            return V("T", t=T(tuple(want), t.dtype,
                              lambda idx: t.fn(tuple(NUM0 if d == 1 else i for d, i in zip(src, idx))), t.obj))
        if name in ("view", "reshape") and len(args) == 1 and isinstance(args[0], ast.UnaryOp) \
                and isinstance(args[0].op, ast.USub) and isinstance(args[0].operand, ast.Constant) \
                and args[0].operand.value == 1:
            if t.dims in (("B",), ("B", 1)):
                return V("T", t=T(("B",), t.dtype, lambda idx: t.fn((idx[0], NUM0)[:len(t.dims)]), t.obj))
            if len(t.dims) == 2 and t.dims[0] == "B":
                return V("flat", t=t)
            return self.bad(n, f"`{unparse(n)}`: flattening a {show_dims(t.dims)} tensor")
        return self.bad_call(n, f"`{unparse(n)}`: tensor method `.{name}`")

    def row_of(self, n, idx, e: E) -> E:
        return self.row_only(n, idx, e)

    # ------------------------------------------------------------------ statements
    def black_box(self, n, what: str):
        """a construct outside the subset: poison what it may change"""
        why = what if what.startswith(REL_SOURCE) else f"{where(n)}: unsupported construct: {what}"
        why += "; a value it may have changed is needed"
        for x in ast.walk(n):
            if isinstance(x, ast.Name) and isinstance(x.ctx, ast.Store):
                self.st.locals[x.id] = poison(why)
            if isinstance(x, ast.Call):
                roots = list(x.args) + [k.value for k in x.keywords]
                if isinstance(x.func, ast.Attribute):
                    roots.append(x.func.value)
                for r in roots:
                    for y in ast.walk(r):
                        if isinstance(y, ast.Name):
                            if y.id == "self":
                                self.st.nets_dirty = (f"{where(n)}: `{unparse(n, 50)}` may change the networks; a network "
                                                      f"output computed after it is needed")
                            v = self.st.locals.get(y.id)
                            if v is not None and v.kind in ("T", "flat") \
                                    and not isinstance(self.st.objval.get(v.t.obj), V):
                                self.st.objval[v.t.obj] = poison(why)

    def run_block(self, todo: list) -> object:
        """executes the statements; returns a tree: ('leaf', V, State) | ('node', atom E, tree, tree)"""
        todo = list(todo)
        while todo:
            st = todo.pop(0)
            if is_docstring(st) or isinstance(st, (ast.Pass, ast.Assert)):
                continue
            if isinstance(st, ast.Return):
                v = self.eval(st.value) if st.value is not None else NONE
                return ("leaf", v, self.st)
            if isinstance(st, ast.With):
                if all(isinstance(i.context_expr, ast.Call) and i.optional_vars is None
                       and self.eval(i.context_expr).kind == "ctxmgr" for i in st.items):
                    self.ctx.assumed.add("with torch.no_grad(): does not change values")
                    todo = list(st.body) + todo
                    continue
                self.black_box(st, f"`with {unparse(st.items[0].context_expr, 40)}`")
                continue
            if isinstance(st, ast.If):
                saved = self.st.copy()
                c = self.eval(st.test)
                b = self.as_cond(st.test, c)
                if b is None:
                    self.st = saved
                    self.black_box(st, f"`if {unparse(st.test, 50)}` (the test is not a boolean input)")
                    continue
                val, atom = simp_bool(b, self.st.assume)
                if val is None:
                    base = self.st
                    out = []
                    for choice in (True, False):
                        self.st = base.copy()
                        self.st.assume[atom.key()] = choice
                        out.append(self.run_block((st.body if choice else st.orelse) + todo))
                    return ("node", atom, out[0], out[1])
                todo = list(st.body if val else st.orelse) + todo
                continue
            self.stmt(st)
        return ("leaf", NONE, self.st)

    def stmt(self, st):
        if isinstance(st, ast.Assign):
            if len(st.targets) == 1 and isinstance(st.targets[0], ast.Name):
                self.st.locals[st.targets[0].id] = self.eval(st.value)
                return
            if len(st.targets) == 1 and isinstance(st.targets[0], ast.Subscript):
                return self.masked(st, st.targets[0], None, st.value)
            return self.black_box(st, f"assignment `{unparse(st)}`")
        if isinstance(st, ast.AnnAssign) and isinstance(st.target, ast.Name) and st.value is not None:
            self.st.locals[st.target.id] = self.eval(st.value)
            return
        if isinstance(st, ast.AugAssign):
            op = ARITH.get(type(st.op))
            if op is None:
                return self.black_box(st, f"`{unparse(st)}`")
            if isinstance(st.target, ast.Subscript):
                return self.masked(st, st.target, op, st.value)
            if isinstance(st.target, ast.Name):
                old = self.eval(st.target)
                new = self.binop(st, op, old, self.eval(st.value))
                if old.kind == "T" and new.kind == "T":
                    if new.t.dims != old.t.dims or (new.t.dtype != old.t.dtype):
                        new = self.bad(st, f"`{unparse(st)}`: in-place update changes shape or dtype")
                    self.st.objval[old.t.obj] = new if new.kind == "poison" else T(new.t.dims, new.t.dtype, new.t.fn, old.t.obj)
                    return
                if old.kind == "T" and new.kind == "poison":
                    self.st.objval[old.t.obj] = new
                    return
                self.st.locals[st.target.id] = new
                return
            return self.black_box(st, f"`{unparse(st)}`")
        if isinstance(st, ast.Expr) and isinstance(st.value, ast.Call) and isinstance(st.value.func, ast.Attribute) \
                and st.value.func.attr == "index_add_":
            return self.index_add(st, st.value)
        self.black_box(st, f"statement `{unparse(st, 50)}`")

    def masked(self, st, target: ast.Subscript, op, value):
        """`t[mask] op= c` / `t[mask] = c`"""
        tv = self.eval(target.value)
        if tv.kind != "T" or not isinstance(target.value, ast.Name):
            return self.black_box(st, f"`{unparse(st)}`: masked update of something that is not a local tensor")
        m = self.cur(self.eval(target.slice))
        c = self.cur(self.eval(value))
        t = tv.t
        if m.kind == "poison" or c.kind == "poison":
            self.st.objval[t.obj] = m if m.kind == "poison" else c
            return
        if m.kind != "T" or m.t.dtype != "bool" or m.t.dims != t.dims or c.kind != "sc":
            self.st.objval[t.obj] = self.bad(st, f"`{unparse(st)}`: only `t[<boolean tensor of t's shape>] op= <scalar>`")
            return
        if t.dtype == "bool":
            self.st.objval[t.obj] = self.bad(st, f"`{unparse(st)}`: masked update of a boolean tensor")
            return
        if t.dtype == "long" and self.isint(c) is not True:
            self.st.objval[t.obj] = self.bad(st, f"`{unparse(st)}`: non-integer update of an integer tensor")
            return
        mt = m.t
        new = (lambda idx: E("ite", [mt.fn(idx), E(op, [t.fn(idx), c.e]), t.fn(idx)])) if op else \
            (lambda idx: E("ite", [mt.fn(idx), c.e, t.fn(idx)]))
        self.st.objval[t.obj] = T(t.dims, t.dtype, new, t.obj)

    def index_add(self, st, call: ast.Call):
        recv = self.cur(self.eval(call.func.value))
        if recv.kind == "poison":
            return
        if recv.kind != "flat":
            return self.black_box(st, f"`{unparse(st, 60)}`: index_add_ on something that is not `<(B, n) tensor>.view(-1)`")
        x = recv.t

        def fail(what):
            self.st.objval[x.obj] = self.bad(st, what)
        if call.keywords or len(call.args) != 3:
            return fail(f"`{unparse(st, 60)}`: index_add_(dim, index, source)")
        d = self.eval(call.args[0])
        if not (d.kind == "sc" and d.e.key() == NUM0.key()):
            return fail("index_add_ along a dimension other than 0 of the flattened view")
        iv, sv = self.cur(self.eval(call.args[1])), self.cur(self.eval(call.args[2]))
        for v in (iv, sv):
            if v.kind == "poison":
                self.st.objval[x.obj] = v
                return
        if iv.kind != "flat" or sv.kind != "flat":
            return fail("index / source of index_add_ is not a flattened (B, n) tensor")
        if iv.t.dtype != "long" or sv.t.dtype != "float" or x.dtype != "float":
            return fail(f"index_add_ with index dtype {iv.t.dtype}, source dtype {sv.t.dtype}")
        n = None
        for t in (x, iv.t, sv.t):
            if not dim_eq(n, t.dims[1]):
                return fail(f"index_add_: shapes {show_dims(x.dims)}, {show_dims(iv.t.dims)}, {show_dims(sv.t.dims)} differ")
            n = t.dims[1] if n is None else n
        if not isinstance(n, E):
            return fail("index_add_: the row length is not an integer input")
        var = fresh_var()
        ie = iv.t.fn((ROW, var))
        rel = None
        if ie.op == "+":
            for k in (0, 1):
                if is_row_offset(ie.args[k], n):
                    rel = ie.args[1 - k]
                    break
        if rel is None:
            return fail(f"`{unparse(call.args[1], 60)}`: the index of index_add_ on a flattened (B, n) tensor is not "
                        f"`<row-relative index> + <offset>` with offset[i] = i·n recognised as "
                        f"`torch.linspace(0, (B - 1) * n, B).long()` (B the batch size, n = {Renderer().r(n)})")
        if contains(rel, lambda y: y.op in ("row", "bsym")):
            return fail("the row-relative index of index_add_ depends on the position of the row in the batch")
        self.ctx.assumed.add("row i of a (B, n) tensor occupies [i·n, (i+1)·n) of its .view(-1); an index_add_ whose index "
                             "is `<row-relative> + i·n` is translated per row (indices outside [0, n) write nothing)")
        ops = E("tab", [n, var, E("pair", [rel, sv.t.fn((ROW, var))])])
        v2 = fresh_var()
        base = mk_tab(n, v2, x.fn((ROW, v2)))
        sc = E("scatter", [base, ops])
        self.st.objval[x.obj] = T(("B", n), "float", lambda idx: E("getD", [self.row_only(st, idx, sc), idx[1], NUM0]), x.obj)


def show_dims(dims) -> str:
    def one(d):
        if d is None:
            return "?"
        if isinstance(d, E):
            try:
                return Renderer().r(d)
            except Unsupported:
                return "…"
        return str(d)
    return "(" + ", ".join(one(d) for d in dims) + ("," if len(dims) == 1 else "") + ")"


def is_row_offset(e: E, n: E) -> bool:
    """entry of row i == i·n, recognised as torch.linspace(0, (B - 1) * n, B).long() at position i"""
    if e.op != "long" or e.args[0].op != "lin":
        return False
    a, b, s, i = e.args[0].args
    if a.key() != NUM0.key() or s.key() != BSYM.key() or i.key() != ROW.key() or b.op != "*":
        return False
    bm1 = E("-", [BSYM, num(1)]).key()
    x, y = b.args
    return (x.key() == bm1 and y.key() == n.key()) or (y.key() == bm1 and x.key() == n.key())


def simp_bool(e: E, assume: dict):
    """(True | False, None) if the condition is decided by the assumptions, else (None, first undecided atom)"""
    if e.op == "and":
        und = None
        for a in e.args:
            v, at = simp_bool(a, assume)
            if v is False:
                return False, None
            if v is None and und is None:
                und = at
        return (True, None) if und is None else (None, und)
    if e.op == "or":
        und = None
        for a in e.args:
            v, at = simp_bool(a, assume)
            if v is True:
                return True, None
            if v is None and und is None:
                und = at
        return (False, None) if und is None else (None, und)
    if e.op == "not":
        v, at = simp_bool(e.args[0], assume)
        return (None, at) if v is None else (not v, None)
    if e.key() in assume:
        return assume[e.key()], None
    return None, e


# ---------------------------------------------------------------------------------------------- the three methods
def locate(tree: ast.Module):
    cands = []
    for c in tree.body:
        if isinstance(c, ast.ClassDef):
            ms = [f for f in c.body if isinstance(f, ast.FunctionDef)
                  and any(isinstance(x, ast.Attribute) and x.attr == "index_add_" for x in ast.walk(f))]
            if ms:
                cands.append((c, ms))
    if len(cands) != 1 or len(cands[0][1]) != 1:
        raise Unsupported(f"{REL_SOURCE}: expected exactly one class with exactly one method that calls `.index_add_`, "
                          f"found {[(c.name, [m.name for m in ms]) for c, ms in cands]}")
    cls, (loss,) = cands[0]
    learns = [f for f in cls.body if isinstance(f, ast.FunctionDef) and f is not loss and any(
        isinstance(x, ast.Call) and isinstance(x.func, ast.Attribute) and is_self(x.func.value) and x.func.attr == loss.name
        for x in ast.walk(f))]
    if len(learns) != 1:
        raise Unsupported(f"{where(cls)}: expected exactly one method that calls `self.{loss.name}(…)`, "
                          f"found {[f.name for f in learns]}")
    init = next((f for f in cls.body if isinstance(f, ast.FunctionDef) and f.name == "__init__"), None)
    if init is None:
        raise Unsupported(f"{where(cls)}: class {cls.name} has no __init__")
    return cls, init, loss, learns[0]


def plain_formals(fn: ast.FunctionDef):
    a = fn.args
    if a.vararg or a.kwarg or a.posonlyargs or a.kwonlyargs or not a.args or a.args[0].arg != "self":
        raise Unsupported(f"{where(fn)}: unsupported construct: signature of {fn.name}")
    pos = a.args[1:]
    defaults = [None] * (len(pos) - len(a.defaults)) + list(a.defaults)
    return [(p.arg, d) for p, d in zip(pos, defaults)]


def run_init(ctx: Ctx, fn: ast.FunctionDef):
    ex = Exec(ctx, fn, "init")
    params = {p for p, _ in plain_formals(fn)}
    param_attr: dict[str, str] = {}
    seen: set[str] = set()
    orig_name = ex.e_Name

    def e_Name(n):
        if n.id in params and n.id not in ex.st.locals:
            if n.id in param_attr:
                return ex.attr(n, param_attr[n.id])
            return V("ctor", name=n.id)
        return orig_name(n)
    ex.e_Name = e_Name
    for st in fn.body:
        if is_docstring(st) or isinstance(st, (ast.Assert, ast.Pass)):
            continue
        if isinstance(st, ast.Assign) and len(st.targets) == 1 and isinstance(st.targets[0], ast.Attribute) \
                and is_self(st.targets[0].value):
            name = st.targets[0].attr
            if name in seen:
                ctx.attr_init[name] = ("poison", f"{where(st)}: unsupported construct: `self.{name}` is assigned more than "
                                                 f"once in __init__")
                continue
            seen.add(name)
            if any(isinstance(x, ast.Call) and not (isinstance(x.func, ast.Attribute) and isinstance(x.func.value, ast.Name)
                                                      and x.func.value.id == "torch") for x in ast.walk(st.value)):
                ctx.attr_init[name] = ("poison", f"{where(st)}: unsupported construct: `self.{name} = "
                                                 f"{unparse(st.value, 40)}` (a call other than torch.*)")
                continue
            v = ex.eval(st.value)
            if v.kind == "ctor":
                ctx.attr_init[name] = ("pass", v.name)
                param_attr.setdefault(v.name, name)
            elif v.kind in ("T", "sc"):
                ctx.attr_init[name] = ("val", v)
            elif v.kind == "poison":
                ctx.attr_init[name] = ("poison", v.why)
            else:
                ctx.attr_init[name] = ("poison", f"{where(st)}: unsupported construct: `self.{name} = {unparse(st.value, 40)}`")
            continue
        for x in ast.walk(st):
            if isinstance(x, ast.Attribute) and is_self(x.value) and isinstance(x.ctx, ast.Store):
                ctx.attr_init[x.attr] = ("poison", f"{where(st)}: unsupported construct: `self.{x.attr}` is assigned inside "
                                                   f"`{unparse(st, 40)}` of __init__")
                seen.add(x.attr)
    ctx.assumed.add("attributes keep the value __init__ assigns them at its top level; calls for effect do not rebind them")


def tree_leaves(tree):
    if tree[0] == "leaf":
        yield tree
    else:
        yield from tree_leaves(tree[2])
        yield from tree_leaves(tree[3])


def tree_to_E(tree, leaf_fn) -> E:
    if tree[0] == "leaf":
        return leaf_fn(tree)
    a, b = tree_to_E(tree[2], leaf_fn), tree_to_E(tree[3], leaf_fn)
    if a.key() == b.key():
        return a
    atom = tree[1]
    if atom.op == "issome":
        return E("omatch", [atom.args[0], a, b])
    return E("ite", [atom, a, b])


def run_learn(ctx: Ctx, fn: ast.FunctionDef):
    ex = Exec(ctx, fn, "learn")
    for k, (name, d) in enumerate(plain_formals(fn)):
        if d is None:
            lf = Leaf(2, name, "Row", k)
            ex.st.locals[name] = V("batch", leaf=lf, optional=False)
        elif isinstance(d, ast.Constant) and d.value is None:
            lf = Leaf(2, name, "OptRow", k)
            ex.st.locals[name] = V("batch", leaf=lf, optional=True)
        elif isinstance(d, ast.Constant) and isinstance(d.value, bool):
            lf = Leaf(2, name, "Bool", k)
            ex.st.locals[name] = V("sc", e=E("leaf", aux=lf))
        else:
            ex.st.locals[name] = poison(f"{where(fn)}: unsupported construct: parameter `{name}` of {fn.name} with default "
                                        f"`{unparse(d)}`")
    tree = ex.run_block(fn.body)
    leaves = list(tree_leaves(tree))
    arity = None
    for lf in leaves:
        v = lf[1]
        if v.kind != "tuple":
            raise Unsupported(f"{where(fn)}: unsupported construct: {fn.name} does not return a tuple on every path")
        if arity not in (None, len(v.items)):
            raise Unsupported(f"{where(fn)}: unsupported construct: {fn.name} returns tuples of different lengths")
        arity = len(v.items)
    ret_src = None
    for x in ast.walk(fn):
        if isinstance(x, ast.Return) and isinstance(x.value, ast.Tuple):
            ret_src = [unparse(y, 40) for y in x.value.elts]
    comps = []
    for k in range(arity or 0):
        is_mean = any(ex.cur(lf[1].items[k]).kind == "bmean" for lf in leaves)
        skipped = []

        def leaf_fn(lf, k=k, is_mean=is_mean, skipped=skipped):
            st, v = lf[2], lf[1].items[k]
            if v.kind in ("T", "flat") and v.t.obj in st.objval:
                c = st.objval[v.t.obj]
                v = c if isinstance(c, V) else V(v.kind, t=c)
            if v.kind == "none":
                return E("none")
            if v.kind == "bmean":
                return E("some", [v.e])
            if v.kind == "sc":
                return E("some", [v.e])
            if v.kind == "T" and v.t.dims in (("B",), ("B", 1)) and v.t.dtype != "bool":
                return E("some", [v.t.fn((ROW, NUM0)[:len(v.t.dims)])])
            why = v.why if v.kind == "poison" else f"a value of kind {v.kind}"
            if is_mean:
                skipped.append(why)
                return E("none")
            raise Unsupported(f"{where(fn)}: component {k} of the tuple {fn.name} returns is not translatable on some path — {why}")
        e = tree_to_E(tree, leaf_fn)
        for w in dict.fromkeys(skipped):
            ctx.notes.append(f"component {k} of the returned tuple is `none` where it is not a batch mean of a per-row "
                             f"tensor: {w}")
        comps.append((k, ret_src[k] if ret_src and k < len(ret_src) else f"component {k}", e, is_mean))
    return comps


def run_loss(ctx: Ctx, fn: ast.FunctionDef) -> E:
    ex = Exec(ctx, fn, "loss")
    for k, name in enumerate(ctx.loss_formals):
        kinds = ctx.call_kinds.get(name, set())
        if len(kinds) != 1:
            raise Unsupported(f"{where(fn)}: unsupported construct: parameter `{name}` of {fn.name} is bound to "
                              f"{sorted(kinds) or 'nothing'} at the call sites (one kind needed)")
        kind = next(iter(kinds))
        if kind == "Obs":
            lf = Leaf(2, name, "Obs", k)
            ex.st.locals[name] = V("obs", e=E("leaf", aux=lf))
        elif kind.startswith("col:"):
            t = kind[4:]
            lf = Leaf(2, name, t, k)
            e = E("leaf", aux=lf)
            ex.st.locals[name] = ex.tensor(("B", 1), "long" if t == "Nat" else "float",
                                           lambda idx, e=e, fn=fn: ex.row_only(fn, idx, e))
        else:
            lf = Leaf(2, name, None, k)
            ex.st.locals[name] = V("sc", e=E("leaf", aux=lf))
        ex.formal_leaf[name] = lf
    tree = ex.run_block(fn.body)

    def leaf_fn(lf):
        st, v = lf[2], lf[1]
        if v.kind in ("T", "flat") and v.t.obj in st.objval:
            c = st.objval[v.t.obj]
            v = c if isinstance(c, V) else V(v.kind, t=c)
        if v.kind == "poison":
            raise Unsupported(f"{where(fn)}: the value {fn.name} returns is not translatable — {v.why}")
        if v.kind != "T" or v.t.dims != ("B",) or v.t.dtype != "float":
            raise Unsupported(f"{where(fn)}: unsupported construct: {fn.name} does not return a (B,) float tensor "
                              f"(kind {v.kind}{', shape ' + show_dims(v.t.dims) if v.kind == 'T' else ''})")
        return v.t.fn((ROW,))
    return tree_to_E(tree, leaf_fn)


# ---------------------------------------------------------------------------------------------- cutting into definitions
class Cutter:
    def __init__(self, ctx: Ctx, R: Renderer):
        self.ctx, self.R = ctx, R
        self.defs: list[Def] = []
        self.nabs = 0

    def abs_leaf(self, name: str, t: str, used: set) -> Leaf:
        base, k = name, 0
        while name in used:
            k += 1
            name = f"{base}_{k}"
        used.add(name)
        self.nabs += 1
        return Leaf(3, name, t, self.nabs)

    def make(self, name: str, doc: str, body: E, actual: dict) -> E:
        """registers `def name params := body`; returns the call with `actual` (leaf id → E) for abstracted leaves"""
        d = Def(name, doc)
        d.body = body
        d.params = self.R.free_leaves(body)
        d.ret = self.R.ty(body)
        self.defs.append(d)
        return E("call", [actual.get(id(p), E("leaf", aux=p)) for p in d.params], d)

    def entries(self, e: E, var: E, used: set, actual: dict, prefer: str) -> E:
        """abstract `v[var]` (v without var) and other uses of `var` as parameters"""
        mapping = {}
        for x in walk(e):
            if x.op == "getD" and x.args[1].key() == var.key() and not has_var(x.args[0], var) and x.key() not in mapping:
                v = x.args[0]
                nm = f"{v.aux.name}_j" if v.op == "leaf" and v.aux.group != 3 else prefer
                lf = self.abs_leaf(nm, self.R.ty(x), used)
                mapping[x.key()] = E("leaf", aux=lf)
                actual[id(lf)] = x
        e = subst(e, mapping)
        if has_var(e, var):
            lf = self.abs_leaf("j", "Nat", used)
            actual[id(lf)] = var
            e = subst(e, {var.key(): E("leaf", aux=lf)})
        return e

    def cut_loss(self, root: E, loss_name: str) -> Def:
        scs = [x for x in walk(root) if x.op == "scatter"]
        inner = {x.args[0].key() for x in scs if x.args[0].op == "scatter"}
        outer = [x for x in scs if x.key() not in inner]
        if len(outer) != 1:
            raise Unsupported(f"{REL_SOURCE}: the value {loss_name} returns reads {len(outer)} tensors updated by index_add_ "
                              f"(exactly one expected)")
        chain, x = [], outer[0]
        while x.op == "scatter":
            chain.append(x.args[1])
            x = x.args[0]
        base = x
        chain.reverse()
        pos_calls: dict = {}          # key of the floor/ceil argument (with its bound variable renamed) → call builder
        new_ops = []
        for k, ops in enumerate(chain):
            n, var, pair = ops.args
            bargs = []
            for y in walk(pair):
                if y.op in ("floor", "ceil") and all(y.args[0].key() != b.key() for b in bargs):
                    bargs.append(y.args[0])
            used: set = set()
            actual: dict = {}
            mapping = {}
            for b in bargs:
                canon = subst(b, {var.key(): E("var", aux=0)}).key()
                if canon not in pos_calls:
                    u2: set = set()
                    a2: dict = {}
                    body = self.entries(b, var, u2, a2, "x")
                    nm = "pos" if not pos_calls else f"pos_{len(pos_calls)}"
                    call = self.make(nm, "the argument of `floor` / `ceil`: the (fractional) atom position of one entry of the "
                                         "row; `<v>_j` = entry j of the row vector `<v>`", body, a2)
                    pos_calls[canon] = (call, var)
                call, v0 = pos_calls[canon]
                call = subst(call, {v0.key(): var})
                lf = self.abs_leaf("b", "Rat", used)
                mapping[b.key()] = E("leaf", aux=lf)
                actual[id(lf)] = call
            body = self.entries(subst(pair, mapping), var, used, actual, "x")
            call = self.make(f"scatter{k}", f"index_add_ number {k} (in source order), one entry: (row-relative index, value "
                                            f"added there) as a function of the position `b` and the entries of the row "
                                            f"vectors it reads", body, actual)
            new_ops.append(E("tab", [n, var, call]))
        s = base
        for ops in new_ops:
            s = E("scatter", [s, ops])
        # row vectors of network origin become parameters of `project`
        used: set = set()
        actual: dict = {}
        mapping: dict = {}
        bound = {o.args[1].key() for o in new_ops}

        def find(e: E):
            if e.key() in mapping:
                return
            if e.op in ("getD", "app") and self.R.ty(e) == "Vec" and contains(e, lambda y: y.op == "app") \
                    and not contains(e, lambda y: y.key() in bound):
                nm = "target_dist" if not mapping else f"target_dist_{len(mapping)}"
                call = self.make(nm, "the row vector of network origin the scatter reads", e, {})
                lf = self.abs_leaf("p", "Vec", used)
                mapping[e.key()] = E("leaf", aux=lf)
                actual[id(lf)] = call
                return
            for a in e.args:
                find(a)
        find(s)
        pcall = self.make("project", "the row of the tensor updated by the index_add_ calls, after all of them; `p` = the "
                                     "row vector of network origin", subst(s, mapping), actual)
        d = self.ctx.loss_def
        d.doc = f"`{loss_name}`: the entry of the returned tensor for one batch row"
        d.body = subst(root, {outer[0].key(): pcall})
        d.params = self.R.free_leaves(d.body)
        # every formal of the method is a parameter of the definition (call sites pass all of them)
        d.ret = self.R.ty(d.body)
        self.defs.append(d)
        return d


# ---------------------------------------------------------------------------------------------- output
PRELUDE = """namespace C51Gen

/-- `x.clamp(min=lo, max=hi)` (torch: `min(max(x, lo), hi)`) -/
def clampT (x lo hi : Rat) : Rat := min (max x lo) hi
/-- `x.clamp(min=lo)` -/
def clampLo (x lo : Rat) : Rat := max x lo
/-- `x.clamp(max=hi)` -/
def clampHi (x hi : Rat) : Rat := min x hi
/-- `.long()` of a float that is not a `floor` / `ceil`: truncation toward zero -/
def truncI (x : Rat) : Int := if 0 ≤ x then x.floor else x.ceil
/-- entry `k` of `torch.linspace(a, b, n)` -/
def linElem (a b : Rat) (n : Nat) (k : Nat) : Rat := a + (k : Rat) * ((b - a) / ((n : Rat) - 1))
/-- `torch.linspace(a, b, n)` -/
def linspace (a b : Rat) (n : Nat) : List Rat := List.map (fun k => linElem a b n k) (List.range n)
/-- `row[i] += x` (an index outside the row writes nothing) -/
def addAt (v : List Rat) (i : Int) (x : Rat) : List Rat :=
  if 0 ≤ i then v.modify i.toNat (· + x) else v
/-- `index_add_` on one row with row-relative indices: sequential accumulation, duplicates allowed -/
def indexAdd (v : List Rat) (ops : List (Int × Rat)) : List Rat :=
  ops.foldl (fun acc o => addAt acc o.1 o.2) v
def argmaxFrom : List Rat → Nat → Rat → Nat → Nat
  | [], _, _, best => best
  | x :: xs, i, m, best => if m < x then argmaxFrom xs (i + 1) x i else argmaxFrom xs (i + 1) m best
/-- `argmax` of a row: index of the first maximum; `0` on an empty row -/
def argmaxFirst : List Rat → Nat
  | [] => 0
  | x :: xs => argmaxFrom xs 1 x 0
/-- one row of a batch (`experiences[key]`, row by row) -/
structure Row (Obs : Type) where
  obs : Obs
  action : Nat
  reward : Rat
  next_obs : Obs
  done : Rat
  weights : Rat
  idxs : Nat
"""


def repo_dir(arg: str | None) -> Path:
    if arg:
        return Path(arg)
    return Path(os.environ.get("VERIF_REPO", "/repo"))


def translate_source(src: str) -> tuple[list[str], list[str]]:
    _nvar[0] = 0
    tree = ast.parse(src)
    cls, init, loss, learn = locate(tree)
    ctx = Ctx(cls, loss.name)
    ctx.loss_formals = [p for p, _ in plain_formals(loss)]
    run_init(ctx, init)
    comps = run_learn(ctx, learn)
    if not ctx.call_kinds:
        raise Unsupported(f"{where(learn)}: no call `self.{loss.name}(…)` is reached in {learn.name}")
    root = run_loss(ctx, loss)
    R = Renderer()
    cut = Cutter(ctx, R)
    defs: list[Def] = []
    # INIT: computed attributes the other methods read
    for name, lf in sorted(ctx.attr_leaf.items()):
        ini = ctx.attr_init.get(name)
        if ini and ini[0] == "val":
            v = ini[1]
            if v.kind == "T":
                var = fresh_var()
                body = mk_tab(v.t.dims[0], var, v.t.fn((var,)))
            else:
                body = v.e
            if contains(body, lambda y: y.op == "leaf" and y.aux is lf):
                continue
            d = Def(f"{name}0", f"`self.{name}` as `__init__` computes it, over the attributes it reads")
            d.body, d.params = body, R.free_leaves(body)
            defs.append(d)
    loss_def = cut.cut_loss(root, loss.name)
    defs += cut.defs

    def full_call(e: E) -> E:
        mapping = {}
        for x in walk(e):
            if x.op == "losscall":
                args = []
                for p in loss_def.params:
                    if p.group == 2:
                        args.append(full_call(x.args[ctx.loss_formals.index(p.name)]))
                    else:
                        args.append(E("leaf", aux=p))
                mapping[x.key()] = E("call", args, loss_def)
        return subst(e, mapping)
    for k, srctxt, e, is_mean in comps:
        d = Def(f"learn_ret{k}", f"`{learn.name}`, component {k} of the returned tuple (`{srctxt}`), for one batch row"
                + ("; `some t`: the returned scalar is the batch mean of a per-row tensor with entry `t`" if is_mean else ""))
        d.body = full_call(e)
        d.params = R.free_leaves(d.body)
        defs.append(d)
    lines: list[str] = []
    for d in defs:
        lines += R.render_def(d)
    return lines, sorted(ctx.assumed) + ctx.notes


def translate(repo: Path) -> tuple[str, str]:
    """returns (lean text, sha256 of the source file); raises Unsupported"""
    path = Path(repo) / REL_SOURCE
    try:
        raw = path.read_bytes()
    except OSError as e:
        raise Unsupported(f"cannot read {path}: {e}") from e
    sha = hashlib.sha256(raw).hexdigest()
    try:
        lines, assumed = translate_source(raw.decode("utf-8"))
    except SyntaxError as e:
        raise Unsupported(f"{REL_SOURCE}:{e.lineno}: not parseable: {e.msg}") from e
    except RecursionError as e:
        raise Unsupported(f"{REL_SOURCE}: expression too deep") from e
    header = "\n".join([
        "/-",
        "  Gen/C51Gen.lean — GENERATED by harness/py2lean_c51.py from the categorical-target code of `RainbowDQN`",
        f"  ({REL_SOURCE}: `__init__` (support), the loss method with `index_add_`, `learn`); do not edit.",
        "  Core Lean only.  `Proofs/C51GenEq.lean` proves the definitions equal to their counterparts in `Model/C51.lean`.",
        "  Per batch row.  Assumed (inputs / identities met in the source):",
    ] + [f"    * {strip_lines(a)}" for a in assumed] + [
        "-/",
        SHA_PREFIX + sha,
        "set_option linter.unusedVariables false",
        "",
    ])
    return header + "\n" + PRELUDE + "\n" + "\n".join(lines).rstrip() + "\n\nend C51Gen\n", sha


def strip_lines(a: str) -> str:
    """header notes without line numbers (an unrelated edit above must not change the generated text)"""
    import re
    return re.sub(re.escape(REL_SOURCE) + r":\d+: ", "", a)


def strip_sha(text: str) -> str:
    return "\n".join(ln for ln in text.split("\n") if not ln.startswith(SHA_PREFIX))


def write_if_changed(text: str, out: Path, force: bool = False) -> bool:
    """writes `text` unless the file already holds the same translation (sha line ignored)"""
    out = Path(out)
    old = out.read_text() if out.exists() else None
    if old is not None and not force and strip_sha(old) == strip_sha(text):
        return False
    if old == text:
        return False
    out.parent.mkdir(parents=True, exist_ok=True)
    tmp = out.with_suffix(".lean.tmp")
    tmp.write_text(text)
    os.replace(tmp, out)
    return True


def main(argv: list[str]) -> int:
    import argparse
    ap = argparse.ArgumentParser()
    ap.add_argument("--repo", default=None)
    ap.add_argument("--out", default=str(DEFAULT_OUT))
    ap.add_argument("--stdout", action="store_true")
    ap.add_argument("--force", action="store_true", help="rewrite even if only the sha256 line differs")
    a = ap.parse_args(argv)
    try:
        text, sha = translate(repo_dir(a.repo))
    except Unsupported as e:
        print(f"py2lean_c51: {e}", file=sys.stderr)
        return 1
    if a.stdout:
        sys.stdout.write(text)
        return 0
    changed = write_if_changed(text, Path(a.out), a.force)
    print(f"{a.out}: {'written' if changed else 'unchanged'} (source sha256 {sha[:16]}…, "
          f"translation sha256 {hashlib.sha256(strip_sha(text).encode()).hexdigest()[:16]}…)")
    return 0


if __name__ == "__main__":
    sys.exit(main(sys.argv[1:]))
