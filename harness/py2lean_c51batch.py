#!/usr/bin/env python3
"""
py2lean_c51batch.py — translate the BATCH-LEVEL stretch of `RainbowDQN.learn`
(REPO/agilerl/algorithms/dqn_rainbow.py) into Lean 4: how the element-wise losses of the 1-step and the n-step batch
are combined, weighted by the importance weights of the prioritised buffer and averaged, and what is handed back to
the training loop (`loss`, `idxs`, `new_priorities`), WITH SHAPES (symbolic batch size `B`, torch broadcasting).

    python3 harness/py2lean_c51batch.py [--repo DIR] [--out FILE] [--stdout] [--force]

Reads the *source text* only (Python `ast`; agilerl / torch are never imported) and writes
lean/Gen/C51BatchGen.lean (namespace `C51BatchGen`, core Lean only).  `Proofs/C51BatchGenEq.lean` proves the generated
definitions equal to `elemLoss / scalarLoss / newPriorities / retIdxs` of `Model/C51.lean`; `Props/C18.lean` restates
the theorems over them (`C18_source_translation_batch_*`).  Complements py2lean_c51.py, which translates the same
method PER BATCH ROW (and `_dqn_loss` itself) and reports a PER loss as `none`.

What is translated.  THE CLASS / LOSS / LEARN are located by structure exactly as in py2lean_c51.py (the class with a
method calling `.index_add_`, that method, the method calling `self.LOSS(…)`).  LEARN is executed abstractly once per
path — the eight values of (`per`, `n_experiences is not None`, `self.combined_reward`), conditions are evaluated
from the AST (`not / and / or`, `x is [not] None`, locals holding such booleans) — over tensors that carry
  * a SHAPE, both as a Python tuple over `B` / `1` (to choose the value operation) and as a Lean term over
    `bcast / sFlat / sSqueezeAll / sSqueeze / sUnsqueeze` (emitted, so the theorems decide it for every `B`);
  * a VALUE: a Lean term of type `List Rat` / `List Nat` (row-major data).
`experiences["k"]` is the column `k` of the batch (`List (Row Obs)`); `self.LOSS(c1, …, c5, γ)` with columns of ONE
batch is `batch.map fun r => loss r.k1 … r.k5 γ` with an opaque per-row function `loss` (which column of which batch
goes to which position, and which discount, flow from the AST; instantiate `loss` with `C51Gen.dqn_loss`), of shape
`(B,)` — the shape py2lean_c51.py infers for the value LOSS returns (it is run first and must accept the file).
Element-wise `+ - * /` of two tensors: equal shapes → `List.zipWith`; shapes that torch broadcasts to something
larger (`(B,)` with `(B, 1)` → `(B, B)`) → `bzip` (the general broadcast, entry `(i, j)`, `B` = rows of the batch); with a
number → `List.map`.
`x op= y` is in place (the shape of `x` must not change, every alias of `x` sees it).  `torch.mean(t)` / `t.mean()`
= sum / number of entries.  The returned tuple gives `learn_ret0 : Rat`, `learn_ret1 : Option (List Nat)`,
`learn_ret2 : Option (List Rat)` as decision trees over (`per`, `n_experiences`, `self.combined_reward`), and the
shapes `mean_arg_shape` (argument of the mean that becomes component 0), `ret2_shape`.

Supported subset (anything else that can influence an output raises `Unsupported` with construct and line):
  statements `x = e`, `x op= e`, `if` (on the three boolean inputs: forked; on anything else: only if both branches
  consist of calls for effect), `return (a, b, c)`, calls for effect (`self.optimizer.step()`, `loss.backward()`,
  `clip_grad_norm_(…)`, `self.soft_update()` …: assumed not to change tracked values), docstrings, `pass`;
  expressions: numbers, `None`, `True/False`, locals, `self.gamma / n_step / prior_eps / combined_reward`,
  `+ - * / **`, `d["key"]`, `self.LOSS(…)`, `torch.mean`, `.mean() .reshape(-1) .view(-1) .flatten() .squeeze([k])
  .unsqueeze(k)`, identities `.detach .cpu .numpy .to .clone .float .double .contiguous .item`.

Assumptions: floats are exact rationals; `reward / done / action / weights` columns are `(B, 1)`, `idxs` is `(B,)`
and only passed through; both batches have `B` rows; LOSS acts row by row; calls for effect do not change the
values already computed (`elementwise_loss` is detached after the step: the value is the one before it).
"""
from __future__ import annotations

import ast
import hashlib
import os
import sys
from pathlib import Path

HERE = Path(__file__).resolve().parent
sys.path.insert(0, str(HERE))
DEFAULT_OUT = HERE.parent / "lean" / "Gen" / "C51BatchGen.lean"
REL_SOURCE = "agilerl/algorithms/dqn_rainbow.py"
SHA_PREFIX = "-- sha256(source) = "

FIELDS = {"obs": ("Obs", ("B", "O")), "action": ("Nat", ("B", 1)), "reward": ("Rat", ("B", 1)),
          "next_obs": ("Obs", ("B", "O")), "done": ("Rat", ("B", 1)), "weights": ("Rat", ("B", 1)),
          "idxs": ("Nat", ("B",))}
ATTRS = {"gamma": "Rat", "n_step": "Nat", "prior_eps": "Rat", "combined_reward": "Bool"}
IDENT = {"detach", "cpu", "numpy", "to", "clone", "float", "double", "contiguous", "item", "cuda"}
ARITH = {ast.Add: "+", ast.Sub: "-", ast.Mult: "*", ast.Div: "/"}


class Unsupported(Exception):
    pass


def where(n) -> str:
    return f"{REL_SOURCE}:{getattr(n, 'lineno', '?')}"


def unparse(n, k=70) -> str:
    s = " ".join(ast.unparse(n).split())
    return s if len(s) <= k else s[:k] + "…"


def bad(n, what):
    raise Unsupported(f"{where(n)}: unsupported construct: {what}: `{unparse(n)}`")


# ------------------------------------------------------------------------------------------------ values
class Ten:
    _n = 0

    def __init__(self, shape, sh, val, elt, obj=None, col=None):
        self.shape, self.sh, self.val, self.elt = tuple(shape), sh, val, elt
        if obj is None:
            Ten._n += 1
            obj = Ten._n
        self.obj = obj
        self.col = col          # (batch name, field) when the tensor is a column of a batch, untouched


class Sc:
    def __init__(self, val, ty="Rat", mean_of=None):
        self.val, self.ty, self.mean_of = val, ty, mean_of


class Batch:
    def __init__(self, name):
        self.name = name


NONE = object()


def sh_lit(shape) -> str:
    return "(some [" + ", ".join(str(d) for d in shape) + "])"


def bdim(a, b):
    if a == b:
        return a
    if a == 1:
        return b
    if b == 1:
        return a
    return None


def bshape(n, s, t):
    if "O" in s or "O" in t:
        bad(n, "arithmetic on an observation")
    out = []
    for k in range(1, max(len(s), len(t)) + 1):
        a = s[-k] if k <= len(s) else 1
        b = t[-k] if k <= len(t) else 1
        d = bdim(a, b)
        if d is None:
            bad(n, "shapes that torch does not broadcast")
        out.append(d)
    return tuple(reversed(out))


class Exec:
    def __init__(self, loss_name: str, fn: ast.FunctionDef, per: bool, nstep: bool, comb: bool, assumed: set):
        self.loss_name, self.fn, self.assumed = loss_name, fn, assumed
        self.bools = {"per": per, "nstep": nstep, "comb": comb}
        self.loc: dict = {}
        self.loss_sig = None
        a = fn.args
        if a.vararg or a.kwarg or a.kwonlyargs or a.posonlyargs:
            bad(fn, "signature of learn")
        names = [x.arg for x in a.args]
        defaults = [None] * (len(names) - len(a.defaults)) + list(a.defaults)
        if not names or names[0] != "self":
            bad(fn, "learn is not a method")
        kinds = []
        for nm, d in zip(names[1:], defaults[1:]):
            if d is None:
                kinds.append("batch")
                self.loc[nm] = Batch("experiences")
            elif isinstance(d, ast.Constant) and d.value is None:
                kinds.append("opt")
                self.loc[nm] = Batch("n_experiences") if nstep else NONE
            elif isinstance(d, ast.Constant) and isinstance(d.value, bool):
                kinds.append("bool")
                self.loc[nm] = per
            else:
                bad(fn, f"parameter `{nm}` of learn")
        if kinds != ["batch", "opt", "bool"]:
            bad(fn, "learn(experiences, n_experiences=None, per=<bool>) expected; parameters " + str(kinds))
        self.ret = None

    # -------------------------------------------------------------------------------------------- expressions
    def ev(self, n):
        if isinstance(n, ast.Constant):
            if n.value is None:
                return NONE
            if isinstance(n.value, bool):
                return n.value
            if isinstance(n.value, int):
                return Sc(f"({n.value} : Rat)")
            if isinstance(n.value, float):
                from fractions import Fraction
                f = Fraction(str(n.value))
                return Sc(f"(({f.numerator} : Rat) / {f.denominator})")
            bad(n, "constant")
        if isinstance(n, ast.Name):
            if n.id not in self.loc:
                bad(n, "name without a translatable value on this path")
            return self.loc[n.id]
        if isinstance(n, ast.Attribute) and isinstance(n.value, ast.Name) and n.value.id == "self":
            if n.attr not in ATTRS:
                bad(n, "attribute outside {gamma, n_step, prior_eps, combined_reward}")
            if n.attr == "combined_reward":
                return self.bools["comb"]
            return Sc(f"self_{n.attr}", ATTRS[n.attr])
        if isinstance(n, ast.UnaryOp) and isinstance(n.op, ast.Not):
            v = self.ev(n.operand)
            if not isinstance(v, bool):
                bad(n, "`not` of a non-boolean")
            return not v
        if isinstance(n, ast.UnaryOp) and isinstance(n.op, ast.USub):
            v = self.ev(n.operand)
            if isinstance(v, Sc):
                return Sc(f"(-{v.val})")
            if isinstance(v, Ten) and v.elt == "Rat":
                return Ten(v.shape, v.sh, f"(List.map (fun x => -x) {v.val})", "Rat")
            bad(n, "unary minus")
        if isinstance(n, ast.BoolOp):
            vs = [self.ev(x) for x in n.values]
            if not all(isinstance(v, bool) for v in vs):
                bad(n, "and / or of non-booleans")
            return all(vs) if isinstance(n.op, ast.And) else any(vs)
        if isinstance(n, ast.Compare) and len(n.ops) == 1 and isinstance(n.ops[0], (ast.Is, ast.IsNot)):
            a, b = self.ev(n.left), self.ev(n.comparators[0])
            if b is not NONE or not (a is NONE or isinstance(a, Batch)):
                bad(n, "`is` comparison other than <optional batch> is [not] None")
            r = a is NONE
            return r if isinstance(n.ops[0], ast.Is) else not r
        if isinstance(n, ast.BinOp):
            return self.binop(n)
        if isinstance(n, ast.Subscript):
            d = self.ev(n.value)
            if isinstance(d, Batch) and isinstance(n.slice, ast.Constant) and n.slice.value in FIELDS:
                k = n.slice.value
                elt, shape = FIELDS[k]
                self.assumed.add(f"`{k}` of a batch is a {('(' + ', '.join(map(str, shape)) + (',' if len(shape) == 1 else '') + ')')} tensor")
                return Ten(shape, sh_lit(shape), f"(List.map (fun r => r.{k}) {d.name})", elt, col=(d.name, k))
            bad(n, "subscript")
        if isinstance(n, ast.Call):
            return self.call(n)
        bad(n, "expression")

    def binop(self, n):
        a, b = self.ev(n.left), self.ev(n.right)
        if isinstance(n.op, ast.Pow):
            if isinstance(a, Sc) and isinstance(b, Sc) and a.ty == "Rat" and b.ty == "Nat":
                self.assumed.add("the exponent of `**` is a natural number")
                return Sc(f"({a.val} ^ {b.val})")
            bad(n, "`**` other than <Rat> ** <Nat attribute>")
        if type(n.op) not in ARITH:
            bad(n, "operator")
        return self.arith(n, ARITH[type(n.op)], a, b)

    def arith(self, n, op, a, b):
        if isinstance(a, Sc) and isinstance(b, Sc):
            if a.ty != "Rat" or b.ty != "Rat":
                bad(n, "arithmetic on a non-rational scalar")
            return Sc(f"({a.val} {op} {b.val})")
        if isinstance(a, Ten) and isinstance(b, Sc):
            if a.elt != "Rat" or b.ty != "Rat":
                bad(n, "arithmetic on non-rational entries")
            return Ten(a.shape, f"(bcast {a.sh} scalarS)", f"(List.map (fun x => x {op} {b.val}) {a.val})", "Rat")
        if isinstance(a, Sc) and isinstance(b, Ten):
            if b.elt != "Rat" or a.ty != "Rat":
                bad(n, "arithmetic on non-rational entries")
            return Ten(b.shape, f"(bcast scalarS {b.sh})", f"(List.map (fun x => {a.val} {op} x) {b.val})", "Rat")
        if isinstance(a, Ten) and isinstance(b, Ten):
            if a.elt != "Rat" or b.elt != "Rat":
                bad(n, "arithmetic on non-rational entries")
            s = bshape(n, a.shape, b.shape)
            sh = f"(bcast {a.sh} {b.sh})"
            if a.shape == b.shape:
                return Ten(s, sh, f"(List.zipWith (fun x y => x {op} y) {a.val} {b.val})", "Rat")
            if len(s) > 2:
                bad(n, "broadcast to more than two axes")
            return Ten(s, sh, f"(bzip (fun x y => x {op} y) {a.sh} {a.val} {b.sh} {b.val})", "Rat")
        bad(n, "arithmetic on a value that is not a tensor / number")

    def call(self, n):
        f = n.func
        if isinstance(f, ast.Attribute) and isinstance(f.value, ast.Name) and f.value.id == "self" and f.attr == self.loss_name:
            return self.loss_call(n)
        if isinstance(f, ast.Attribute) and isinstance(f.value, ast.Name) and f.value.id == "torch":
            if f.attr == "mean" and len(n.args) == 1 and not n.keywords:
                return self.mean(n, self.ev(n.args[0]))
            bad(n, "torch function")
        if isinstance(f, ast.Attribute):
            r = self.ev(f.value)
            name = f.attr
            if name in IDENT:
                self.assumed.add(f".{name}(…) is the identity on values")
                if isinstance(r, (Ten, Sc)):
                    return r
                bad(n, f".{name}() of a non-tensor")
            if not isinstance(r, Ten):
                bad(n, "method of a value that is not a tensor")
            if name == "mean" and not n.args and not n.keywords:
                return self.mean(n, r)
            if "O" in r.shape:
                bad(n, "reshaping an observation")
            ints = []
            for x in n.args:
                if isinstance(x, ast.Constant) and isinstance(x.value, int):
                    ints.append(x.value)
                elif isinstance(x, ast.UnaryOp) and isinstance(x.op, ast.USub) and isinstance(x.operand, ast.Constant) \
                        and isinstance(x.operand.value, int):
                    ints.append(-x.operand.value)
                else:
                    bad(n, "non-literal argument")
            if n.keywords:
                bad(n, "keyword argument")
            if (name in ("reshape", "view") and ints == [-1]) or (name == "flatten" and not ints):
                big = [d for d in r.shape if d != 1]
                if len(big) > 1:
                    bad(n, "flattening a tensor with two non-unit axes")
                return Ten(tuple(big) or (1,), f"(sFlat {r.sh})", r.val, r.elt, obj=r.obj)
            if name == "squeeze" and not ints:
                if r.shape.count("B") and False:
                    pass
                self.assumed.add(".squeeze() without an axis: B ≠ 1 is needed for the batch axis to survive (see sSqueezeAll)")
                return Ten(tuple(d for d in r.shape if d != 1), f"(sSqueezeAll {r.sh})", r.val, r.elt, obj=r.obj)
            if name in ("squeeze", "unsqueeze") and len(ints) == 1:
                k = ints[0]
                nd = len(r.shape) + (1 if name == "unsqueeze" else 0)
                kk = k if k >= 0 else nd + k
                if not 0 <= kk < nd:
                    bad(n, "axis out of range (torch raises)")
                sh = list(r.shape)
                if name == "unsqueeze":
                    sh.insert(kk, 1)
                elif sh[kk] == 1:
                    del sh[kk]
                return Ten(tuple(sh), f"(s{name.capitalize()} ({k}) {r.sh})", r.val, r.elt, obj=r.obj)
            bad(n, "tensor method")
        bad(n, "call")

    def mean(self, n, t):
        if not isinstance(t, Ten) or t.elt != "Rat":
            bad(n, "mean of a value that is not a float tensor")
        return Sc(f"(mean {t.val})", "Rat", mean_of=t)

    def loss_call(self, n):
        if n.keywords or len(n.args) < 2:
            bad(n, "call of the loss method")
        cols = [self.ev(x) for x in n.args[:-1]]
        g = self.ev(n.args[-1])
        if not isinstance(g, Sc) or g.ty != "Rat":
            bad(n, "last argument of the loss method is not a rational number")
        batches = set()
        for x, c in zip(n.args, cols):
            if not isinstance(c, Ten) or c.col is None:
                bad(x, "argument of the loss method that is not a column of a batch")
            batches.add(c.col[0])
        if len(batches) != 1:
            bad(n, "loss method fed by columns of two different batches")
        sig = tuple(c.elt for c in cols)
        if self.loss_sig not in (None, sig):
            bad(n, "loss method called with columns of different types at two call sites")
        self.loss_sig = sig
        b = batches.pop()
        args = " ".join(f"r.{c.col[1]}" for c in cols)
        self.assumed.add(f"self.{self.loss_name}(columns of one batch, γ) acts row by row: entry i is `loss` of row i; its "
                         f"shape (B,) is the one py2lean_c51.py infers for the returned value")
        return Ten(("B",), sh_lit(("B",)), f"(List.map (fun r => loss {args} {g.val}) {b})", "Rat")

    # -------------------------------------------------------------------------------------------- statements
    def effect_only(self, body) -> bool:
        for st in body:
            if isinstance(st, ast.Pass) or (isinstance(st, ast.Expr) and isinstance(st.value, (ast.Call, ast.Constant))):
                continue
            if isinstance(st, ast.If) and self.effect_only(st.body) and self.effect_only(st.orelse):
                continue
            return False
        return True

    def run(self, body) -> bool:
        """True when a return was executed"""
        for st in body:
            if isinstance(st, ast.Pass) or (isinstance(st, ast.Expr) and isinstance(st.value, ast.Constant)):
                continue
            if isinstance(st, ast.Expr) and isinstance(st.value, ast.Call):
                self.assumed.add("calls for effect (optimizer, backward, clipping, soft update, noise reset) do not "
                                 "change the values already computed")
                continue
            if isinstance(st, ast.Assign) and len(st.targets) == 1 and isinstance(st.targets[0], ast.Name):
                self.loc[st.targets[0].id] = self.ev(st.value)
                continue
            if isinstance(st, ast.AugAssign) and isinstance(st.target, ast.Name) and type(st.op) in ARITH:
                cur = self.ev(st.target)
                new = self.arith(st, ARITH[type(st.op)], cur, self.ev(st.value))
                if isinstance(cur, Ten):
                    if new.shape != cur.shape:
                        bad(st, f"in-place update that would change the shape {cur.shape} → {new.shape} (torch raises)")
                    new.obj = cur.obj
                    for k, v in list(self.loc.items()):
                        if isinstance(v, Ten) and v.obj == cur.obj:
                            self.loc[k] = Ten(v.shape, new.sh, new.val, new.elt, obj=cur.obj) if v.shape == new.shape \
                                else bad(st, "in-place update of a tensor with a reshaped alias")
                else:
                    self.loc[st.target.id] = new
                continue
            if isinstance(st, ast.If):
                try:
                    c = self.ev(st.test)
                except Unsupported:
                    c = None
                if isinstance(c, bool):
                    if self.run(st.body if c else st.orelse):
                        return True
                    continue
                if self.effect_only(st.body) and self.effect_only(st.orelse):
                    self.assumed.add("calls for effect (optimizer, backward, clipping, soft update, noise reset) do not "
                                     "change the values already computed")
                    continue
                bad(st, "`if` on something other than per / n_experiences / self.combined_reward around assignments")
            if isinstance(st, ast.Return):
                if not isinstance(st.value, ast.Tuple) or len(st.value.elts) != 3:
                    bad(st, "return of something other than a 3-tuple")
                self.ret = [self.ev(x) for x in st.value.elts]
                return True
            bad(st, "statement")
        return False


# ------------------------------------------------------------------------------------------------ emission
PRELUDE = '''namespace C51BatchGen

/-- the shape of a tensor; `[]` = a 0-d tensor / a Python number -/
abbrev Shape := List Nat

/-- one axis of torch broadcasting -/
def bdim (a b : Nat) : Option Nat :=
  if a = b then some a else if a = 1 then some b else if b = 1 then some a else none

def bcastRev : Shape → Shape → Option Shape
  | [], l => some l
  | a :: as, [] => some (a :: as)
  | a :: as, b :: bs =>
    match bdim a b, bcastRev as bs with
    | some d, some r => some (d :: r)
    | _, _ => none

/-- shape of an element-wise binary operation (`none` = torch raises) -/
def bcast (s t : Option Shape) : Option Shape :=
  match s, t with
  | some s, some t => (bcastRev s.reverse t.reverse).map List.reverse
  | _, _ => none

def scalarS : Option Shape := some []

/-- `.reshape(-1)` / `.view(-1)` / `.flatten()` -/
def sFlat : Option Shape → Option Shape
  | some s => some [s.foldl (· * ·) 1]
  | none => none

/-- `.squeeze()` without an axis: every axis of size 1 goes -/
def sSqueezeAll : Option Shape → Option Shape
  | some s => some (s.filter (· ≠ 1))
  | none => none

def normDim (n : Nat) (d : Int) : Option Nat :=
  if 0 ≤ d then (if d.toNat < n then some d.toNat else none)
  else (if (-d).toNat ≤ n then some (n - (-d).toNat) else none)

def sUnsqueeze (d : Int) : Option Shape → Option Shape
  | some s => (normDim (s.length + 1) d).map (fun k => s.take k ++ 1 :: s.drop k)
  | none => none

def sSqueeze (d : Int) : Option Shape → Option Shape
  | some s => (normDim s.length d).map (fun k => if s.getD k 0 = 1 then s.take k ++ s.drop (k + 1) else s)
  | none => none

/-- entry `(i, j)` of the broadcast of a tensor of at most two axes with shape `s` and row-major data `d` -/
def bread (s : Option Shape) (d : List Rat) (i j : Nat) : Rat :=
  match s with
  | some [r, c] => d.getD ((if r = 1 then 0 else i) * c + (if c = 1 then 0 else j)) 0
  | some [c] => d.getD (if c = 1 then 0 else j) 0
  | some [] => d.getD 0 0
  | _ => 0

/-- element-wise `f` of two tensors that torch broadcasts (result of at most two axes), row-major -/
def bzip (f : Rat → Rat → Rat) (s1 : Option Shape) (d1 : List Rat) (s2 : Option Shape) (d2 : List Rat) : List Rat :=
  match bcast s1 s2 with
  | some [r, c] => ((List.range r).map fun i => (List.range c).map fun j => f (bread s1 d1 i j) (bread s2 d2 i j)).flatten
  | some [c] => (List.range c).map fun j => f (bread s1 d1 0 j) (bread s2 d2 0 j)
  | _ => []

/-- `torch.mean(t)`: sum over ALL entries / number of entries -/
def mean (l : List Rat) : Rat := l.sum / (l.length : Rat)

/-- one row of a batch (`experiences[key]`, row by row) -/
structure Row (Obs : Type) where
  obs : Obs
  action : Nat
  reward : Rat
  next_obs : Obs
  done : Rat
  weights : Rat
  idxs : Nat
'''


def repo_dir(arg):
    if arg:
        return Path(arg)
    return Path(os.environ.get("VERIF_REPO", "/repo"))


def tree(vals: dict, render) -> str:
    """decision tree over (per, n_experiences, combined) of the rendered values; equal branches are merged"""
    def comb(per, ns):
        a, b = render(vals[(per, ns, True)]), render(vals[(per, ns, False)])
        return a if a == b else f"(if self_combined_reward = true then {a} else {b})"

    def nst(per):
        return f"(match n_experiences with | some n_experiences => {comb(per, True)} | none => {comb(per, False)})"
    body = f"(if per = true then {nst(True)} else {nst(False)})"
    if "(bzip " in body:        # the general broadcast reads the shapes: B is the number of rows of the batch
        body = "let B : Nat := experiences.length\n  " + body
    return body


def shape_tree(vals: dict, render) -> str:
    def comb(per, ns):
        a, b = render(vals[(per, ns, True)]), render(vals[(per, ns, False)])
        return a if a == b else f"(if combined = true then {a} else {b})"

    def nst(per):
        a, b = comb(per, True), comb(per, False)
        return a if a == b else f"(if n_step = true then {a} else {b})"
    a, b = nst(True), nst(False)
    return a if a == b else f"(if per = true then {a} else {b})"


def translate_source(src: str):
    import py2lean_c51
    try:
        py2lean_c51.translate_source(src)        # shape inference of LOSS: it returns a (B,) float tensor
        cls, init, loss, learn = py2lean_c51.locate(ast.parse(src))
    except py2lean_c51.Unsupported as e:
        raise Unsupported(f"py2lean_c51 (shape of the element-wise loss): {e}") from e
    assumed: set = set()
    rets, sig = {}, None
    for per in (True, False):
        for ns in (True, False):
            for cb in (True, False):
                Ten._n = 0
                ex = Exec(loss.name, learn, per, ns, cb, assumed)
                if not ex.run(learn.body) or ex.ret is None:
                    raise Unsupported(f"{where(learn)}: unsupported construct: a path of {learn.name} without return")
                rets[(per, ns, cb)] = ex.ret
                if ex.loss_sig is not None:
                    if sig not in (None, ex.loss_sig):
                        raise Unsupported(f"{where(learn)}: loss method called with different column types on two paths")
                    sig = ex.loss_sig
    if sig is None:
        raise Unsupported(f"{where(learn)}: no call of self.{loss.name} reached")
    for key, r in rets.items():
        if not isinstance(r[0], Sc) or r[0].ty != "Rat":
            raise Unsupported(f"{where(learn)}: component 0 of the returned tuple is not a rational scalar on path {key}")
        if not (r[1] is NONE or (isinstance(r[1], Ten) and r[1].elt == "Nat")):
            raise Unsupported(f"{where(learn)}: component 1 of the returned tuple is not None / an index tensor on path {key}")
        if not (r[2] is NONE or (isinstance(r[2], Ten) and r[2].elt == "Rat")):
            raise Unsupported(f"{where(learn)}: component 2 of the returned tuple is not None / a float tensor on path {key}")
    loss_ty = " → ".join(list(sig) + ["Rat", "Rat"])
    params = (f"{{Obs : Type}} (loss : {loss_ty}) (self_combined_reward : Bool) (self_gamma : Rat) (self_n_step : Nat) "
              f"(self_prior_eps : Rat) (experiences : List (Row Obs)) (n_experiences : Option (List (Row Obs))) (per : Bool)")
    opt = lambda v: "none" if v is NONE else f"(some {v.val})"
    osh = lambda v: "none" if v is NONE else v.sh
    L = []
    L.append("/-- `learn`, component 0 of the returned tuple (the scalar loss) -/")
    L.append(f"def learn_ret0 {params} : Rat :=\n  " + tree({k: r[0] for k, r in rets.items()}, lambda v: v.val))
    L.append("")
    L.append("/-- `learn`, component 1 of the returned tuple (`idxs`) -/")
    L.append(f"def learn_ret1 {params} : Option (List Nat) :=\n  " + tree({k: r[1] for k, r in rets.items()}, opt))
    L.append("")
    L.append("/-- `learn`, component 2 of the returned tuple (`new_priorities`) -/")
    L.append(f"def learn_ret2 {params} : Option (List Rat) :=\n  " + tree({k: r[2] for k, r in rets.items()}, opt))
    L.append("")
    L.append("/-- the shape of the tensor whose mean is component 0, by torch's broadcasting rules (`none` = torch raises / "
             "component 0 is not a mean) -/")
    L.append("def mean_arg_shape (B : Nat) (per n_step combined : Bool) : Option Shape :=\n  " +
             shape_tree({k: r[0] for k, r in rets.items()}, lambda v: v.mean_of.sh if v.mean_of is not None else "none"))
    L.append("")
    L.append("/-- the shape of component 2 (`new_priorities`); `none` = `None` -/")
    L.append("def ret2_shape (B : Nat) (per n_step combined : Bool) : Option Shape :=\n  " +
             shape_tree({k: r[2] for k, r in rets.items()}, osh))
    L.append("")
    L.append("/-- the shape of component 1 (`idxs`); `none` = `None` -/")
    L.append("def ret1_shape (B : Nat) (per n_step combined : Bool) : Option Shape :=\n  " +
             shape_tree({k: r[1] for k, r in rets.items()}, osh))
    return L, sorted(assumed)


def translate(repo: Path):
    path = Path(repo) / REL_SOURCE
    try:
        raw = path.read_bytes()
    except OSError as e:
        raise Unsupported(f"cannot read {path}: {e}") from e
    sha = hashlib.sha256(raw).hexdigest()
    try:
        lines, assumed = translate_source(raw.decode("utf-8"))
    except SyntaxError as e:
        raise Unsupported(f"{REL_SOURCE}:{e.lineno}: not parseable: {e.msg}") from e
    header = "\n".join([
        "/-",
        "  Gen/C51BatchGen.lean — GENERATED by harness/py2lean_c51batch.py from `RainbowDQN.learn`",
        f"  ({REL_SOURCE}): the batch-level combination of the element-wise losses, the importance weights, the mean,",
        "  the returned indices and priorities, with shapes (symbolic batch size B); do not edit.  Core Lean only.",
        "  `Proofs/C51BatchGenEq.lean` proves the definitions equal to their counterparts in `Model/C51.lean`.",
        "  Assumed:",
    ] + [f"    * {a}" for a in assumed] + ["-/", SHA_PREFIX + sha, "set_option linter.unusedVariables false", ""])
    return header + "\n" + PRELUDE + "\n" + "\n".join(lines).rstrip() + "\n\nend C51BatchGen\n", sha


def strip_sha(text: str) -> str:
    return "\n".join(ln for ln in text.split("\n") if not ln.startswith(SHA_PREFIX))


def write_if_changed(text: str, out: Path, force: bool = False) -> bool:
    out = Path(out)
    old = out.read_text() if out.exists() else None
    if old is not None and not force and strip_sha(old) == strip_sha(text):
        return False
    if old == text:
        return False
    out.parent.mkdir(parents=True, exist_ok=True)
    tmp = out.with_suffix(".lean.tmp")
    tmp.write_text(text)
    os.replace(tmp, out)
    return True


def main(argv) -> int:
    import argparse
    ap = argparse.ArgumentParser()
    ap.add_argument("--repo", default=None)
    ap.add_argument("--out", default=str(DEFAULT_OUT))
    ap.add_argument("--stdout", action="store_true")
    ap.add_argument("--force", action="store_true")
    a = ap.parse_args(argv)
    try:
        text, sha = translate(repo_dir(a.repo))
    except Unsupported as e:
        print(f"py2lean_c51batch: {e}", file=sys.stderr)
        return 1
    if a.stdout:
        sys.stdout.write(text)
        return 0
    changed = write_if_changed(text, Path(a.out), a.force)
    print(f"{a.out}: {'written' if changed else 'unchanged'} (source sha256 {sha[:16]}…)")
    return 0


if __name__ == "__main__":
    sys.exit(main(sys.argv[1:]))
